import EinxModel.Proofs.DenoteDot
import EinxModel.Denote.Fun3
/-!
Dot (C08c): permuting / regrouping the root dimensions of ONE operand of a dot together with its tensor.  The contracted
axes are enumerated in another order, so the terms of the sum are visited in another order; `mkRed "sum"` sorts them.
The re-canonicaliser `Cell.resortAt "red:sum"` touches the sum only: a product `multiply […]` keeps its operand order.
-/
namespace Einx.Denote
open Einx Einx.IR List
open Einx.Update (mapOpt mapOpt_eq_some_iff mapOpt_congr)

/-! ### substitution and products -/

def mulStep (acc d : Cell) : Cell := .app "multiply" [acc, d]

theorem mkProd_cons (c : Cell) (rest : List Cell) : mkProd (c :: rest) = rest.foldl mulStep c := rfl

theorem subst_foldl_mul (regs : List (Tensor Cell)) : ∀ (rest : List Cell) (c : Cell),
    subst regs (rest.foldl mulStep c) = (rest.map (subst regs)).foldl mulStep (subst regs c) := by
  intro rest
  induction rest with
  | nil => intro c; rfl
  | cons d rest ih =>
    intro c
    simp only [List.foldl_cons, List.map_cons]
    rw [ih]
    congr 1

theorem subst_mkProd (regs : List (Tensor Cell)) (cs : List Cell) :
    subst regs (mkProd cs) = mkProd (cs.map (subst regs)) := by
  cases cs with
  | nil => simp [mkProd, subst_app]
  | cons c rest => rw [mkProd_cons, subst_foldl_mul, List.map_cons, mkProd_cons]

theorem foldl_mul_head : ∀ (rest : List Cell) (acc : Cell), (∃ args, acc = .app "multiply" args) →
    ∃ args, rest.foldl mulStep acc = .app "multiply" args := by
  intro rest
  induction rest with
  | nil => intro acc h; exact h
  | cons d rest ih => intro acc _; exact ih _ ⟨_, rfl⟩

/-- A product of input elements is not a `red:f` application: the restricted re-canonicaliser leaves it alone. -/
theorem resortAt_mkProd_src (f : String) (fs : List Cell) (h : ∀ c ∈ fs, ∃ i k, c = Cell.src i k) :
    Cell.resortAt ("red:" ++ f) (mkProd fs) = mkProd fs := by
  have hne : ("multiply" == "red:" ++ f) = false := by
    apply beq_eq_false_iff_ne.mpr
    intro e
    have := congrArg (fun s => s.toList.head?) e
    simp at this
  match fs, h with
  | [], _ => simp [mkProd, Cell.resortAt, hne]
  | [c], h =>
    obtain ⟨i, k, rfl⟩ := h c (by simp)
    rfl
  | c :: d :: rest, _ =>
    rw [mkProd_cons, List.foldl_cons]
    obtain ⟨args, hargs⟩ := foldl_mul_head rest (mulStep c d) ⟨_, rfl⟩
    rw [hargs]
    simp [Cell.resortAt, hne]

theorem resortAt_subst_mkRed (regs : List (Tensor Cell)) (f : String) {r' r : List Cell}
    (hp : r'.map (subst regs) ~ r) (hr : ∀ c ∈ r, Cell.resortAt ("red:" ++ f) c = c) :
    Cell.resortAt ("red:" ++ f) (subst regs (mkRed f r')) = mkRed f r := by
  match r', hp with
  | [], hp =>
    have : r = [] := by simpa using hp.symm.eq_nil
    subst this
    simp [mkRed, subst_app, Cell.resortAt, sortCells]
  | [c'], hp =>
    have : r = [subst regs c'] := by simpa using (List.perm_singleton.mp hp.symm)
    subst this
    simp only [mkRed]
    exact hr _ (by simp)
  | a :: b :: t, hp =>
    have hlen := hp.length_eq
    match r, hp, hlen with
    | x :: y :: t', hp, _ =>
      simp only [mkRed, subst_app, Cell.resortAt, beq_self_eq_true, if_true]
      congr 1
      exact sortCells_perm (((sortCells_perm_self (a :: b :: t)).map _).trans hp)

/-! ### the values `inputAssign (τ ++ σ) τ` can give are in range -/

theorem valsInRange_dot {all ls : List Leaf} {w : List Dim} {σ τ : Assign} {axes : List (String × Nat)}
    (hsub : ∀ l ∈ ls, l ∈ all) (hcons : Consistent (all ++ Dim.leavesL w))
    (hσ : σ ∈ outAssignments w) (hτ : τ ∈ assignments axes)
    (haxes : ∀ q ∈ axes, ∃ l ∈ all, l.name = q.1 ∧ l.size = q.2) :
    ValsInRange (τ ++ σ) τ ls := by
  have hca : Consistent all := fun a ha b hb => hcons a (List.mem_append_left _ ha) b (List.mem_append_left _ hb)
  have hτr : ∀ l ∈ ls, ∀ x, τ.get l.name = some x → x < l.size := by
    intro l hl x hx
    obtain ⟨s, hs, hlt⟩ := assignments_get_some _ τ hτ l.name x hx
    obtain ⟨l', hl', hn, hsz⟩ := haxes _ hs
    have : l'.size = l.size := hca l' hl' l (hsub l hl) hn
    simp only at hsz
    omega
  intro l hl x hx
  unfold inVal at hx
  by_cases hmk : l.marked = true
  · simp only [hmk, if_true] at hx
    exact hτr l hl x hx
  · simp only [hmk, Bool.false_eq_true, if_false, get_append] at hx
    cases hg : τ.get l.name with
    | some y =>
      simp only [hg, Option.some.injEq] at hx
      subst hx
      exact hτr l hl y hg
    | none =>
      simp only [hg] at hx
      cases hg2 : σ.get l.name with
      | some y =>
        simp only [hg2, Option.some.injEq] at hx
        subst hx
        exact outAssignments_inRange hcons hσ l (hsub l hl) y hg2
      | none =>
        simp only [hg2] at hx
        by_cases hs : (l.size == 1) = true
        · simp only [hs, if_true, Option.some.injEq] at hx
          have : l.size = 1 := by simpa using hs
          omega
        · simp [hs] at hx

/-! ### one factor -/

theorem inputAssign_bounded {σ τ a : Assign} {ls : List Leaf} (hms : MarkSep ls) (hc : Consistent ls)
    (hr : ValsInRange σ τ ls) (h : inputAssign σ τ ls = some a) : BoundedOn a ls := by
  have := inputAssign_spec σ τ hms hc
  rw [h] at this
  intro l hl
  obtain ⟨hne, hg⟩ := this.1 l hl
  cases hx : inVal σ τ l with
  | none => exact absurd hx hne
  | some x => exact ⟨x, by rw [hg, hx], hr l hl x hx⟩

/-- An operand that is not touched: substituting the symbolic input gives the same factor. -/
theorem dotFactor_fixed {u : List Dim} {σ τ : Assign} {k : Nat} (regs : List (Tensor Cell))
    (hc : Dim.concatFreeL u = true) (hms : MarkSep (Dim.leavesL u)) (hcons : Consistent (Dim.leavesL u))
    (hr : ValsInRange (τ ++ σ) τ (Dim.leavesL u))
    (hregs : regs[k]? = some (symInput k (viewShape u))) :
    (dotFactor σ τ ((u, viewShape u), k)).map (subst regs) = dotFactor σ τ ((u, viewShape u), k) := by
  simp only [dotFactor]
  cases hx : inputAssign (τ ++ σ) τ (Dim.leavesL u) with
  | none => rfl
  | some a =>
    obtain ⟨pos, hcell, hlt⟩ := cellAt_in_range k hc (inputAssign_bounded hms hcons hr hx)
    simp only [hcell, Option.map_some, subst_symInput regs k pos _ hregs hlt]

/-- The permuted operand, read from the transposed tensor in register `j`. -/
theorem dotFactor_permuted {v v' : List Dim} {perm : List Nat} {shapes : List (List Nat)} {j : Nat} {σ τ : Assign}
    {plan : Plan} (regs : List (Tensor Cell)) (hperm : isPermOf perm v.length = true) (hv' : permuteL perm v = some v')
    (hc : Dim.concatFreeL v = true) (hms : MarkSep (Dim.leavesL v)) (hcons : Consistent (Dim.leavesL v))
    (hr : ValsInRange (τ ++ σ) τ (Dim.leavesL v))
    (hx : shapes[j]? = some (viewShape v)) (hplan : planInstr shapes (.transpose j perm) = .ok plan)
    (hregs : regs[j]? = some ⟨plan.shape, plan.cells⟩) :
    (dotFactor σ τ ((v', viewShape v'), j)).map (subst regs) = dotFactor σ τ ((v, viewShape v), j) := by
  simp only [dotFactor]
  rcases inputAssign_perm (σ := τ ++ σ) (leavesL_permute hperm hv') hms hcons (fun _ => rfl : SameGet τ τ) with
    ⟨h1, h2⟩ | ⟨a, a', h1, h2, hsg, _⟩
  · rw [h1, h2]; rfl
  · rw [h1, h2]
    have hb : BoundedOn a (Dim.leavesL v) := inputAssign_bounded hms hcons hr h1
    have := cellAt_permute_input_reg regs j hperm hv' hc (hb.sameGet hsg) hx hplan hregs
    simp only []
    rw [this, ← cellAt_sameGet hsg]

theorem dotFactor_src {σ τ : Assign} {q : (List Dim × List Nat) × Nat} {c : Cell} (h : dotFactor σ τ q = some c) :
    ∃ i k, c = Cell.src i k := by
  unfold dotFactor at h
  cases ha : inputAssign (τ ++ σ) τ (Dim.leavesL q.1.1) with
  | none => simp [ha] at h
  | some a =>
    simp only [ha, cellAt] at h
    cases hf : flatPos q.1.1 q.1.2 a with
    | none => simp [hf] at h
    | some k =>
      simp only [hf, Option.map_some, Option.some.injEq] at h
      exact ⟨_, _, h.symm⟩

theorem dotTerm_resort (f : String) {ins : List (List Dim × List Nat)} {σ τ : Assign} {c : Cell}
    (h : dotTerm ins σ τ = some c) : Cell.resortAt ("red:" ++ f) c = c := by
  unfold dotTerm at h
  cases hm : mapOpt (dotFactor σ τ) ins.zipIdx with
  | none => simp [hm] at h
  | some fs =>
    simp only [hm, Option.map_some, Option.some.injEq] at h
    subst h
    apply resortAt_mkProd_src
    intro c hc
    obtain ⟨q, _, hq⟩ := mapOpt_mem hm hc
    exact dotFactor_src hq

/-! ### the hypotheses on the operands, as one structure -/

/-- Every operand's register has the shape of its concatenation-free view; no axis name is both bracketed and
un-bracketed within one operand; leaf sizes are consistent per name across all operands and the output view `w`. -/
structure DotOK (ins : List (List Dim × List Nat)) (w : List Dim) : Prop where
  shape : ∀ p ∈ ins, p.2 = viewShape p.1 ∧ Dim.concatFreeL p.1 = true
  msep : ∀ p ∈ ins, MarkSep (Dim.leavesL p.1)
  cons : Consistent (ins.flatMap (fun p => Dim.leavesL p.1) ++ Dim.leavesL w)

def dotOKB (ins : List (List Dim × List Nat)) (w : List Dim) : Bool :=
  ins.all (fun p => p.2 == viewShape p.1 && Dim.concatFreeL p.1 && markSepB (Dim.leavesL p.1)) &&
    consistentB (ins.flatMap (fun p => Dim.leavesL p.1) ++ Dim.leavesL w)

theorem dotOKB_spec {ins : List (List Dim × List Nat)} {w : List Dim} (h : dotOKB ins w = true) : DotOK ins w := by
  simp only [dotOKB, Bool.and_eq_true, List.all_eq_true, beq_iff_eq] at h
  exact ⟨fun p hp => ⟨(h.1 p hp).1.1, (h.1 p hp).1.2⟩, fun p hp => markSepB_spec (h.1 p hp).2, consistentB_spec h.2⟩

theorem allLeaves_mem {ins : List (List Dim × List Nat)} {p : List Dim × List Nat} (hp : p ∈ ins) :
    ∀ l ∈ Dim.leavesL p.1, l ∈ ins.flatMap (fun p => Dim.leavesL p.1) :=
  fun l hl => List.mem_flatMap.mpr ⟨p, hp, hl⟩

/-- The leaves of all operands after replacing operand `j` (view `v`) by a view with the same set of leaves. -/
theorem allLeaves_set {ins : List (List Dim × List Nat)} {j : Nat} {v v' : List Dim} {s s' : List Nat}
    (hj : ins[j]? = some (v, s)) (hm : ∀ l, l ∈ Dim.leavesL v ↔ l ∈ Dim.leavesL v') (l : Leaf) :
    l ∈ (ins.set j (v', s')).flatMap (fun p => Dim.leavesL p.1) ↔ l ∈ ins.flatMap (fun p => Dim.leavesL p.1) := by
  simp only [List.mem_flatMap]
  constructor
  · rintro ⟨p, hp, hl⟩
    obtain ⟨k, hk, hpk⟩ := List.getElem_of_mem hp
    have hk' : k < ins.length := by simpa using hk
    rw [List.getElem_set] at hpk
    by_cases hjk : j = k
    · simp only [hjk, if_true] at hpk
      subst hpk
      exact ⟨(v, s), List.mem_of_getElem? hj, (hm l).mpr hl⟩
    · simp only [hjk, if_false] at hpk
      exact ⟨p, by rw [← hpk]; exact List.getElem_mem hk', hl⟩
  · rintro ⟨p, hp, hl⟩
    obtain ⟨k, hk, hpk⟩ := List.getElem_of_mem hp
    by_cases hjk : j = k
    · subst hjk
      have : ins[j]? = some p := by rw [List.getElem?_eq_getElem hk, hpk]
      rw [hj] at this
      have hp' : p = (v, s) := (Option.some.inj this).symm
      subst hp'
      refine ⟨(v', s'), ?_, (hm l).mp hl⟩
      exact List.mem_iff_getElem.mpr ⟨j, by simpa using hk, by simp⟩
    · refine ⟨p, ?_, hl⟩
      exact List.mem_iff_getElem.mpr ⟨k, by simpa using hk, by rw [List.getElem_set]; simp [hjk, hpk]⟩

/-! ### one term of the sum -/

theorem dotTerm_permute_input {ins : List (List Dim × List Nat)} {j : Nat} {v v' w : List Dim}
    {perm : List Nat} {plan : Plan} {σ τ : Assign} {axes : List (String × Nat)}
    (hj : ins[j]? = some (v, viewShape v)) (hok : DotOK ins w)
    (hperm : isPermOf perm v.length = true) (hv' : permuteL perm v = some v')
    (hplan : planInstr (ins.map (·.2)) (.transpose j perm) = .ok plan)
    (hσ : σ ∈ outAssignments w) (hτ : τ ∈ assignments axes)
    (haxes : ∀ q ∈ axes, ∃ l ∈ ins.flatMap (fun p => Dim.leavesL p.1), l.name = q.1 ∧ l.size = q.2) :
    (dotTerm (ins.set j (v', viewShape v')) σ τ).map (subst (permRegs (ins.set j (v', viewShape v')) j plan))
      = dotTerm ins σ τ := by
  generalize hregs : permRegs (ins.set j (v', viewShape v')) j plan = regs
  have hjlt : j < ins.length := by
    rcases Nat.lt_or_ge j ins.length with h | h
    · exact h
    · rw [List.getElem?_eq_none h] at hj; simp at hj
  have hvin : (v, viewShape v) ∈ ins := List.mem_of_getElem? hj
  have hca : Consistent (ins.flatMap (fun p => Dim.leavesL p.1)) :=
    fun a ha b hb => hok.cons a (List.mem_append_left _ ha) b (List.mem_append_left _ hb)
  have hfs : (mapOpt (dotFactor σ τ) (ins.set j (v', viewShape v')).zipIdx).map (List.map (subst regs))
      = mapOpt (dotFactor σ τ) ins.zipIdx := by
    apply mapOpt_pointwise
    · simp
    · intro k a a' ha ha'
      rw [List.getElem?_zipIdx] at ha ha'
      have hreg : ∀ q, (ins.set j (v', viewShape v')).zipIdx[k]? = some q →
          regs[k]? = some (if q.2 = j then (⟨plan.shape, plan.cells⟩ : Tensor Cell) else symInput q.2 q.1.2) := by
        intro q hq
        rw [← hregs, permRegs, List.getElem?_map, hq]; rfl
      by_cases hk : j = k
      · subst hk
        simp only [List.getElem?_set, if_true, hjlt, Option.map_some, Option.some.injEq, Nat.zero_add] at ha
        simp only [hj, Option.map_some, Option.some.injEq, Nat.zero_add] at ha'
        subst ha ha'
        have hsub := allLeaves_mem hvin
        refine dotFactor_permuted regs hperm hv' (hok.shape _ hvin).2 (hok.msep _ hvin)
          (fun a ha b hb => hca a (hsub a ha) b (hsub b hb))
          (valsInRange_dot hsub hok.cons hσ hτ haxes) (by simp [hj]) hplan ?_
        have := hreg ((v', viewShape v'), j) (by simp [List.getElem?_zipIdx, hjlt])
        simpa using this
      · simp only [List.getElem?_set, hk, if_false] at ha
        rw [ha] at ha'
        simp only [Option.some.injEq] at ha'
        subst ha'
        cases hp : ins[k]? with
        | none => simp [hp] at ha
        | some p =>
          simp only [hp, Option.map_some, Option.some.injEq, Nat.zero_add] at ha
          subst ha
          have hpin : p ∈ ins := List.mem_of_getElem? hp
          obtain ⟨u, su⟩ := p
          obtain ⟨hsu, hcu⟩ := hok.shape _ hpin
          simp only at hsu hcu
          subst hsu
          have hsub := allLeaves_mem hpin
          refine dotFactor_fixed regs hcu (hok.msep _ hpin)
            (fun a ha b hb => hca a (hsub a ha) b (hsub b hb))
            (valsInRange_dot hsub hok.cons hσ hτ haxes) ?_
          have := hreg ((u, viewShape u), k) (by simp [List.getElem?_zipIdx, hk, hp])
          have hkj : ¬ k = j := fun e => hk e.symm
          simpa [hkj] using this
  unfold dotTerm
  rw [← hfs]
  cases mapOpt (dotFactor σ τ) (ins.set j (v', viewShape v')).zipIdx with
  | none => rfl
  | some fs => simp only [Option.map_some, subst_mkProd]

/-! ### the terms: a permutation -/

theorem dotTerm_congr (ins : List (List Dim × List Nat)) (σ : Assign) {τ τ' : Assign} (h : SameGet τ τ') :
    dotTerm ins σ τ = dotTerm ins σ τ' := by
  unfold dotTerm
  have : dotFactor σ τ = dotFactor σ τ' := by
    funext q
    unfold dotFactor
    rw [inputAssign_congr (σ := τ ++ σ) (σ' := τ' ++ σ) (τ := τ) (τ' := τ')
      (fun n => by rw [get_append, get_append, h n]) h]
  rw [this]

theorem dotMarked_axes {ins : List (List Dim × List Nat)}
    (hca : Consistent (ins.flatMap (fun p => Dim.leavesL p.1))) :
    ∀ q ∈ dotMarked ins, ∃ l ∈ ins.flatMap (fun p => Dim.leavesL p.1), l.name = q.1 ∧ l.size = q.2 := by
  intro q hq
  have hcf : Consistent ((ins.flatMap (fun p => Dim.leavesL p.1)).filter (·.marked)) :=
    fun a ha b hb => hca a (List.mem_filter.mp ha).1 b (List.mem_filter.mp hb).1
  obtain ⟨l, hl, h⟩ := (mem_axesOf hcf q).mp hq
  exact ⟨l, (List.mem_filter.mp hl).1, h⟩

/-- The terms of the permuted operation, substituted, are a permutation of the original terms. -/
theorem dotArgs_permute_input {ins : List (List Dim × List Nat)} {j : Nat} {v v' w : List Dim}
    {perm : List Nat} {plan : Plan} {σ : Assign}
    (hj : ins[j]? = some (v, viewShape v)) (hok : DotOK ins w)
    (hperm : isPermOf perm v.length = true) (hv' : permuteL perm v = some v')
    (hplan : planInstr (ins.map (·.2)) (.transpose j perm) = .ok plan)
    (hσ : σ ∈ outAssignments w) :
    (dotArgs (ins.set j (v', viewShape v')) σ = none ∧ dotArgs ins σ = none) ∨
      ∃ r' r, dotArgs (ins.set j (v', viewShape v')) σ = some r' ∧ dotArgs ins σ = some r ∧
        r'.map (subst (permRegs (ins.set j (v', viewShape v')) j plan)) ~ r := by
  generalize hins' : ins.set j (v', viewShape v') = ins'
  generalize hregs : permRegs ins' j plan = regs
  have hca : Consistent (ins.flatMap (fun p => Dim.leavesL p.1)) :=
    fun a ha b hb => hok.cons a (List.mem_append_left _ ha) b (List.mem_append_left _ hb)
  have hm : ∀ l, l ∈ ins'.flatMap (fun p => Dim.leavesL p.1) ↔ l ∈ ins.flatMap (fun p => Dim.leavesL p.1) := by
    intro l; rw [← hins']; exact allLeaves_set hj (leavesL_permute hperm hv') l
  have hmf : ∀ l, l ∈ (ins'.flatMap (fun p => Dim.leavesL p.1)).filter (·.marked)
      ↔ l ∈ (ins.flatMap (fun p => Dim.leavesL p.1)).filter (·.marked) := by
    intro l; simp only [List.mem_filter, hm l]
  have hcf' : Consistent ((ins'.flatMap (fun p => Dim.leavesL p.1)).filter (·.marked)) := fun a ha b hb =>
    hca a ((hm a).mp (List.mem_filter.mp ha).1) b ((hm b).mp (List.mem_filter.mp hb).1)
  have hperm_axes : dotMarked ins' ~ dotMarked ins := axesOf_perm hmf hcf'
  have haxes' : ∀ q ∈ dotMarked ins', ∃ l ∈ ins.flatMap (fun p => Dim.leavesL p.1), l.name = q.1 ∧ l.size = q.2 := by
    intro q hq
    exact dotMarked_axes hca q ((hperm_axes.mem_iff).mp hq)
  have hpt : (assignments (dotMarked ins')).map (fun τ => (dotTerm ins' σ τ).map (subst regs))
      = (assignments (dotMarked ins')).map (dotTerm ins σ) := by
    apply List.map_congr_left
    intro τ hτ
    rw [← hregs, ← hins']
    exact dotTerm_permute_input hj hok hperm hv' hplan hσ hτ haxes'
  have hL : (assignments (dotMarked ins')).map (dotTerm ins σ) ~ (assignments (dotMarked ins)).map (dotTerm ins σ) :=
    assignments_map_perm hperm_axes _ (fun τ τ' h => dotTerm_congr ins σ h) (axesOf_nodup _)
  have h1 : mapOpt id ((assignments (dotMarked ins')).map (dotTerm ins σ))
      = (dotArgs ins' σ).map (List.map (subst regs)) := by
    rw [← hpt, ← mapOpt_eq_id_map, mapOpt_optmap]; rfl
  have h2 : mapOpt id ((assignments (dotMarked ins)).map (dotTerm ins σ)) = dotArgs ins σ := by
    rw [← mapOpt_eq_id_map]; rfl
  rcases mapOpt_id_perm hL with ⟨e1, e2⟩ | ⟨r1, r2, e1, e2, hp⟩
  · left
    rw [h1] at e1; rw [h2] at e2
    exact ⟨by cases h : dotArgs ins' σ <;> simp_all, e2⟩
  · right
    rw [h1] at e1; rw [h2] at e2
    cases h : dotArgs ins' σ with
    | none => simp [h] at e1
    | some r' =>
      simp only [h, Option.map_some, Option.some.injEq] at e1
      exact ⟨r', r2, rfl, e2, by rw [e1]; exact hp⟩

theorem dotArgs_resort (f : String) {ins : List (List Dim × List Nat)} {σ : Assign} {r : List Cell}
    (h : dotArgs ins σ = some r) : ∀ c ∈ r, Cell.resortAt ("red:" ++ f) c = c := by
  intro c hc
  obtain ⟨τ, _, hτ⟩ := mapOpt_mem h hc
  exact dotTerm_resort f hτ

theorem dotX_permute_input {ins : List (List Dim × List Nat)} {j : Nat} {v v' w : List Dim}
    {perm : List Nat} {plan : Plan} {σ : Assign}
    (hj : ins[j]? = some (v, viewShape v)) (hok : DotOK ins w)
    (hperm : isPermOf perm v.length = true) (hv' : permuteL perm v = some v')
    (hplan : planInstr (ins.map (·.2)) (.transpose j perm) = .ok plan)
    (hσ : σ ∈ outAssignments w) :
    (dotX (ins.set j (v', viewShape v')) σ).map
        (fun c => Cell.resortAt "red:sum" (subst (permRegs (ins.set j (v', viewShape v')) j plan) c))
      = dotX ins σ := by
  unfold dotX
  rcases dotArgs_permute_input hj hok hperm hv' hplan hσ with ⟨e1, e2⟩ | ⟨r', r, e1, e2, hp⟩
  · rw [e1, e2]; rfl
  · rw [e1, e2]
    simp only [Option.map_some, Option.some.injEq]
    exact resortAt_subst_mkRed _ "sum" hp (dotArgs_resort "sum" e2)

/-- **Permuting the root dimensions of one operand of a dot -- contracted or not -- together with its tensor leaves the
whole result unchanged** (after re-sorting the terms of every sum). -/
theorem dotCells_permute_input {ins : List (List Dim × List Nat)} {j : Nat} {v v' w : List Dim}
    {perm sw : List Nat} {plan : Plan}
    (hj : ins[j]? = some (v, viewShape v)) (hok : DotOK ins w)
    (hperm : isPermOf perm v.length = true) (hv' : permuteL perm v = some v')
    (hplan : planInstr (ins.map (·.2)) (.transpose j perm) = .ok plan) :
    (dotCells (ins.set j (v', viewShape v')) w sw).map
        (List.map (fun c => Cell.resortAt "red:sum" (subst (permRegs (ins.set j (v', viewShape v')) j plan) c)))
      = dotCells ins w sw := by
  unfold dotCells
  rw [← genCells_map]
  exact genCells_congr (fun σ hσ => dotX_permute_input hj hok hperm hv' hplan hσ)

/-! ### regrouping one operand -/

theorem map_set_congr {α β : Type} (g : α → β) (l : List α) (j : Nat) (a b : α) (h : g a = g b) :
    (l.set j a).map g = (l.set j b).map g := by
  rw [List.map_set, List.map_set, h]

theorem mapOpt_zipIdx_set_congr {α β : Type} (f : α × Nat → Option β) (l : List α) (j : Nat) (a b : α)
    (h : f (a, j) = f (b, j)) : mapOpt f (l.set j a).zipIdx = mapOpt f (l.set j b).zipIdx := by
  have : (l.set j a).zipIdx.map f = (l.set j b).zipIdx.map f := by
    apply List.ext_getElem?
    intro k
    simp only [List.getElem?_map, List.getElem?_zipIdx, List.getElem?_set, Nat.zero_add]
    by_cases hjk : j = k
    · subst hjk
      by_cases hl : j < l.length
      · simp [hl, h]
      · simp [hl]
    · simp [hjk]
  rw [mapOpt_eq_id_map f (l.set j a).zipIdx, mapOpt_eq_id_map f (l.set j b).zipIdx, this]

/-- **Parentheses on one operand of a dot** (`pre (mid) post` against `pre mid post`, the register reshaped): the
results are equal. -/
theorem dotCells_regroup_input (ins : List (List Dim × List Nat)) (j : Nat) (pre mid post : List Dim)
    (w : List Dim) (sw : List Nat) :
    dotCells (ins.set j (pre ++ [Dim.flat mid] ++ post, viewShape (pre ++ [Dim.flat mid] ++ post))) w sw
      = dotCells (ins.set j (pre ++ mid ++ post, viewShape (pre ++ mid ++ post))) w sw := by
  unfold dotCells
  congr 1
  funext σ
  unfold dotX dotArgs
  have hmk : dotMarked (ins.set j (pre ++ [Dim.flat mid] ++ post, viewShape (pre ++ [Dim.flat mid] ++ post)))
      = dotMarked (ins.set j (pre ++ mid ++ post, viewShape (pre ++ mid ++ post))) := by
    unfold dotMarked
    rw [List.flatMap_def, List.flatMap_def]
    rw [map_set_congr (fun p : List Dim × List Nat => Dim.leavesL p.1) ins j _
      (pre ++ mid ++ post, viewShape (pre ++ mid ++ post)) (by simp only [leavesL_regroup])]
  have hterm : dotTerm (ins.set j (pre ++ [Dim.flat mid] ++ post, viewShape (pre ++ [Dim.flat mid] ++ post))) σ
      = dotTerm (ins.set j (pre ++ mid ++ post, viewShape (pre ++ mid ++ post))) σ := by
    funext τ
    unfold dotTerm
    rw [mapOpt_zipIdx_set_congr (dotFactor σ τ) ins j _ (pre ++ mid ++ post, viewShape (pre ++ mid ++ post))]
    simp only [dotFactor, leavesL_regroup, cellAt_regroup]
  rw [hmk, hterm]

end Einx.Denote
