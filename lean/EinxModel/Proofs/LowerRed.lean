import EinxModel.Proofs.LowerRedRun
import EinxModel.Proofs.LowerRedDenote
/-! Both halves of `lower_reduce_correct` together. -/
namespace Einx.Lower
open Einx Einx.IR Einx.Generic Einx.Denote

theorem symRunG_single {prog : List InstrX} {shape : List Nat} {regs : List (Tensor Cell)} {r : Nat} {T : Tensor Cell}
    (hev : evalProgG planInstrX symAlg prog [symInput 0 shape] = .ok regs) (hr : regs[r]? = some T) :
    symRunG planInstrX prog [shape] [r] = .ok [T] := by
  have : symInputs [shape] = [symInput 0 shape] := rfl
  simp [symRunG, this, hev, bind, Except.bind, selectRegs, hr, pure, Except.pure]

/-- The register that `lowerReduce`'s program computes from the symbolic input holds exactly the cells of the
loop-notation denotation. -/
theorem lower_red_core {f : String} {m : List String} {gi go : List G} {l : LX}
    (hd : redDomain m gi go = true) (h : lowerReduce f m gi go = .ok l) :
    ∃ T, denoteReduce f (rootExprM m gi) (rootExpr go) = .ok T ∧ T.shape = gShape go ∧
      symRunG planInstrX l.prog [gShape gi] [l.reg] = .ok [T] := by
  simp only [redDomain, Bool.and_eq_true, List.all_eq_true] at hd
  have hout := (noDup_iff _).mp hd.1.1
  have hcons := consistentLens_spec hd.1.2
  have hmo : ∀ b ∈ G.leavesL go, m.contains b.name = false := by
    intro b hb
    have := hd.2 b.name (List.mem_map.mpr ⟨b, hb, rfl⟩)
    simpa using this
  obtain ⟨hnd, hsub, regs, T, hev, hreg, hsh, hlen, hread⟩ := lowerReduce_run hout hcons h
  obtain ⟨cs, hden, hcl, hpt⟩ := reduce_den_lower f m hnd hout hcons hsub hmo
  have hdat : T.data = cs := by
    apply List.ext_getElem?
    intro k
    by_cases hk' : k < prod (gShape go)
    · obtain ⟨val, hbo, hbi, hr, hc⟩ := hpt k hk'
      have := hread val hbo hbi
      rw [hr] at this
      rw [this, hc]
    · rw [List.getElem?_eq_none (by omega), List.getElem?_eq_none (by omega)]
  refine ⟨⟨gShape go, cs⟩, hden, rfl, ?_⟩
  have hT : T = ⟨gShape go, cs⟩ := by
    cases T
    simp only at hsh hdat
    rw [hsh, hdat]
  rw [← hT]
  exact symRunG_single hev hreg

end Einx.Lower
