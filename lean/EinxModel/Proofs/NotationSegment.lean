import EinxModel.Proofs.NotationSim
/-!
# M1 Notation — lexer layer of the space-invariance proof (`segment_insert`)

The token list of `xs ++ ' ' :: ys` (a redundant space inserted between `xs` and `ys`) is the token list of `xs ++ ys`
with one additional space token; the tokens after it are shifted by one position.
-/
namespace Einx.Notation

/-! ### The literal table, one unfolding step of `segment` -/

theorem literals_eq :
    literals = [['-', '>'], [','], ['+'], [' '], ['('], ['['], [')'], [']'], ['.', '.', '.']] := by
  simp [literals, Einx.Extracted.literals]

theorem flush_nil (start pos : Nat) : flush [] start pos = [] := by simp [flush]

theorem segment_nil (pos start : Nat) (cur : Str) : segment literals [] pos start cur = flush cur start pos := by
  rw [segment]

theorem segment_cons_some {c : Char} {rest l : Str} (h : matchLit literals (c :: rest) = some l)
    (pos start : Nat) (cur : Str) :
    segment literals (c :: rest) pos start cur =
      flush cur start pos ++
        (⟨l, pos, pos + l.length⟩ :: segment literals ((c :: rest).drop l.length) (pos + l.length) (pos + l.length) []) := by
  rw [segment]
  split
  · rename_i l' hl'
    rw [h] at hl'
    cases hl'
    rfl
  · rename_i hl'
    rw [h] at hl'
    cases hl'

theorem segment_cons_none {c : Char} {rest : Str} (h : matchLit literals (c :: rest) = none)
    (pos start : Nat) (cur : Str) :
    segment literals (c :: rest) pos start cur = segment literals rest (pos + 1) start (cur ++ [c]) := by
  rw [segment]
  split
  · rename_i l' hl'
    rw [h] at hl'
    cases hl'
  · rfl

/-- A literal at the head of the text whose first character is not the continuation of `->` / `...`. -/
def GoodHead (v : Str) : Prop :=
  v = [] ∨ ∃ c v' l, v = c :: v' ∧ c ≠ '>' ∧ c ≠ '.' ∧ matchLit literals v = some l

/-- No literal crosses a boundary whose right side does not start with `>` or `.`. -/
theorem matchLit_append_left (u v : Str) (hu : u ≠ []) (hv : ∀ c, v.head? = some c → c ≠ '>' ∧ c ≠ '.') :
    matchLit literals (u ++ v) = matchLit literals u := by
  rw [literals_eq]
  rcases u with _ | ⟨c, _ | ⟨d, _ | ⟨e, u⟩⟩⟩
  · exact absurd rfl hu
  · rcases v with _ | ⟨w, v⟩
    · simp
    · have h1 : ¬ '>' = w := fun h => (hv w rfl).1 h.symm
      have h2 : ¬ '.' = w := fun h => (hv w rfl).2 h.symm
      simp [matchLit, h1, h2]
  · rcases v with _ | ⟨w, v⟩
    · simp
    · have h2 : ¬ '.' = w := fun h => (hv w rfl).2 h.symm
      simp [matchLit, h2]
  · simp [matchLit]

theorem GoodHead.head {v : Str} (h : GoodHead v) : ∀ c, v.head? = some c → c ≠ '>' ∧ c ≠ '.' := by
  intro c hc
  rcases h with rfl | ⟨c', v', l, rfl, h1, h2, _⟩
  · simp at hc
  · simp only [List.head?_cons, Option.some.injEq] at hc
    subst hc
    exact ⟨h1, h2⟩

/-- Before a literal (or at the end of the text) the pending characters are emitted as a token of their own. -/
theorem segment_goodHead {v : Str} (h : GoodHead v) (pos start : Nat) (cur : Str) :
    segment literals v pos start cur = flush cur start pos ++ segment literals v pos pos [] := by
  rcases h with rfl | ⟨c, v', l, rfl, _, _, hl⟩
  · simp [segment_nil, flush_nil]
  · rw [segment_cons_some hl, segment_cons_some hl, flush_nil]
    rfl

/-- Splitting the text in front of a literal splits the token list. -/
theorem segment_split (u v : Str) (hv : GoodHead v) (pos start : Nat) (cur : Str) :
    segment literals (u ++ v) pos start cur =
      segment literals u pos start cur ++ segment literals v (pos + u.length) (pos + u.length) [] := by
  fun_induction segment literals u pos start cur with
  | case1 pos start cur =>
    simp only [List.nil_append, List.length_nil, Nat.add_zero]
    exact segment_goodHead hv pos start cur
  | case2 pos start cur c rest l hl ih =>
    have hm : matchLit literals ((c :: rest) ++ v) = some l := by
      rw [matchLit_append_left _ _ (by simp) hv.head]; exact hl
    have hlen := matchLit_prefix hl
    rw [List.cons_append] at hm ⊢
    rw [segment_cons_some hm]
    have hd : (c :: (rest ++ v)).drop l.length = (c :: rest).drop l.length ++ v := by
      rw [← List.cons_append, List.drop_append_of_le_length hlen]
    rw [hd, ih, List.append_assoc]
    have hp : pos + l.length + ((c :: rest).drop l.length).length = pos + (c :: rest).length := by
      rw [List.length_drop]; omega
    rw [hp]
    rfl
  | case3 pos start cur c rest hl ih =>
    have hm : matchLit literals ((c :: rest) ++ v) = none := by
      rw [matchLit_append_left _ _ (by simp) hv.head]; exact hl
    rw [List.cons_append] at hm ⊢
    rw [segment_cons_none hm, ih]
    have hp : pos + 1 + rest.length = pos + (c :: rest).length := by
      rw [List.length_cons]; omega
    rw [hp]

/-! ### The literals next to a redundant space -/

/-- Every literal after / before which a space is redundant is matched at the head of a text and can start the
    right part of a split. -/
theorem slotLit_match {l : Str} (hl : l ∈ afterLits ∨ l ∈ beforeLits) (v : Str) :
    matchLit literals (l ++ v) = some l ∧ GoodHead (l ++ v) := by
  have hcases : l = [' '] ∨ l = ['('] ∨ l = ['['] ∨ l = [')'] ∨ l = [']'] ∨ l = [','] ∨ l = ['+'] ∨ l = ['-', '>'] := by
    simp only [afterLits, beforeLits, afterOps, beforeOps, spaceLit, lit, List.mem_cons, List.not_mem_nil, or_false] at hl
    have e1 : "(".toList = ['('] := by decide
    have e2 : "[".toList = ['['] := by decide
    have e3 : ")".toList = [')'] := by decide
    have e4 : "]".toList = [']'] := by decide
    have e5 : ",".toList = [','] := by decide
    have e6 : "+".toList = ['+'] := by decide
    have e7 : "->".toList = ['-', '>'] := by decide
    rw [e1, e2, e3, e4, e5, e6, e7] at hl
    rcases hl with (h | h | h | h | h | h) | (h | h | h | h | h | h) <;> simp [h]
  have hm : matchLit literals (l ++ v) = some l := by
    rw [literals_eq]
    rcases hcases with h | h | h | h | h | h | h | h <;> subst h <;> simp [matchLit]
  refine ⟨hm, Or.inr ?_⟩
  rcases hcases with h | h | h | h | h | h | h | h <;> subst h <;>
    exact ⟨_, _, _, rfl, by decide, by decide, hm⟩

theorem segment_lit {l : Str} (v : Str) (hl : matchLit literals (l ++ v) = some l) (q : Nat) :
    segment literals (l ++ v) q q [] =
      ⟨l, q, q + l.length⟩ :: segment literals v (q + l.length) (q + l.length) [] := by
  have hne := matchLit_ne_nil hl
  rcases l with _ | ⟨c, l'⟩
  · exact absurd rfl hne
  · rw [List.cons_append] at hl ⊢
    rw [segment_cons_some hl, flush_nil, ← List.cons_append, List.drop_left]
    rfl

/-- Splitting the text directly after one of the literals `" "`, `(`, `[`, `,`, `+`, `->`. -/
theorem segment_split_after {l : Str} (hl : l ∈ afterLits) (p v : Str) (pos start : Nat) (cur : Str) :
    segment literals (p ++ l ++ v) pos start cur =
      segment literals p pos start cur ++
        ⟨l, pos + p.length, pos + p.length + l.length⟩ ::
          segment literals v (pos + (p ++ l).length) (pos + (p ++ l).length) [] := by
  have hm := slotLit_match (Or.inl hl) v
  rw [List.append_assoc, segment_split p (l ++ v) hm.2, segment_lit v hm.1]
  rw [List.length_append, Nat.add_assoc]

theorem segment_after {l : Str} (hl : l ∈ afterLits) (p : Str) (pos start : Nat) (cur : Str) :
    segment literals (p ++ l) pos start cur =
      segment literals p pos start cur ++ [⟨l, pos + p.length, pos + p.length + l.length⟩] := by
  have := segment_split_after hl p [] pos start cur
  rw [List.append_nil, segment_nil, flush_nil] at this
  exact this

/-! ### Positions -/

theorem Forall2.append {α β : Type} {R : α → β → Prop} {a c : List α} {b d : List β}
    (h1 : Forall2 R a b) (h2 : Forall2 R c d) : Forall2 R (a ++ c) (b ++ d) := by
  induction h1 with
  | nil => exact h2
  | cons hr _ ih => exact .cons hr ih

/-- Lexing the same text one position later shifts every token by one. -/
theorem segment_shift (cs : Str) (pos start : Nat) (cur : Str) :
    Forall2 (fun t t' => t'.text = t.text ∧ t'.b = t.b + 1)
      (segment literals cs pos start cur) (segment literals cs (pos + 1) (start + 1) cur) := by
  have hf : ∀ (cur : Str) (start pos : Nat), Forall2 (fun (t t' : Token) => t'.text = t.text ∧ t'.b = t.b + 1)
      (flush cur start pos) (flush cur (start + 1) (pos + 1)) := by
    intro cur start pos
    unfold flush
    split
    · exact .nil
    · exact .cons ⟨rfl, rfl⟩ .nil
  fun_induction segment literals cs pos start cur with
  | case1 pos start cur =>
    rw [segment_nil]
    exact hf cur start pos
  | case2 pos start cur c rest l hl ih =>
    rw [segment_cons_some hl, Nat.add_right_comm pos 1 l.length]
    exact Forall2.append (hf cur start pos) (.cons ⟨rfl, rfl⟩ ih)
  | case3 pos start cur c rest hl ih =>
    rw [segment_cons_none hl]
    exact ih

/-- No token begins before the pending characters. -/
theorem segment_lb (cs : Str) (pos start : Nat) (cur : Str) (h : start ≤ pos) :
    ∀ t ∈ segment literals cs pos start cur, start ≤ t.b := by
  have hf : ∀ (cur : Str) (start pos : Nat), ∀ t ∈ flush cur start pos, start ≤ t.b := by
    intro cur start pos t ht
    unfold flush at ht
    split at ht
    · simp at ht
    · simp only [List.mem_singleton] at ht
      subst ht
      exact Nat.le_refl _
  fun_induction segment literals cs pos start cur with
  | case1 pos start cur => exact hf cur start pos
  | case2 pos start cur c rest l hl ih =>
    intro t ht
    simp only [List.mem_append, List.mem_cons] at ht
    rcases ht with ht | ht | ht
    · exact hf cur start pos t ht
    · subst ht
      exact h
    · have := ih (Nat.le_refl _) t ht
      omega
  | case3 pos start cur c rest hl ih =>
    exact ih (by omega)

theorem matchLit_isPrefix {ls : List Str} {cs l : Str} (h : matchLit ls cs = some l) : l <+: cs := by
  induction ls with
  | nil => simp [matchLit] at h
  | cons a as ih =>
    simp only [matchLit] at h
    split at h
    · rename_i hc
      cases h
      simp only [Bool.and_eq_true] at hc
      exact List.isPrefixOf_iff_prefix.mp hc.2
    · exact ih h

/-- The first token begins with the first character of the text. -/
theorem segment_head_text (cs : Str) (pos start : Nat) (cur : Str) :
    ∀ b, (segment literals cs pos start cur).head? = some b → b.text.head? = (cur ++ cs).head? := by
  fun_induction segment literals cs pos start cur with
  | case1 pos start cur =>
    intro b hb
    unfold flush at hb
    split at hb
    · simp at hb
    · simp only [List.head?_cons, Option.some.injEq] at hb
      subst hb
      simp
  | case2 pos start cur c rest l hl ih =>
    intro b hb
    rcases cur with _ | ⟨d, cur⟩
    · rw [flush_nil, List.nil_append, List.head?_cons, Option.some.injEq] at hb
      subst hb
      have hp := matchLit_isPrefix hl
      have hne := matchLit_ne_nil hl
      rcases l with _ | ⟨c', l'⟩
      · exact absurd rfl hne
      · rw [List.cons_prefix_cons] at hp
        simp [hp.1]
    · simp only [flush, List.isEmpty_cons, Bool.false_eq_true, if_false, List.cons_append, List.nil_append,
        List.head?_cons, Option.some.injEq] at hb
      subst hb
      simp
  | case3 pos start cur c rest hl ih =>
    intro b hb
    rw [ih b hb, List.append_assoc]
    rfl

/-! ### The inserted space -/

theorem redundantAt_cases {xs ys : Str} (h : RedundantAt xs ys = true) :
    xs = [] ∨ ys = [] ∨ (∃ l, l ∈ afterLits ∧ ∃ p, xs = p ++ l) ∨ (∃ l, l ∈ beforeLits ∧ ∃ q, ys = l ++ q) := by
  unfold RedundantAt at h
  simp only [Bool.or_eq_true, List.isEmpty_iff, List.any_eq_true] at h
  rcases h with ((h | h) | ⟨l, hl, hs⟩) | ⟨l, hl, hp⟩
  · exact Or.inl h
  · exact Or.inr (Or.inl h)
  · obtain ⟨p, hp⟩ := List.isSuffixOf_iff_suffix.mp hs
    exact Or.inr (Or.inr (Or.inl ⟨l, hl, p, hp.symm⟩))
  · obtain ⟨q, hq⟩ := List.isPrefixOf_iff_prefix.mp hp
    exact Or.inr (Or.inr (Or.inr ⟨l, hl, q, hq.symm⟩))

theorem spaceLit_mem_afterLits : spaceLit ∈ afterLits := by simp [afterLits]

/-- A space is a token of its own wherever it stands; the text before it is lexed as if it ended there. -/
theorem segment_space_insert (xs ys : Str) :
    segment literals (xs ++ ' ' :: ys) 0 0 [] =
      segment literals xs 0 0 [] ++
        ⟨spaceLit, xs.length, xs.length + 1⟩ :: segment literals ys (xs.length + 1) (xs.length + 1) [] := by
  have := segment_split_after spaceLit_mem_afterLits xs ys 0 0 []
  simpa [spaceLit] using this

theorem segment_insert_aux (xs ys : Str)
    (hy : ys.head? ≠ some ' ' ∨ ∃ p, xs = p ++ spaceLit)
    (h : xs = [] ∨ ys = [] ∨ (∃ l, l ∈ afterLits ∧ ∃ p, xs = p ++ l) ∨ (∃ l, l ∈ beforeLits ∧ ∃ q, ys = l ++ q)) :
    ∃ (A B B' : List Token) (sp : Token) (k : Nat),
      segment literals (xs ++ ys) 0 0 [] = A ++ B ∧
      segment literals (xs ++ ' ' :: ys) 0 0 [] = A ++ sp :: B' ∧
      sp.text = spaceLit ∧
      (∀ t ∈ A, t.b < k) ∧ (∀ t ∈ B, k ≤ t.b) ∧
      Forall2 (fun t t' => t'.text = t.text ∧ t'.b = t.b + 1) B B' ∧
      SlotCond A B := by
  have hs : segment literals (xs ++ ys) 0 0 [] =
      segment literals xs 0 0 [] ++ segment literals ys xs.length xs.length [] := by
    rcases h with rfl | rfl | ⟨l, hl, p, rfl⟩ | ⟨l, hl, q, rfl⟩
    · simp [segment_nil, flush_nil]
    · simp [segment_nil, flush_nil]
    · rw [segment_split_after hl, segment_after hl]
      simp
    · have := segment_split xs (l ++ q) (slotLit_match (Or.inr hl) q).2 0 0 []
      simpa using this
  refine ⟨segment literals xs 0 0 [], segment literals ys xs.length xs.length [],
    segment literals ys (xs.length + 1) (xs.length + 1) [], ⟨spaceLit, xs.length, xs.length + 1⟩, xs.length,
    hs, segment_space_insert xs ys, rfl, ?_, ?_, ?_, ?_⟩
  · intro t ht
    have := segment_ok literals xs 0 0 [] xs.length (by simp) (by simp) t ht
    unfold TokenOK at this
    omega
  · exact segment_lb ys _ _ [] (Nat.le_refl _)
  · exact segment_shift ys _ _ []
  · by_cases hx : ∃ a, (segment literals xs 0 0 []).getLast? = some a ∧ a.text = spaceLit
    · exact Or.inl hx
    · have hy' : ys.head? ≠ some ' ' := by
        rcases hy with hy | ⟨p, rfl⟩
        · exact hy
        · exfalso
          apply hx
          rw [segment_after spaceLit_mem_afterLits]
          exact ⟨_, List.getLast?_concat, rfl⟩
      have hb : ∀ b, (segment literals ys xs.length xs.length []).head? = some b → b.text ≠ spaceLit := by
        intro b hb ht
        have := segment_head_text ys _ _ [] b hb
        rw [ht] at this
        simp only [spaceLit, List.head?_cons, List.nil_append] at this
        exact hy' this.symm
      refine Or.inr ⟨fun a ha ht => hx ⟨a, ha, ht⟩, hb, ?_⟩
      rcases h with rfl | rfl | ⟨l, hl, p, rfl⟩ | ⟨l, hl, q, rfl⟩
      · left
        simp [segment_nil, flush_nil]
      · right; left
        simp [segment_nil, flush_nil]
      · right; right; left
        have hlast : (segment literals (p ++ l) 0 0 []).getLast? = some ⟨l, 0 + p.length, 0 + p.length + l.length⟩ := by
          rw [segment_after hl]
          exact List.getLast?_concat
        refine ⟨_, hlast, ?_⟩
        simp only [afterLits, List.mem_cons] at hl
        rcases hl with rfl | hl
        · exact absurd ⟨_, hlast, rfl⟩ hx
        · exact hl
      · right; right; right
        refine ⟨⟨l, xs.length, xs.length + l.length⟩, ?_, ?_⟩
        · rw [segment_lit q (slotLit_match (Or.inr hl) q).1]
          rfl
        · simp only [beforeLits, List.mem_cons] at hl
          rcases hl with rfl | hl
          · exact absurd rfl hy'
          · exact hl

/-- Lexer layer of the space invariance: one redundant space more in the text is one space token more in the token
    list, at a slot that `SlotCond` describes; the tokens after it move by one position. -/
theorem segment_insert (xs ys : Str) (h : RedundantAt xs ys = true) :
    ∃ (A B B' : List Token) (sp : Token) (k : Nat),
      segment literals (xs ++ ys) 0 0 [] = A ++ B ∧
      segment literals (xs ++ ' ' :: ys) 0 0 [] = A ++ sp :: B' ∧
      sp.text = spaceLit ∧
      (∀ t ∈ A, t.b < k) ∧ (∀ t ∈ B, k ≤ t.b) ∧
      Forall2 (fun t t' => t'.text = t.text ∧ t'.b = t.b + 1) B B' ∧
      SlotCond A B := by
  rcases ys with _ | ⟨c, ys'⟩
  · exact segment_insert_aux xs [] (Or.inl (by simp)) (Or.inr (Or.inl rfl))
  · by_cases hc : c = ' '
    · subst hc
      have e1 : xs ++ ' ' :: ys' = (xs ++ [' ']) ++ ys' := by simp
      have e2 : xs ++ ' ' :: ' ' :: ys' = (xs ++ [' ']) ++ ' ' :: ys' := by simp
      rw [e2, e1]
      exact segment_insert_aux (xs ++ [' ']) ys' (Or.inr ⟨xs, rfl⟩)
        (Or.inr (Or.inr (Or.inl ⟨spaceLit, spaceLit_mem_afterLits, xs, rfl⟩)))
    · exact segment_insert_aux xs (c :: ys') (Or.inl (by simp [hc])) (redundantAt_cases h)

end Einx.Notation
