import EinxModel.Registry.Spec
namespace Einx.Registry

theorem Same.refl (s : State) : Same s s := ⟨rfl, rfl, rfl, rfl⟩
theorem Same.trans {a b c : State} (h1 : Same a b) (h2 : Same b c) : Same a c :=
  ⟨h1.uninit.trans h2.uninit, h1.backends.trans h2.backends, h1.names.trans h2.names, h1.stack.trans h2.stack⟩

theorem candidates_congr {s t : State} (h : Same s t) (tys : List Nat) : candidates s tys = candidates t tys := by
  simp [candidates, h.backends, h.names]

theorem select_congr {s t : State} (h : Same s t) (tys : List Nat) : select s tys = select t tys := by
  simp [select, candidates_congr h]

theorem quiet_congr {s t : State} {mods} (h : Same s t) (q : Quiet s mods) : Quiet t mods := by
  intro m hm; rw [← h.uninit]; exact q m hm

/-- In a quiet state, seeing an imported module only extends `seen`. -/
theorem seeModule_quiet (cfg : Cfg) (s : State) (m : String) (h : dictGet s.uninit m = none) :
    s.seeModule cfg m = { s with seen := s.seen ++ [m] } := by
  simp [State.seeModule, h]

theorem foldl_seeModule_quiet (cfg : Cfg) (ms : List String) (s : State)
    (h : ∀ m ∈ ms, dictGet s.uninit m = none) :
    Same s (ms.foldl (fun s m => s.seeModule cfg m) s) ∧
      (ms.foldl (fun s m => s.seeModule cfg m) s).memo = s.memo := by
  induction ms generalizing s with
  | nil => exact ⟨Same.refl s, rfl⟩
  | cons m ms ih =>
    simp only [List.foldl_cons]
    rw [seeModule_quiet cfg s m (h m (by simp))]
    have := ih { s with seen := s.seen ++ [m] } (fun m' hm' => h m' (by simp [hm']))
    exact ⟨Same.trans (b := { s with seen := s.seen ++ [m] }) ⟨rfl, rfl, rfl, rfl⟩ this.1, this.2⟩

theorem checkNewImports_quiet (cfg : Cfg) (s : State) (mods : List String) (ch : Bool)
    (q : Quiet s mods) :
    Same s (s.checkNewImports cfg mods ch).1 ∧ (s.checkNewImports cfg mods ch).1.memo = s.memo := by
  unfold State.checkNewImports
  split
  · exact ⟨Same.refl s, rfl⟩
  · dsimp only
    split
    · exact ⟨Same.refl s, rfl⟩
    · apply foldl_seeModule_quiet
      intro m hm
      have hm' := List.mem_eraseDups.mp hm
      exact q m (List.mem_filter.mp hm').1

theorem getByTensor_quiet (cfg : Cfg) (s : State) (mods : List String) (ch : Bool) (ty : Nat)
    (q : Quiet s mods) :
    Same s (s.getByTensor cfg mods ch ty).1 ∧ (s.getByTensor cfg mods ch ty).1.memo = s.memo ∧
      (s.getByTensor cfg mods ch ty).2.1 = supporting s.backends ty := by
  have hc := checkNewImports_quiet cfg s mods ch q
  unfold State.getByTensor
  by_cases hb : (supporting s.backends ty).isEmpty
  · simp only [hb, Bool.not_true, Bool.false_eq_true, ↓reduceIte]
    generalize hr : s.checkNewImports cfg mods ch = r at hc
    obtain ⟨s', changed, ch'⟩ := r
    simp only at hc ⊢
    have he : supporting s.backends ty = [] := by simpa using hb
    by_cases hch : changed
    · simp [hch, hc.1, hc.2, ← hc.1.backends, he]
    · simp [hch, hc.1, hc.2, he]
  · simp [hb, Same.refl]

theorem getByName_quiet (cfg : Cfg) (s : State) (mods : List String) (ch : Bool) (n : String)
    (q : Quiet s mods) :
    (∀ b, dictGet s.names n = some b → s.getByName cfg mods ch n = .ok (s, b, ch)) ∧
    (dictGet s.names n = none → s.getByName cfg mods ch n = .error .value) := by
  constructor
  · intro b hb; simp [State.getByName, hb]
  · intro hn
    have hc := checkNewImports_quiet cfg s mods ch q
    unfold State.getByName
    simp only [hn]
    generalize hr : s.checkNewImports cfg mods ch = r at hc
    obtain ⟨s', changed, ch'⟩ := r
    simp only at hc ⊢
    by_cases hch : changed
    · simp [hch, ← hc.1.names, hn]
    · simp [hch]

/-- The candidate fold of `_get_by_tensors` in a quiet state. -/
theorem fold_quiet (cfg : Cfg) (mods : List String) (tys : List Nat) (s : State) (acc : List Backend) (ch : Bool)
    (q : Quiet s mods) :
    let r := tys.foldl
      (fun (a : State × List Backend × Bool) ty =>
        let (s, cs, ch) := a
        let (s', bs, ch') := s.getByTensor cfg mods ch ty
        (s', unionByUid cs bs, ch')) (s, acc, ch)
    Same s r.1 ∧ r.1.memo = s.memo ∧
      r.2.1 = tys.foldl (fun acc ty => unionByUid acc (supporting s.backends ty)) acc := by
  induction tys generalizing s acc ch with
  | nil => exact ⟨Same.refl s, rfl, rfl⟩
  | cons ty tys ih =>
    simp only [List.foldl_cons]
    have h1 := getByTensor_quiet cfg s mods ch ty q
    generalize hr : s.getByTensor cfg mods ch ty = r at h1
    obtain ⟨s', bs, ch'⟩ := r
    simp only at h1 ⊢
    have q' : Quiet s' mods := quiet_congr h1.1 q
    have := ih s' (unionByUid acc bs) ch' q'
    simp only at this
    refine ⟨Same.trans h1.1 this.1, this.2.1.trans h1.2.1, ?_⟩
    rw [this.2.2, h1.2.2, h1.1.backends]

theorem memoOK_congr {s t : State} (h : Same s t) (hm : t.memo = s.memo) (ok : MemoOK s) : MemoOK t := by
  intro e he; rw [hm] at he; rw [← select_congr h]; exact ok e he

theorem memoOK_insert {s : State} (tys : List Nat) (b : Backend) (ok : MemoOK s) (hsel : select s tys = [b]) :
    MemoOK { s with memo := s.memo.filter (·.1 != tys) ++ [(tys, b)] } := by
  intro e he
  have hsame : Same s { s with memo := s.memo.filter (·.1 != tys) ++ [(tys, b)] } := ⟨rfl, rfl, rfl, rfl⟩
  rw [← select_congr hsame]
  simp only [List.mem_append, List.mem_filter, List.mem_singleton] at he
  rcases he with ⟨he, _⟩ | rfl
  · exact ok e he
  · exact hsel

theorem find_memo {s : State} {tys : List Nat} {e : List Nat × Backend}
    (h : s.memo.find? (·.1 == tys) = some e) : e ∈ s.memo ∧ e.1 = tys := by
  have := List.find?_some h
  exact ⟨List.mem_of_find?_eq_some h, by simpa using this⟩

/-- `_get_by_tensors` in a quiet state with a sound memo. -/
theorem getByTensors_quiet (cfg : Cfg) (s : State) (mods : List String) (tys : List Nat)
    (q : Quiet s mods) (ok : MemoOK s) :
    (tys.all isScalarTy = true ∧ dictGet s.names "numpy" = none ∧ (s.memo.find? (·.1 == tys)).isNone →
        s.getByTensors cfg mods false tys = .error .value) ∧
    (¬ (tys.all isScalarTy = true ∧ dictGet s.names "numpy" = none ∧ (s.memo.find? (·.1 == tys)).isNone) →
      ∃ s', s.getByTensors cfg mods false tys = .ok (s', select s tys) ∧ Same s s' ∧ MemoOK s') := by
  unfold State.getByTensors
  cases hfind : s.memo.find? (·.1 == tys) with
  | some e =>
    obtain ⟨tys', b⟩ := e
    have hm := find_memo hfind
    simp only at hm
    constructor
    · intro h; simp at h
    · intro _
      refine ⟨s, ?_, Same.refl s, ok⟩
      have := ok _ hm.1
      simp only [hm.2] at this
      simp [this]
  | none =>
    have hf := fold_quiet cfg mods tys s [] false q
    generalize hr : tys.foldl
      (fun (a : State × List Backend × Bool) ty =>
        let (s, cs, ch) := a
        let (s', bs, ch') := s.getByTensor cfg mods ch ty
        (s', unionByUid cs bs, ch')) (s, [], false) = r at hf
    obtain ⟨s1, cands, ch1⟩ := r
    simp only at hf
    have q1 : Quiet s1 mods := quiet_congr hf.1 q
    have ok1 : MemoOK s1 := memoOK_congr hf.1 hf.2.1 ok
    have hn := getByName_quiet cfg s1 mods false "numpy" q1
    simp only [Option.isNone_none, and_true]
    by_cases hsc : tys.all isScalarTy = true
    · cases hnp : dictGet s.names "numpy" with
      | none =>
        constructor
        · intro _
          have : dictGet s1.names "numpy" = none := by rw [← hf.1.names]; exact hnp
          simp [hsc, hn.2 this]
        · intro h; exact absurd ⟨hsc, rfl⟩ h
      | some nb =>
        constructor
        · intro h; simp at h
        · intro _
          have h1 : dictGet s1.names "numpy" = some nb := by rw [← hf.1.names]; exact hnp
          have hsel : select s tys = keepMax [nb] := by simp [select, candidates, hsc, hnp]
          have hk : keepMax [nb] = [nb] := by simp [keepMax]
          simp only [hsc, ↓reduceIte, hn.1 nb h1, hk]
          refine ⟨_, ?_, ?_, memoOK_insert tys nb ok1 ?_⟩
          · rw [hsel, hk]
          · exact Same.trans (b := s1) hf.1 ⟨rfl, rfl, rfl, rfl⟩
          · rw [← select_congr hf.1, hsel, hk]
    · constructor
      · intro h; exact absurd h.1 hsc
      · intro _
        have hsel : select s tys = keepMax cands := by
          simp [select, candidates, hsc, hf.2.2]
        simp only [hsc, Bool.false_eq_true, ↓reduceIte]
        rw [← hsel]
        split
        · rename_i b hb
          refine ⟨{ s1 with memo := s1.memo.filter (·.1 != tys) ++ [(tys, b)] }, by rw [hb],
            Same.trans (b := s1) hf.1 ⟨rfl, rfl, rfl, rfl⟩, memoOK_insert tys b ok1 ?_⟩
          rw [← select_congr hf.1]; exact hb
        · exact ⟨s1, rfl, hf.1, ok1⟩

theorem specGet_congr {s t : State} (h : Same s t) (arg : BackendArg) (tys : List Nat) :
    specGet s arg tys = specGet t arg tys := by
  simp [specGet, h.names, h.stack, select_congr h]

/-- `_get` in a quiet state with a sound memo (the property theorem `get_quiet_spec` of C11). -/
theorem get_quiet (cfg : Cfg) (s : State) (mods : List String) (arg : BackendArg) (tys : List Nat)
    (q : Quiet s mods) (ok : MemoOK s) :
    (match s.get cfg mods arg tys with
      | .ok (s', b) => specGet s arg tys = .ok b ∧ Same s s' ∧ MemoOK s' ∧ Quiet s' mods
      | .error e => specGet s arg tys = .error e) := by
  cases arg with
  | obj b => simp [State.get, specGet, Same.refl, ok, q]
  | name n =>
    have hn := getByName_quiet cfg s mods false n q
    cases hd : dictGet s.names n with
    | some b => simp [State.get, specGet, hn.1 b hd, hd, Same.refl, ok, q]
    | none => simp [State.get, specGet, hn.2 hd, hd]
  | none =>
    cases hs : s.stack.getLast? with
    | some b => simp [State.get, specGet, hs, Same.refl, ok, q]
    | none =>
      have hg := getByTensors_quiet cfg s mods tys q ok
      simp only [State.get, specGet, hs]
      by_cases hbad : tys.all isScalarTy = true ∧ dictGet s.names "numpy" = none ∧ (s.memo.find? (·.1 == tys)).isNone
      · simp [hg.1 hbad, hbad.1, hbad.2.1]
      · obtain ⟨s', he, hsame, hok⟩ := hg.2 hbad
        have hcond : (tys.all isScalarTy && (dictGet s.names "numpy").isNone) = false := by
          by_cases h1 : tys.all isScalarTy = true
          · cases h2 : dictGet s.names "numpy" with
            | some _ => simp
            | none =>
              -- then the memo must have hit; a sound memo entry contradicts an empty candidate list
              have h3 : (s.memo.find? (·.1 == tys)).isNone = false := by
                cases h4 : (s.memo.find? (·.1 == tys)).isNone with
                | false => rfl
                | true => exact absurd ⟨h1, h2, h4⟩ hbad
              cases h5 : s.memo.find? (·.1 == tys) with
              | none => simp [h5] at h3
              | some e =>
                have hm := find_memo h5
                have := ok e hm.1
                rw [hm.2] at this
                simp [select, candidates, h1, h2, keepMax] at this
          · simp [h1]
        simp only [he, hcond]
        have q' : Quiet s' mods := quiet_congr hsame q
        cases hsel : select s tys with
        | nil => simp
        | cons b rest =>
          cases rest with
          | nil => simp [hsame, hok, q']
          | cons c rest' => simp
  | other =>
    cases hs : s.stack.getLast? with
    | some b => simp [State.get, specGet, hs, Same.refl, ok, q]
    | none => simp [State.get, specGet, hs]

end Einx.Registry
