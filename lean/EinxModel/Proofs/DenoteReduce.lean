import EinxModel.Denote.Fun2
import EinxModel.Proofs.DenoteTie
import EinxModel.Proofs.DenoteDefined
import EinxModel.Proofs.CellOrder
/-!
Reductions (C08): the functional form `Denote.denoteReduceFun` is the executable loop form
`Denote.denoteReduce`; generic laws for every functional denotation of the shape `genCells`
(output permutation incl. definedness, output regrouping); input laws for reductions.
-/
namespace Einx.Denote
open Einx Einx.IR
open Einx.Update (mapOpt mapOpt_eq_some_iff mapOpt_length mapOpt_getElem? mapOpt_congr mapOpt_some_of_forall)

/-! ### tie: loop form = functional form -/

theorem rd_inner_loop (vi : List Dim) (si : List Nat) (σ : Assign) : ∀ (l : List Assign) (cells : List Cell),
    okOpt (forIn l cells (rdInner vi si (Dim.leavesL vi) σ)) = (mapOpt (redCell vi si σ) l).map (fun cs => cells ++ cs) := by
  intro l
  induction l with
  | nil => intro cells; simp [mapOpt, okOpt_pure]
  | cons τ l ih =>
    intro cells
    rw [List.forIn_cons]
    simp only [mapOpt, redCell, rdInner, cellAt, flatPos]
    cases hx : inputAssign σ τ (Dim.leavesL vi) with
    | none => simp only [optE_none, error_bind, okOpt, Option.map_none]
    | some a =>
      cases hp : position vi a with
      | none => simp only [hp, optE_some, optE_none, pure_bind, error_bind, okOpt, Option.map_none]
      | some p =>
        simp only [hp, optE_some, pure_bind, Option.map_some, ih]
        cases mapOpt (redCell vi si σ) l with
        | none => rfl
        | some cs => simp

/-- What the outer loop of `denoteReduce` appends for `σ`. -/
def redEntryL (f : String) (vi : List Dim) (si : List Nat) (vo : List Dim) (σ : Assign) : Option (List Nat × Cell) :=
  match redArgs vi si σ, position vo σ with
  | some cells, some po => some (po, mkRed f cells)
  | _, _ => none

theorem rd_outer_loop (f : String) (vi : List Dim) (si : List Nat) (vo : List Dim) :
    ∀ (asg : List Assign) (entries : List (List Nat × Cell)),
      okOpt (forIn asg entries (rdOuter f vi si (Dim.leavesL vi) (markedAxes vi) vo))
        = (mapOpt (redEntryL f vi si vo) asg).map (fun es => entries ++ es) := by
  intro asg
  induction asg with
  | nil => intro entries; simp [mapOpt, okOpt_pure]
  | cons σ asg ih =>
    intro entries
    rw [List.forIn_cons]
    simp only [rdOuter, bind_assoc, pure_bind]
    rw [okOpt_bind, rd_inner_loop]
    simp only [mapOpt, redEntryL, redArgs]
    cases mapOpt (redCell vi si σ) (assignments (markedAxes vi)) with
    | none => rfl
    | some cells =>
      simp only [Option.map_some, Option.bind_some, List.nil_append]
      cases hp : position vo σ with
      | none => simp only [optE_none, error_bind, okOpt, Option.map_none]
      | some po =>
        simp only [optE_some, pure_bind, Option.map_some, ih]
        cases mapOpt (redEntryL f vi si vo) asg with
        | none => rfl
        | some es => simp

theorem okOpt_fillOutput (so : List Nat) (entries : List (List Nat × Cell)) :
    okOpt (fillOutput so entries)
      = (gatherAll (prod so) (entries.map (fun e => (ravel so e.1, e.2)))).map (fun cs => (⟨so, cs⟩ : Tensor Cell)) := by
  unfold fillOutput gatherAll scatter
  simp only [bind_pure_comp]
  rw [List.foldl_map]
  have := okOpt_mapM_optE "output not fully defined"
    (List.foldl (fun (acc : List (Option Cell)) (x : List Nat × Cell) => acc.set (ravel so x.1) (some x.2))
      (List.replicate (prod so) none) entries)
  generalize List.mapM (optE "output not fully defined") _ = M at this ⊢
  rw [← this]
  cases M <;> rfl

theorem redEntryL_gen (f : String) (vi : List Dim) (si : List Nat) (vo : List Dim) (so : List Nat) (σ : Assign) :
    (redEntryL f vi si vo σ).map (fun e => (ravel so e.1, e.2)) = genEntry (redX f vi si) vo so σ := by
  simp only [redEntryL, genEntry, redX, flatPos]
  cases redArgs vi si σ <;> cases position vo σ <;> rfl

/-- **Tie between the loop form and the functional form of reductions** (concatenation-free expressions). -/
theorem denoteReduce_eq_fun (f : String) (e eo : Expr) (he : e.concatFree = true) (heo : eo.concatFree = true) :
    okOpt (denoteReduce f e eo) = okOpt (denoteReduceFun f e eo) := by
  rw [denoteReduce_eq, singleView_of_concatFree he, singleView_of_concatFree heo]
  simp only [pure_bind]
  rw [okOpt_bind]
  have hm : axesOf ((Dim.leavesL (rootDims e)).filter (·.marked)) = markedAxes (rootDims e) := rfl
  rw [hm, rd_outer_loop]
  unfold denoteReduceFun reduceCells genCells
  simp only [he, heo, Bool.and_self, Bool.not_true, Bool.false_eq_true, if_false, outAssignments]
  have hg : genEntry (redX f (rootDims e) (shapeOf e)) (rootDims eo) (shapeOf eo)
      = fun σ => (redEntryL f (rootDims e) (shapeOf e) (rootDims eo) σ).map (fun e' => (ravel (shapeOf eo) e'.1, e'.2)) := by
    funext σ; exact (redEntryL_gen f _ _ _ _ σ).symm
  rw [hg, mapOpt_optmap]
  cases mapOpt (redEntryL f (rootDims e) (shapeOf e) (rootDims eo)) (assignments (axesOf (Dim.leavesL (rootDims eo)))) with
  | none => rfl
  | some es =>
    simp only [Option.map_some, Option.bind_some, List.nil_append, okOpt_fillOutput]
    cases gatherAll (prod (shapeOf eo)) (es.map (fun e' => (ravel (shapeOf eo) e'.1, e'.2))) <;> rfl

end Einx.Denote

namespace Einx.Denote
open Einx Einx.IR
open Einx.Update (mapOpt mapOpt_eq_some_iff mapOpt_length mapOpt_getElem? mapOpt_congr mapOpt_some_of_forall)

/-! ### generic laws for `genCells` -/

/-- `X` sees the assignment only through `Assign.get`. -/
def GetInvariant (X : Assign → Option Cell) : Prop := ∀ σ τ, SameGet σ τ → X σ = X τ

theorem genCells_spec {X : Assign → Option Cell} {vo : List Dim} {so : List Nat} {cs : List Cell}
    (h : genCells X vo so = some cs) :
    (∃ es, mapOpt (genEntry X vo so) (outAssignments vo) = some es) ∧ cs.length = prod so ∧
      ∀ k, k < prod so → ∃ σ ∈ outAssignments vo, flatPos vo so σ = some k ∧ X σ = cs[k]? := by
  unfold genCells at h
  cases he : mapOpt (genEntry X vo so) (outAssignments vo) with
  | none => simp [he] at h
  | some es =>
    simp only [he] at h
    obtain ⟨hlen, hall⟩ := gatherAll_spec h
    refine ⟨⟨es, rfl⟩, hlen, ?_⟩
    intro k hk
    obtain ⟨e, hmem, hk1, hc⟩ := hall k hk
    obtain ⟨σ, hσ, hent⟩ := mapOpt_mem he hmem
    refine ⟨σ, hσ, ?_⟩
    unfold genEntry at hent
    cases hx : X σ with
    | none => simp [hx] at hent
    | some c =>
      cases hp : flatPos vo so σ with
      | none => simp [hx, hp] at hent
      | some po =>
        simp only [hx, hp, Option.some.injEq] at hent
        subst hent
        exact ⟨by simpa using hk1, by simpa using hc.symm⟩

theorem genCells_congr {X Y : Assign → Option Cell} {vo : List Dim} {so : List Nat}
    (h : ∀ σ ∈ outAssignments vo, X σ = Y σ) : genCells X vo so = genCells Y vo so := by
  unfold genCells
  have : mapOpt (genEntry X vo so) (outAssignments vo) = mapOpt (genEntry Y vo so) (outAssignments vo) :=
    mapOpt_congr (fun σ hσ => by simp only [genEntry, h σ hσ])
  rw [this]

theorem genCells_map (g : Cell → Cell) (X : Assign → Option Cell) (vo : List Dim) (so : List Nat) :
    genCells (fun σ => (X σ).map g) vo so = (genCells X vo so).map (List.map g) := by
  unfold genCells
  have : genEntry (fun σ => (X σ).map g) vo so = fun σ => (genEntry X vo so σ).map (fun e => (e.1, g e.2)) := by
    funext σ
    simp only [genEntry]
    cases X σ <;> cases flatPos vo so σ <;> rfl
  rw [this, mapOpt_optmap]
  cases mapOpt (genEntry X vo so) (outAssignments vo) with
  | none => rfl
  | some es => simp only [Option.map_some, gatherAll_map]

/-- **Regrouping the output view** leaves every `genCells` denotation unchanged. -/
theorem genCells_regroup_output (X : Assign → Option Cell) (pre mid post : List Dim) :
    genCells X (pre ++ [Dim.flat mid] ++ post) (viewShape (pre ++ [Dim.flat mid] ++ post))
      = genCells X (pre ++ mid ++ post) (viewShape (pre ++ mid ++ post)) := by
  have : genEntry X (pre ++ [Dim.flat mid] ++ post) (viewShape (pre ++ [Dim.flat mid] ++ post))
      = genEntry X (pre ++ mid ++ post) (viewShape (pre ++ mid ++ post)) := by
    funext σ
    simp only [genEntry, flatPos_regroup]
  simp only [genCells, this, outAssignments, leavesL_regroup, prod_viewShape_regroup]

/-- **Permuting the output view: definedness.** -/
theorem genCells_permute_output_defined {X : Assign → Option Cell} (hX : GetInvariant X) {w w' : List Dim}
    {perm : List Nat} {cs : List Cell} (hperm : isPermOf perm w.length = true) (hw' : permuteL perm w = some w')
    (hc : Dim.concatFreeL w = true) (hcons : Consistent (Dim.leavesL w))
    (h : genCells X w (viewShape w) = some cs) : ∃ cs', genCells X w' (viewShape w') = some cs' := by
  obtain ⟨_, _, _, hlt⟩ := isPermOf_spec hperm
  have hm := leavesL_permute hperm hw'
  have hm' : ∀ l, l ∈ Dim.leavesL w' ↔ l ∈ Dim.leavesL w := fun l => (hm l).symm
  have hcons' : Consistent (Dim.leavesL w') := fun a ha b hb => hcons a ((hm a).mpr ha) b ((hm b).mpr hb)
  obtain ⟨⟨es, hes⟩, _, hall⟩ := genCells_spec h
  have hentry : ∀ σ' ∈ outAssignments w', ∃ e, genEntry X w' (viewShape w') σ' = some e := by
    intro σ' hσ'
    obtain ⟨σ, hσ, hsg⟩ := outAssignments_sameGet hm hcons hσ'
    obtain ⟨e, _, he⟩ := mapOpt_forall_of_some hes σ hσ
    unfold genEntry at he ⊢
    rw [← hX σ σ' hsg]
    cases hx : X σ with
    | none => simp [hx] at he
    | some c =>
      unfold flatPos at he ⊢
      cases hpos : position w σ with
      | none => simp [hx, hpos] at he
      | some p =>
        have hpos' : position w σ' = some p := by rw [← position_sameGet hsg]; exact hpos
        have hplen : p.length = w.length := position_length hpos
        rw [position_permute hpos' hw', permuteL_eq_map 0 perm p (by rw [hplen]; exact hlt)]
        exact ⟨_, rfl⟩
  obtain ⟨es', hes'⟩ := mapOpt_some_of_forall hentry
  have hcover : ∀ k', k' < prod (viewShape w') → ∃ e ∈ es', e.1 = k' := by
    intro k' hk'
    have hv' := unravel_valid (viewShape w') k' hk'
    have hlen : (viewShape w).length = w.length := by simp [viewShape]
    obtain ⟨p, hvp, hpp⟩ := exists_unpermute (by rw [hlen]; exact hperm) (viewShape_permute hw') hv'
    obtain ⟨τ, hτ, hposτ, _⟩ := hall _ (ravel_lt hvp)
    have hbτ : BoundedOn τ (Dim.leavesL w) := outAssignments_bounded hcons hτ
    obtain ⟨q, hq, hvq⟩ := position_valid w hc hbτ
    have hqp : q = p := by
      simp only [flatPos, hq, Option.map_some, Option.some.injEq] at hposτ
      rw [← unravel_ravel hvq, hposτ, unravel_ravel hvp]
    subst hqp
    obtain ⟨τ', hτ', hsg⟩ := outAssignments_sameGet hm' hcons' hτ
    obtain ⟨e, hemem, he⟩ := mapOpt_forall_of_some hes' τ' hτ'
    refine ⟨e, hemem, ?_⟩
    unfold genEntry at he
    have hposτ' : position w' τ' = some (unravel (viewShape w') k') := by
      rw [position_permute (by rw [position_sameGet hsg]; exact hq) hw', hpp]
    cases hx : X τ' with
    | none => simp [hx] at he
    | some c =>
      simp only [hx, flatPos, hposτ', Option.map_some, Option.some.injEq] at he
      rw [← he]
      exact ravel_unravel _ _ hk'
  obtain ⟨cs', hcs'⟩ := gatherAll_isSome hcover
  exact ⟨cs', by unfold genCells; rw [hes']; exact hcs'⟩

/-- **Permuting the output view permutes the result**: the cells of the permuted operation are the cells of numpy's
transpose plan applied to the original result (register `r`). -/
theorem genCells_permute_output {X : Assign → Option Cell} (hX : GetInvariant X) {w w' : List Dim} {perm : List Nat}
    {shapes : List (List Nat)} {r : Nat} {plan : Plan} {cs cs' : List Cell} (regs : List (Tensor Cell))
    (hperm : isPermOf perm w.length = true) (hw' : permuteL perm w = some w')
    (hc : Dim.concatFreeL w = true) (hcons : Consistent (Dim.leavesL w))
    (hr : shapes[r]? = some (viewShape w)) (hplan : planInstr shapes (.transpose r perm) = .ok plan)
    (hregs : regs[r]? = some ⟨viewShape w, cs⟩)
    (h : genCells X w (viewShape w) = some cs) (h' : genCells X w' (viewShape w') = some cs') :
    plan.shape = viewShape w' ∧ cs' = plan.cells.map (subst regs) := by
  have hlen : (viewShape w).length = w.length := by simp [viewShape]
  obtain ⟨plan2, hplan2, hshape, hclen, hreads⟩ :=
    transpose_plan_ok shapes r (viewShape w) perm hr (by rw [hlen]; exact hperm)
  rw [hplan] at hplan2
  have : plan = plan2 := Except.ok.inj hplan2
  subst this
  have hs : plan.shape = viewShape w' := by
    have := viewShape_permute hw'
    rw [hshape] at this
    exact Option.some.inj this
  refine ⟨hs, ?_⟩
  have hm := leavesL_permute hperm hw'
  have hcons' : Consistent (Dim.leavesL w') := fun a ha b hb => hcons a ((hm a).mpr ha) b ((hm b).mpr hb)
  obtain ⟨_, hl, hall⟩ := genCells_spec h
  obtain ⟨_, hl', hall'⟩ := genCells_spec h'
  apply List.ext_getElem?
  intro k'
  by_cases hk' : k' < prod (viewShape w')
  · obtain ⟨σ', hσ', hpos', hcell'⟩ := hall' k' hk'
    have hb' : BoundedOn σ' (Dim.leavesL w') := outAssignments_bounded hcons' hσ'
    have hb : BoundedOn σ' (Dim.leavesL w) := hb'.mem (fun l hl => (hm l).mp hl)
    obtain ⟨p, hp, hv⟩ := position_valid w hc hb
    obtain ⟨p', hp', _, hcell⟩ := hreads p hv
    have hposw' : position w' σ' = some p' := by rw [position_permute hp hw', hp']
    have hk'eq : k' = ravel (viewShape w') p' := by
      simp only [flatPos, hposw', Option.map_some, Option.some.injEq] at hpos'
      exact hpos'.symm
    have hklt : ravel (viewShape w) p < prod (viewShape w) := ravel_lt hv
    obtain ⟨τ, hτ, hpos, hcellτ⟩ := hall _ hklt
    have hbτ : BoundedOn τ (Dim.leavesL w) := outAssignments_bounded hcons hτ
    have hag : AgreeOn τ σ' (Dim.leavesL w) :=
      flatPos_inj w hc hbτ hb (by rw [hpos]; simp [flatPos, hp])
    have hsg : SameGet τ σ' := sameGet_of_agreeOn hm hτ hσ' hag
    have hklen : ravel (viewShape w) p < cs.length := by rw [hl]; exact hklt
    rw [List.getElem?_map, hk'eq, ← hs, hcell, Option.map_some, subst_src_reg regs r _ _ hregs]
    rw [hs, ← hk'eq, ← hcell', ← hX τ σ' hsg, hcellτ]
    simp [List.getElem?_eq_getElem hklen]
  · have h1 : cs'.length ≤ k' := by omega
    have h2 : (plan.cells.map (subst regs)).length ≤ k' := by
      rw [List.length_map, hclen, hs]; omega
    rw [List.getElem?_eq_none h1, List.getElem?_eq_none h2]

/-- Both together, with the IR's transpose plan run on the original result. -/
theorem genCells_permute_output_full {X : Assign → Option Cell} (hX : GetInvariant X) {w w' : List Dim}
    {perm : List Nat} {cs : List Cell} (hperm : isPermOf perm w.length = true) (hw' : permuteL perm w = some w')
    (hc : Dim.concatFreeL w = true) (hcons : Consistent (Dim.leavesL w))
    (h : genCells X w (viewShape w) = some cs) :
    ∃ cs', genCells X w' (viewShape w') = some cs' ∧
      ∃ plan, planInstr [viewShape w] (.transpose 0 perm) = .ok plan ∧
        runPlan symAlg [⟨viewShape w, cs⟩] plan = ⟨viewShape w', cs'⟩ := by
  obtain ⟨cs', h'⟩ := genCells_permute_output_defined hX hperm hw' hc hcons h
  have hlen : (viewShape w).length = w.length := by simp [viewShape]
  obtain ⟨plan, hplan, _, _, _⟩ :=
    transpose_plan_ok [viewShape w] 0 (viewShape w) perm rfl (by rw [hlen]; exact hperm)
  obtain ⟨hs, hcells⟩ := genCells_permute_output hX [⟨viewShape w, cs⟩] hperm hw' hc hcons rfl hplan rfl h h'
  refine ⟨cs', h', plan, hplan, ?_⟩
  simp only [runPlan, hs, Tensor.mk.injEq, true_and, evalCells_eq_map]
  exact hcells.symm

end Einx.Denote
