import EinxModel.Denote.Fun2
import EinxModel.Proofs.DenoteTie
import EinxModel.Proofs.DenoteDefined
import EinxModel.Proofs.CellOrder
/-!
Reductions (C08): the functional form `Denote.denoteReduceFun` is the executable loop form
`Denote.denoteReduce`; generic laws for every functional denotation of the shape `genCells`
(output permutation incl. definedness, output regrouping); input laws for reductions.
-/
namespace Einx.Denote
open Einx Einx.IR
open Einx.Update (mapOpt mapOpt_eq_some_iff mapOpt_length mapOpt_getElem? mapOpt_congr mapOpt_some_of_forall)

/-! ### tie: loop form = functional form -/

theorem rd_inner_loop (vi : List Dim) (si : List Nat) (σ : Assign) : ∀ (l : List Assign) (cells : List Cell),
    okOpt (forIn l cells (rdInner vi si (Dim.leavesL vi) σ)) = (mapOpt (redCell vi si σ) l).map (fun cs => cells ++ cs) := by
  intro l
  induction l with
  | nil => intro cells; simp [mapOpt, okOpt_pure]
  | cons τ l ih =>
    intro cells
    rw [List.forIn_cons]
    simp only [mapOpt, redCell, rdInner, cellAt, flatPos]
    cases hx : inputAssign σ τ (Dim.leavesL vi) with
    | none => simp only [optE_none, error_bind, okOpt, Option.map_none]
    | some a =>
      cases hp : position vi a with
      | none => simp only [hp, optE_some, optE_none, pure_bind, error_bind, okOpt, Option.map_none]
      | some p =>
        simp only [hp, optE_some, pure_bind, Option.map_some, ih]
        cases mapOpt (redCell vi si σ) l with
        | none => rfl
        | some cs => simp

/-- What the outer loop of `denoteReduce` appends for `σ`. -/
def redEntryL (f : String) (vi : List Dim) (si : List Nat) (vo : List Dim) (σ : Assign) : Option (List Nat × Cell) :=
  match redArgs vi si σ, position vo σ with
  | some cells, some po => some (po, mkRed f cells)
  | _, _ => none

theorem rd_outer_loop (f : String) (vi : List Dim) (si : List Nat) (vo : List Dim) :
    ∀ (asg : List Assign) (entries : List (List Nat × Cell)),
      okOpt (forIn asg entries (rdOuter f vi si (Dim.leavesL vi) (markedAxes vi) vo))
        = (mapOpt (redEntryL f vi si vo) asg).map (fun es => entries ++ es) := by
  intro asg
  induction asg with
  | nil => intro entries; simp [mapOpt, okOpt_pure]
  | cons σ asg ih =>
    intro entries
    rw [List.forIn_cons]
    simp only [rdOuter, bind_assoc, pure_bind]
    rw [okOpt_bind, rd_inner_loop]
    simp only [mapOpt, redEntryL, redArgs]
    cases mapOpt (redCell vi si σ) (assignments (markedAxes vi)) with
    | none => rfl
    | some cells =>
      simp only [Option.map_some, Option.bind_some, List.nil_append]
      cases hp : position vo σ with
      | none => simp only [optE_none, error_bind, okOpt, Option.map_none]
      | some po =>
        simp only [optE_some, pure_bind, Option.map_some, ih]
        cases mapOpt (redEntryL f vi si vo) asg with
        | none => rfl
        | some es => simp

theorem okOpt_fillOutput (so : List Nat) (entries : List (List Nat × Cell)) :
    okOpt (fillOutput so entries)
      = (gatherAll (prod so) (entries.map (fun e => (ravel so e.1, e.2)))).map (fun cs => (⟨so, cs⟩ : Tensor Cell)) := by
  unfold fillOutput gatherAll scatter
  simp only [bind_pure_comp]
  rw [List.foldl_map]
  have := okOpt_mapM_optE "output not fully defined"
    (List.foldl (fun (acc : List (Option Cell)) (x : List Nat × Cell) => acc.set (ravel so x.1) (some x.2))
      (List.replicate (prod so) none) entries)
  generalize List.mapM (optE "output not fully defined") _ = M at this ⊢
  rw [← this]
  cases M <;> rfl

theorem redEntryL_gen (f : String) (vi : List Dim) (si : List Nat) (vo : List Dim) (so : List Nat) (σ : Assign) :
    (redEntryL f vi si vo σ).map (fun e => (ravel so e.1, e.2)) = genEntry (redX f vi si) vo so σ := by
  simp only [redEntryL, genEntry, redX, flatPos]
  cases redArgs vi si σ <;> cases position vo σ <;> rfl

/-- **Tie between the loop form and the functional form of reductions** (concatenation-free expressions). -/
theorem denoteReduce_eq_fun (f : String) (e eo : Expr) (he : e.concatFree = true) (heo : eo.concatFree = true) :
    okOpt (denoteReduce f e eo) = okOpt (denoteReduceFun f e eo) := by
  rw [denoteReduce_eq, singleView_of_concatFree he, singleView_of_concatFree heo]
  simp only [pure_bind]
  rw [okOpt_bind]
  have hm : axesOf ((Dim.leavesL (rootDims e)).filter (·.marked)) = markedAxes (rootDims e) := rfl
  rw [hm, rd_outer_loop]
  unfold denoteReduceFun reduceCells genCells
  simp only [he, heo, Bool.and_self, Bool.not_true, Bool.false_eq_true, if_false, outAssignments]
  have hg : genEntry (redX f (rootDims e) (shapeOf e)) (rootDims eo) (shapeOf eo)
      = fun σ => (redEntryL f (rootDims e) (shapeOf e) (rootDims eo) σ).map (fun e' => (ravel (shapeOf eo) e'.1, e'.2)) := by
    funext σ; exact (redEntryL_gen f _ _ _ _ σ).symm
  rw [hg, mapOpt_optmap]
  cases mapOpt (redEntryL f (rootDims e) (shapeOf e) (rootDims eo)) (assignments (axesOf (Dim.leavesL (rootDims eo)))) with
  | none => rfl
  | some es =>
    simp only [Option.map_some, Option.bind_some, List.nil_append, okOpt_fillOutput]
    cases gatherAll (prod (shapeOf eo)) (es.map (fun e' => (ravel (shapeOf eo) e'.1, e'.2))) <;> rfl

end Einx.Denote
