import EinxModel.Proofs.RegistryLazy
/-!
C11, lazy registration under the discipline (`disciplined`): where a lookup leaves the state, the invariant that
ties the registry's state to what the discipline check remembers, and its preservation.
-/
namespace Einx.Registry

/-- Equal up to the memo. -/
structure SameM (s t : State) : Prop where
  seen : s.seen = t.seen
  uninit : s.uninit = t.uninit
  backends : s.backends = t.backends
  names : s.names = t.names
  stack : s.stack = t.stack

theorem SameM.refl (s : State) : SameM s s := ⟨rfl, rfl, rfl, rfl, rfl⟩

theorem SameM.select_eq {s t : State} (h : SameM s t) (tys : List Nat) : select s tys = select t tys := by
  unfold Einx.Registry.select candidates; rw [h.backends, h.names]

/-! ### where a lookup leaves the state -/

theorem getByName_state (cfg : Cfg) (s : State) (mods : List String) (ch : Bool) (n : String)
    {s' : State} {b : Backend} {ch' : Bool} (h : s.getByName cfg mods ch n = .ok (s', b, ch')) :
    (s' = s ∧ dictGet s.names n = some b) ∨ (ch = false ∧ s' = s.flush cfg mods) := by
  unfold State.getByName at h
  cases hd : dictGet s.names n with
  | some b0 =>
    simp only [hd, Except.ok.injEq, Prod.mk.injEq] at h
    exact Or.inl ⟨h.1.symm, by rw [h.2.1]⟩
  | none =>
    simp only [hd] at h
    cases ch with
    | true => simp [checkNewImports_true] at h
    | false =>
      have he : s.flush cfg mods = (s.checkNewImports cfg mods false).1 := rfl
      generalize s.checkNewImports cfg mods false = r at h he
      obtain ⟨s1, changed, ch1⟩ := r
      dsimp only at h he
      cases changed with
      | false => simp at h
      | true =>
        simp only [Bool.not_true, Bool.false_eq_true, ↓reduceIte] at h
        cases hd1 : dictGet s1.names n with
        | none => simp [hd1] at h
        | some b1 =>
          simp only [hd1, Except.ok.injEq, Prod.mk.injEq] at h
          exact Or.inr ⟨rfl, by rw [he, h.1]⟩

/-- If the loop step did not run the import check, the type was supported and nothing changed. -/
theorem getByTensor_unchecked (cfg : Cfg) (cur : State) (mods : List String) (ch : Bool) (ty : Nat)
    (h : (cur.getByTensor cfg mods ch ty).2.2 = false) :
    supporting cur.backends ty ≠ [] ∧ (cur.getByTensor cfg mods ch ty).1 = cur ∧ ch = false := by
  unfold State.getByTensor at h ⊢
  by_cases hb : (supporting cur.backends ty).isEmpty = true
  · have hck := checkNewImports_checked cfg cur mods ch
    simp only [hb, Bool.not_true, Bool.false_eq_true, ↓reduceIte] at h
    generalize cur.checkNewImports cfg mods ch = r at h hck
    obtain ⟨s', changed, ch'⟩ := r
    dsimp only at h hck
    subst hck
    cases changed <;> simp at h
  · have hne : supporting cur.backends ty ≠ [] := by simpa using hb
    simp only [hb, Bool.not_false, ↓reduceIte] at h ⊢
    exact ⟨hne, trivial, h⟩

theorem fold_unchecked (cfg : Cfg) (mods : List String) : ∀ (tys : List Nat) (cur : State) (acc : List Backend) (ch : Bool),
    (tys.foldl
      (fun (a : State × List Backend × Bool) ty =>
        let (s, cs, ch) := a
        let (s', bs, ch') := s.getByTensor cfg mods ch ty
        (s', unionByUid cs bs, ch')) (cur, acc, ch)).2.2 = false →
    ch = false ∧ ∀ ty ∈ tys, supporting cur.backends ty ≠ []
  | [], _, _, _, h => ⟨h, fun _ hty => by cases hty⟩
  | ty :: tys, cur, acc, ch, h => by
    simp only [List.foldl_cons] at h
    have h1 := getByTensor_unchecked cfg cur mods ch ty
    generalize cur.getByTensor cfg mods ch ty = r at h h1
    obtain ⟨s', bs, ch'⟩ := r
    dsimp only at h h1
    have ih := fold_unchecked cfg mods tys s' _ ch' h
    obtain ⟨hne, hs', hch⟩ := h1 ih.1
    subst hs'
    refine ⟨hch, fun t ht => ?_⟩
    rcases List.mem_cons.1 ht with rfl | ht
    · exact hne
    · exact ih.2 t ht

theorem candFold_congr {bs bs' : List Backend} : ∀ (tys : List Nat) (acc : List Backend),
    (∀ ty ∈ tys, supporting bs ty = supporting bs' ty) →
    tys.foldl (fun acc ty => unionByUid acc (supporting bs ty)) acc =
      tys.foldl (fun acc ty => unionByUid acc (supporting bs' ty)) acc
  | [], _, _ => rfl
  | ty :: tys, acc, h => by
    rw [List.foldl_cons, List.foldl_cons, h ty (List.mem_cons_self ..)]
    exact candFold_congr tys _ (fun t ht => h t (List.mem_cons_of_mem _ ht))

/-- Where `_get_by_tensors` leaves the state, under the discipline: in the original state (then every type was
supported there, and a new memo entry is also what the original state selects) or in the effective state –
up to the memo, which gains at most the entry for these types. -/
theorem getByTensors_state (cfg : Cfg) (s : State) (mods : List String) (tys : List Nat)
    (wf : ∀ m ∈ s.seen, dictGet s.uninit m = none) (d : LazyDiscipline cfg s mods tys)
    {s' : State} {l : List Backend} (h : s.getByTensors cfg mods false tys = .ok (s', l)) :
    (SameM s s' ∧ ∀ en ∈ s'.memo, en ∈ s.memo ∨
        (l = [en.2] ∧ en.1 = tys ∧ select s tys = l ∧ ∀ ty ∈ tys, supporting s.backends ty ≠ [])) ∨
    (SameM (s.flush cfg mods) s' ∧ ∀ en ∈ s'.memo, en ∈ (s.flush cfg mods).memo ∨ (l = [en.2] ∧ en.1 = tys)) := by
  have hsel := getByTensors_pending cfg s mods tys wf d
  rw [h] at hsel
  simp only at hsel
  unfold State.getByTensors at h
  cases hfind : s.memo.find? (·.1 == tys) with
  | some en =>
    obtain ⟨tys', b⟩ := en
    simp only [hfind, Except.ok.injEq, Prod.mk.injEq] at h
    rw [← h.1]
    exact Or.inl ⟨SameM.refl s, fun en hen => Or.inl hen⟩
  | none =>
    simp only [hfind] at h
    have hf := fold_pending cfg s mods tys d.types s [] false (Or.inl ⟨rfl, rfl⟩)
    have hu := fold_unchecked cfg mods tys s [] false
    generalize tys.foldl
      (fun (a : State × List Backend × Bool) ty =>
        let (s, cs, ch) := a
        let (s', bs, ch') := s.getByTensor cfg mods ch ty
        (s', unionByUid cs bs, ch')) (s, [], false) = r at hf hu h
    obtain ⟨s1, cands, ch1⟩ := r
    dsimp only at hf hu h
    -- the final step: memo insertion into `s2`
    have hfinal : ∀ (s2 : State) (c : List Backend),
        (match keepMax c with
          | [b] => (Except.ok ({ s2 with memo := s2.memo.filter (fun (x : List Nat × Backend) => x.1 != tys) ++ [(tys, b)] }, [b]) : Except Err (State × List Backend))
          | _ => .ok (s2, keepMax c)) = .ok (s', l) →
        SameM s2 s' ∧ l = keepMax c ∧ ∀ en ∈ s'.memo, en ∈ s2.memo ∨ (l = [en.2] ∧ en.1 = tys) := by
      intro s2 c hm
      split at hm
      · rename_i b hb
        simp only [Except.ok.injEq, Prod.mk.injEq] at hm
        rw [← hm.1, ← hm.2]
        refine ⟨⟨rfl, rfl, rfl, rfl, rfl⟩, hb.symm, fun en hen => ?_⟩
        simp only [List.mem_append, List.mem_filter, List.mem_singleton] at hen
        rcases hen with hen | rfl
        · exact Or.inl hen.1
        · exact Or.inr ⟨rfl, rfl⟩
      · simp only [Except.ok.injEq, Prod.mk.injEq] at hm
        rw [← hm.1, ← hm.2]
        exact ⟨SameM.refl _, rfl, fun en hen => Or.inl hen⟩
    by_cases hsc : tys.all isScalarTy = true
    · simp only [hsc, ↓reduceIte] at h
      cases hn : s1.getByName cfg mods false "numpy" with
      | error e => simp [hn] at h
      | ok r =>
        obtain ⟨s2, b, ch2⟩ := r
        simp only [hn] at h
        obtain ⟨hsame, hl, hmem⟩ := hfinal s2 [b] h
        have hk : keepMax [b] = [b] := by simp [keepMax]
        rw [hk] at hl
        rcases hf.1 with ⟨rfl, rfl⟩ | ⟨rfl, rfl⟩
        · rcases getByName_state cfg s1 mods false "numpy" hn with ⟨rfl, hnb⟩ | ⟨_, rfl⟩
          · refine Or.inl ⟨hsame, fun en hen => ?_⟩
            rcases hmem en hen with h1 | ⟨h1, h2⟩
            · exact Or.inl h1
            · refine Or.inr ⟨h1, h2, ?_, (hu rfl).2⟩
              rw [hl]; simp [select, candidates, hsc, hnb, keepMax]
          · exact Or.inr ⟨hsame, hmem⟩
        · have hq := getByName_quiet cfg (s.flush cfg mods) mods false "numpy" (flush_quiet cfg s mods wf)
          cases hd : dictGet (s.flush cfg mods).names "numpy" with
          | none => rw [hq.2 hd] at hn; cases hn
          | some b' =>
            rw [hq.1 b' hd] at hn
            simp only [Except.ok.injEq, Prod.mk.injEq] at hn
            rw [← hn.1] at hsame hmem
            exact Or.inr ⟨hsame, hmem⟩
    · simp only [hsc, Bool.false_eq_true, ↓reduceIte] at h
      obtain ⟨hsame, hl, hmem⟩ := hfinal s1 cands h
      rcases hf.1 with ⟨rfl, rfl⟩ | ⟨rfl, rfl⟩
      · refine Or.inl ⟨hsame, fun en hen => ?_⟩
        rcases hmem en hen with h1 | ⟨h1, h2⟩
        · exact Or.inl h1
        · refine Or.inr ⟨h1, h2, ?_, (hu rfl).2⟩
          have hc : candidates s1 tys = cands := by
            have hsc' : tys.all isScalarTy = false := by simpa using hsc
            simp only [candidates, hsc', Bool.false_eq_true, ↓reduceIte, hf.2]
            exact candFold_congr tys [] (fun ty hty => (d.types ty hty ((hu rfl).2 ty hty)).symm)
          rw [hl, select, hc]
      · exact Or.inr ⟨hsame, hmem⟩

/-- Where `_get` leaves the state, under the discipline. -/
theorem get_state (cfg : Cfg) (s : State) (mods : List String) (arg : BackendArg) (tys : List Nat)
    (wf : ∀ m ∈ s.seen, dictGet s.uninit m = none) (d : LazyDiscipline cfg s mods tys)
    {s' : State} {b : Backend} (h : s.get cfg mods arg tys = .ok (s', b)) :
    (SameM s s' ∧ ∀ en ∈ s'.memo, en ∈ s.memo ∨
        (en = (tys, b) ∧ select s tys = [b] ∧ ∀ ty ∈ tys, supporting s.backends ty ≠ [])) ∨
    (SameM (s.flush cfg mods) s' ∧ ∀ en ∈ s'.memo, en ∈ (s.flush cfg mods).memo ∨
        (en = (tys, b) ∧ select (s.flush cfg mods) tys = [b])) := by
  cases arg with
  | obj b0 =>
    simp only [State.get, Except.ok.injEq, Prod.mk.injEq] at h
    obtain ⟨rfl, rfl⟩ := h
    exact Or.inl ⟨SameM.refl _, fun en hen => Or.inl hen⟩
  | name n =>
    simp only [State.get] at h
    cases hn : s.getByName cfg mods false n with
    | error e => simp [hn] at h
    | ok r =>
      obtain ⟨s2, b2, ch2⟩ := r
      simp only [hn, Except.ok.injEq, Prod.mk.injEq] at h
      rcases getByName_state cfg s mods false n hn with ⟨e, _⟩ | ⟨_, e⟩
      · rw [← h.1, e]; exact Or.inl ⟨SameM.refl _, fun en hen => Or.inl hen⟩
      · rw [← h.1, e]; exact Or.inr ⟨SameM.refl _, fun en hen => Or.inl hen⟩
  | other =>
    simp only [State.get] at h
    cases hs : s.stack.getLast? with
    | some t =>
      simp only [hs, Except.ok.injEq, Prod.mk.injEq] at h
      obtain ⟨rfl, rfl⟩ := h
      exact Or.inl ⟨SameM.refl _, fun en hen => Or.inl hen⟩
    | none => simp [hs] at h
  | none =>
    simp only [State.get] at h
    cases hs : s.stack.getLast? with
    | some t =>
      simp only [hs, Except.ok.injEq, Prod.mk.injEq] at h
      obtain ⟨rfl, rfl⟩ := h
      exact Or.inl ⟨SameM.refl _, fun en hen => Or.inl hen⟩
    | none =>
      simp only [hs, bne_self_eq_false, Bool.false_eq_true, ↓reduceIte] at h
      cases ht : s.getByTensors cfg mods false tys with
      | error e => simp [ht] at h
      | ok r =>
        obtain ⟨s2, l⟩ := r
        have hst := getByTensors_state cfg s mods tys wf d ht
        have hsel := getByTensors_pending cfg s mods tys wf d
        rw [ht] at h hsel
        simp only at hsel
        match l, h, hst, hsel with
        | [], h, _, _ => simp at h
        | _ :: _ :: _, h, _, _ => simp at h
        | [c], h, hst, hsel =>
          simp only [Except.ok.injEq, Prod.mk.injEq] at h
          obtain ⟨rfl, rfl⟩ := h
          rcases hst with ⟨hsame, hmem⟩ | ⟨hsame, hmem⟩
          · refine Or.inl ⟨hsame, fun en hen => ?_⟩
            rcases hmem en hen with h1 | ⟨h1, h2, h3, h4⟩
            · exact Or.inl h1
            · refine Or.inr ⟨?_, h3, h4⟩
              have : c = en.2 := by simpa using h1
              rw [this, ← h2]
          · refine Or.inr ⟨hsame, fun en hen => ?_⟩
            rcases hmem en hen with h1 | ⟨h1, h2⟩
            · exact Or.inl h1
            · refine Or.inr ⟨?_, hsel.1.symm⟩
              have : c = en.2 := by simpa using h1
              rw [this, ← h2]

/-! ### what the discipline check guarantees about itself -/

theorem disjointTypes_spec {a b : Backend} (h : disjointTypes a b = true) (ty : Nat) :
    ¬ (accepts a ty = true ∧ accepts b ty = true) := by
  rintro ⟨ha, hb⟩
  have hmem : ty ∈ a.accepts := by
    simp only [accepts, Bool.and_eq_true, List.contains_iff_mem] at ha; exact ha.2
  have := List.all_eq_true.1 h ty hmem
  simp [ha, hb] at this

/-- Facts about the remembered history alone. -/
structure TI (t : Track) : Prop where
  nameEL : ∀ x ∈ t.eager, ∀ mf ∈ t.lazies, x.name ≠ mf.2.produces.name
  nameEE : ∀ x ∈ t.eager, ∀ y ∈ t.eager, x.name = y.name → x = y
  nameLL : ∀ mf ∈ t.lazies, ∀ mf' ∈ t.lazies, mf.2.produces.name = mf'.2.produces.name → mf = mf'
  ownEL : ∀ x ∈ t.eager, ∀ mf ∈ t.lazies, ∀ ty, ¬ (accepts x ty = true ∧ accepts mf.2.produces ty = true)
  ownLL : ∀ mf ∈ t.lazies, ∀ mf' ∈ t.lazies, mf.1 ≠ mf'.1 →
    ∀ ty, ¬ (accepts mf.2.produces ty = true ∧ accepts mf'.2.produces ty = true)
  exist : ∀ mf ∈ t.lazies, mf.1 ∉ t.mods → ∀ ty ∈ t.looked, accepts mf.2.produces ty = false

theorem ti_empty (mods : List String) : TI { mods := mods } :=
  ⟨fun _ h => (by cases h), fun _ h => (by cases h), fun _ h => (by cases h), fun _ h => (by cases h),
    fun _ h => (by cases h), fun _ h => (by cases h)⟩

theorem fresh_spec {t : Track} {b : Backend} (h : t.fresh b = true) :
    (∀ x ∈ t.eager, x.name ≠ b.name) ∧ ∀ mf ∈ t.lazies, mf.2.produces.name ≠ b.name := by
  have := List.all_eq_true.1 h
  refine ⟨fun x hx => ?_, fun mf hmf => ?_⟩
  · simpa using this x (List.mem_append_left _ hx)
  · simpa using this mf.2.produces (List.mem_append_right _ (List.mem_map.2 ⟨mf, hmf, rfl⟩))

/-- Registering a backend eagerly keeps the remembered facts. -/
theorem ti_add_eager {t : Track} (h : TI t) (b : Backend) (hf : t.fresh b = true)
    (hd : t.lazies.all (fun mf => disjointTypes b mf.2.produces) = true) :
    TI { t with eager := t.eager ++ [b] } := by
  obtain ⟨f1, f2⟩ := fresh_spec hf
  refine ⟨fun x hx mf hmf => ?_, fun x hx y hy e => ?_, h.nameLL, fun x hx mf hmf ty => ?_, h.ownLL, h.exist⟩
  · rcases List.mem_append.1 hx with hx | hx
    · exact h.nameEL x hx mf hmf
    · rw [List.mem_singleton.1 hx]; exact fun e => f2 mf hmf e.symm
  · rcases List.mem_append.1 hx with hx | hx <;> rcases List.mem_append.1 hy with hy | hy
    · exact h.nameEE x hx y hy e
    · rw [List.mem_singleton.1 hy] at e; exact absurd e (f1 x hx)
    · rw [List.mem_singleton.1 hx] at e; exact absurd e.symm (f1 y hy)
    · rw [List.mem_singleton.1 hx, List.mem_singleton.1 hy]
  · rcases List.mem_append.1 hx with hx | hx
    · exact h.ownEL x hx mf hmf ty
    · rw [List.mem_singleton.1 hx]; exact disjointTypes_spec (List.all_eq_true.1 hd mf hmf) ty

theorem ti_step {t : Track} (h : TI t) (op : Op) (ok : t.ok op = true) : TI (t.step op) := by
  cases op with
  | register b =>
    simp only [Track.ok, Bool.and_eq_true] at ok
    exact ti_add_eager h b ok.1 ok.2
  | registerOnImport m f =>
    simp only [Track.ok, Bool.and_eq_true] at ok
    obtain ⟨hf, ok⟩ := ok
    simp only [Track.step]
    by_cases hm : t.mods.contains m = true
    · rw [if_pos hm] at ok ⊢
      exact ti_add_eager h f.produces hf ok
    · rw [if_neg hm] at ok ⊢
      simp only [Bool.and_eq_true] at ok
      obtain ⟨⟨okE, okL⟩, okK⟩ := ok
      obtain ⟨f1, f2⟩ := fresh_spec hf
      have hm' : m ∉ t.mods := by simpa using hm
      have okL' : ∀ mf ∈ t.lazies, mf.1 ≠ m → disjointTypes mf.2.produces f.produces = true := by
        intro mf hmf hne
        have := List.all_eq_true.1 okL mf hmf
        simpa [hne] using this
      refine ⟨fun x hx mf hmf => ?_, h.nameEE, fun mf hmf mf' hmf' e => ?_, fun x hx mf hmf ty => ?_,
        fun mf hmf mf' hmf' hne ty => ?_, fun mf hmf hnm ty hty => ?_⟩
      · rcases List.mem_append.1 hmf with hmf | hmf
        · exact h.nameEL x hx mf hmf
        · rw [List.mem_singleton.1 hmf]; exact f1 x hx
      · rcases List.mem_append.1 hmf with hmf | hmf <;> rcases List.mem_append.1 hmf' with hmf' | hmf'
        · exact h.nameLL mf hmf mf' hmf' e
        · rw [List.mem_singleton.1 hmf'] at e; exact absurd e (f2 mf hmf)
        · rw [List.mem_singleton.1 hmf] at e; exact absurd e.symm (f2 mf' hmf')
        · rw [List.mem_singleton.1 hmf, List.mem_singleton.1 hmf']
      · rcases List.mem_append.1 hmf with hmf | hmf
        · exact h.ownEL x hx mf hmf ty
        · rw [List.mem_singleton.1 hmf]; exact disjointTypes_spec (List.all_eq_true.1 okE x hx) ty
      · rcases List.mem_append.1 hmf with hmf | hmf <;> rcases List.mem_append.1 hmf' with hmf' | hmf'
        · exact h.ownLL mf hmf mf' hmf' hne ty
        · rw [List.mem_singleton.1 hmf'] at hne ⊢
          exact disjointTypes_spec (okL' mf hmf hne) ty
        · rw [List.mem_singleton.1 hmf] at hne ⊢
          exact fun hh => disjointTypes_spec (okL' mf' hmf' (fun e => hne e.symm)) ty ⟨hh.2, hh.1⟩
        · rw [List.mem_singleton.1 hmf, List.mem_singleton.1 hmf'] at hne; exact absurd rfl hne
      · rcases List.mem_append.1 hmf with hmf | hmf
        · exact h.exist mf hmf hnm ty hty
        · rw [List.mem_singleton.1 hmf]
          have := List.all_eq_true.1 okK ty hty
          simpa using this
  | importModule m =>
    refine ⟨h.nameEL, h.nameEE, h.nameLL, h.ownEL, h.ownLL, fun mf hmf hnm ty hty => h.exist mf hmf (fun hin => hnm ?_) ty hty⟩
    show mf.1 ∈ (if t.mods.contains m then t.mods else t.mods ++ [m])
    split
    · exact hin
    · exact List.mem_append_left _ hin
  | get arg tys =>
    refine ⟨h.nameEL, h.nameEE, h.nameLL, h.ownEL, h.ownLL, fun mf hmf hnm ty hty => ?_⟩
    rcases List.mem_append.1 hty with hty | hty
    · exact h.exist mf hmf hnm ty hty
    · have := List.all_eq_true.1 ok mf hmf
      have hnm0 : mf.1 ∉ t.mods := hnm
      have hnm' : t.mods.contains mf.1 = false := by simpa using hnm0
      simp only [hnm', Bool.false_or] at this
      simpa using List.all_eq_true.1 this ty hty
  | getByName n => exact h
  | enter b => exact h
  | exit b => exact h

/-! ### the invariant that ties the registry's state to the remembered history -/

structure CI (s : State) (mods : List String) (t : Track) : Prop where
  modsEq : mods = t.mods
  wf : WFs s mods
  backends : ∀ x ∈ s.backends, x ∈ t.eager ∨ ∃ mf ∈ t.lazies, mf.1 ∈ s.seen ∧ x = mf.2.produces
  uninit : ∀ m fs f, dictGet s.uninit m = some fs → f ∈ fs → (m, f) ∈ t.lazies
  names : ∀ kv ∈ s.names, ∃ x ∈ s.backends, x.name = kv.1
  memoOK : MemoOK s
  memoLooked : ∀ en ∈ s.memo, ∀ ty ∈ en.1, ty ∈ t.looked
  memoPending : ∀ en ∈ s.memo, ∀ m fs f, m ∈ mods → m ∉ s.seen → dictGet s.uninit m = some fs → f ∈ fs →
    ∀ ty ∈ en.1, accepts f.produces ty = false

theorem ci_empty (mods : List String) : CI {} mods { mods := mods } :=
  ⟨rfl, ⟨fun _ h => (by cases h), fun _ h => (by cases h)⟩, fun _ h => (by cases h), fun _ _ _ h => (by cases h),
    fun _ h => (by cases h), fun _ h => (by cases h), fun _ h => (by cases h), fun _ h => (by cases h)⟩

section
variable {s : State} {mods : List String} {t : Track}

/-- Type ownership, on the state: a type that a registered backend accepts is not accepted by a waiting factory of
an unseen module. -/
theorem ci_types (ci : CI s mods t) (ti : TI t) {ty : Nat} (hs : supporting s.backends ty ≠ [])
    {m : String} {fs : List Factory} {f : Factory} (hm : m ∉ s.seen) (hd : dictGet s.uninit m = some fs)
    (hf : f ∈ fs) : accepts f.produces ty = false := by
  obtain ⟨x, hx, hax⟩ := exists_accepts_of_supporting hs
  have hl := ci.uninit m fs f hd hf
  cases hacc : accepts f.produces ty with
  | false => rfl
  | true =>
    rcases ci.backends x hx with he | ⟨mf, hmf, hseen, rfl⟩
    · exact absurd ⟨hax, hacc⟩ (ti.ownEL x he (m, f) hl ty)
    · have hne : mf.1 ≠ m := fun e => hm (e ▸ hseen)
      exact absurd ⟨hax, hacc⟩ (ti.ownLL mf hmf (m, f) hl hne ty)

theorem ci_names (ci : CI s mods t) (ti : TI t) {x : Backend} (hx : x ∈ s.backends)
    {m : String} {fs : List Factory} {f : Factory} (hm : m ∉ s.seen) (hd : dictGet s.uninit m = some fs)
    (hf : f ∈ fs) : f.produces.name ≠ x.name := by
  have hl := ci.uninit m fs f hd hf
  rcases ci.backends x hx with he | ⟨mf, hmf, hseen, rfl⟩
  · exact fun e => ti.nameEL x he (m, f) hl e.symm
  · intro e
    have : mf = (m, f) := ti.nameLL mf hmf (m, f) hl e.symm
    rw [this] at hseen
    exact hm hseen

theorem ci_names_stable (cfg : Cfg) (ci : CI s mods t) (ti : TI t) :
    ∀ kv ∈ s.names, dictGet (s.flush cfg mods).names kv.1 = dictGet s.names kv.1 := by
  obtain ⟨L, _, hn, hL, _, _, _⟩ := flush_state cfg s mods
  intro kv hkv
  rw [hn]
  apply dictGet_namesAfter_other
  intro f hf
  obtain ⟨m, _, hns, fs, hd, hff⟩ := hL f hf
  obtain ⟨x, hx, hxn⟩ := ci.names kv hkv
  rw [← hxn]
  exact ci_names ci ti hx hns hd hff

/-- Every memoised choice is what the effective state selects. -/
theorem ci_memoE (cfg : Cfg) (ci : CI s mods t) (ti : TI t) :
    ∀ en ∈ s.memo, select (s.flush cfg mods) en.1 = [en.2] := by
  obtain ⟨L, hb, _, hL, _, _, _⟩ := flush_state cfg s mods
  intro en hen
  have hsel := ci.memoOK en hen
  suffices hc : candidates (s.flush cfg mods) en.1 = candidates s en.1 by
    unfold select at hsel ⊢; rw [hc]; exact hsel
  by_cases hsc : en.1.all isScalarTy = true
  · simp only [candidates, hsc, ↓reduceIte]
    cases hd : dictGet s.names "numpy" with
    | none => simp [select, candidates, hsc, hd, keepMax] at hsel
    | some b =>
      obtain ⟨kv, hkv, hk⟩ := exists_key_of_dictGet "numpy" b s.names hd
      have := ci_names_stable cfg ci ti kv hkv
      rw [hk, hd] at this
      rw [this]
  · have hsc' : en.1.all isScalarTy = false := by simpa using hsc
    simp only [candidates, hsc', Bool.false_eq_true, ↓reduceIte]
    apply candFold_congr
    intro ty hty
    rw [hb, supporting_append]
    have : supporting (L.map (·.produces)) ty = [] := by
      apply supporting_eq_nil
      intro x hx
      obtain ⟨f, hf, rfl⟩ := List.mem_map.1 hx
      obtain ⟨m, hm, hns, fs, hd, hff⟩ := hL f hf
      exact ci.memoPending en hen m fs f hm hns hd hff ty hty
    rw [this, List.append_nil]

/-- The invariant implies the state-level discipline for every tuple of argument types. -/
theorem ci_discipline (cfg : Cfg) (ci : CI s mods t) (ti : TI t) (tys : List Nat) :
    LazyDiscipline cfg s mods tys := by
  obtain ⟨L, hb, _, hL, _, _, _⟩ := flush_state cfg s mods
  refine ⟨fun en hen he => he ▸ ci_memoE cfg ci ti en hen, fun ty _ hs => ?_, ci_names_stable cfg ci ti⟩
  rw [hb, supporting_append]
  have : supporting (L.map (·.produces)) ty = [] := by
    apply supporting_eq_nil
    intro x hx
    obtain ⟨f, hf, rfl⟩ := List.mem_map.1 hx
    obtain ⟨m, _, hns, fs, hd, hff⟩ := hL f hf
    exact ci_types ci ti hs hns hd hff
  rw [this, List.append_nil]

theorem mem_dictSet {β} {d : List (String × β)} {k : String} {v : β} {kv : String × β}
    (h : kv ∈ dictSet d k v) : kv = (k, v) ∨ kv ∈ d := by
  unfold dictSet at h
  split at h
  · obtain ⟨x, hx, rfl⟩ := List.mem_map.1 h
    split
    · exact Or.inl rfl
    · exact Or.inr hx
  · rcases List.mem_append.1 h with h | h
    · exact Or.inr h
    · exact Or.inl (List.mem_singleton.1 h)

theorem mem_namesAfter {kv : String × Backend} : ∀ (L : List Factory) (names : List (String × Backend)),
    kv ∈ namesAfter names L → kv ∈ names ∨ ∃ f ∈ L, kv = (f.produces.name, f.produces)
  | [], _, h => Or.inl h
  | f :: L, names, h => by
    rcases mem_namesAfter L _ (show kv ∈ namesAfter (dictSet names f.produces.name f.produces) L from h) with h | ⟨g, hg, e⟩
    · rcases mem_dictSet h with h | h
      · exact Or.inr ⟨f, List.mem_cons_self .., h⟩
      · exact Or.inl h
    · exact Or.inr ⟨g, List.mem_cons_of_mem _ hg, e⟩

/-- The invariant holds for the effective state as well. -/
theorem ci_flush (cfg : Cfg) (ci : CI s mods t) (ti : TI t) : CI (s.flush cfg mods) mods t := by
  obtain ⟨L, hb, hn, hL, hmemo, hun, hseen, _⟩ := flush_state cfg s mods
  have hq := flush_quiet cfg s mods ci.wf.2
  refine ⟨ci.modsEq, wfs_checkNewImports cfg false ci.wf, fun x hx => ?_, fun m fs f hd hf => ?_, fun kv hkv => ?_,
    fun en hen => ci_memoE cfg ci ti en (hmemo en hen), fun en hen => ci.memoLooked en (hmemo en hen),
    fun en _ m fs f hm _ hd _ => ?_⟩
  · rw [hb] at hx
    rcases List.mem_append.1 hx with hx | hx
    · rcases ci.backends x hx with he | ⟨mf, hmf, hs, e⟩
      · exact Or.inl he
      · exact Or.inr ⟨mf, hmf, (hseen _).2 (Or.inl hs), e⟩
    · obtain ⟨f, hf, rfl⟩ := List.mem_map.1 hx
      obtain ⟨m, hm, _, fs, hd, hff⟩ := hL f hf
      exact Or.inr ⟨(m, f), ci.uninit m fs f hd hff, (hseen _).2 (Or.inr hm), rfl⟩
  · rw [hun] at hd
    split at hd
    · cases hd
    · exact ci.uninit m fs f hd hf
  · rw [hn] at hkv
    rcases mem_namesAfter L _ hkv with h | ⟨f, hf, rfl⟩
    · obtain ⟨x, hx, e⟩ := ci.names kv h
      exact ⟨x, by rw [hb]; exact List.mem_append_left _ hx, e⟩
    · exact ⟨f.produces, by rw [hb]; exact List.mem_append_right _ (List.mem_map.2 ⟨f, hf, rfl⟩), rfl⟩
  · rw [hq m hm] at hd; cases hd

/-- Changing the memo: old entries, or (if `N`) one new entry that the state selects and no waiting factory
touches. -/
theorem ci_memo_ext {s' : State} {t' : Track} (N : Prop) (tys : List Nat) (b : Backend) (ci : CI s mods t)
    (hs : SameM s s') (hm : t'.mods = t.mods) (he : t'.eager = t.eager) (hl : t'.lazies = t.lazies)
    (hk : ∀ ty ∈ t.looked, ty ∈ t'.looked) (hk2 : N → ∀ ty ∈ tys, ty ∈ t'.looked)
    (hmem : ∀ en ∈ s'.memo, en ∈ s.memo ∨ (N ∧ en = (tys, b) ∧ select s tys = [b]))
    (hpend : N → ∀ m fs f, m ∈ mods → m ∉ s.seen → dictGet s.uninit m = some fs → f ∈ fs →
      ∀ ty ∈ tys, accepts f.produces ty = false) : CI s' mods t' := by
  refine ⟨ci.modsEq.trans hm.symm, wfs_congr hs.seen.symm hs.uninit.symm ci.wf, ?_, ?_, ?_, ?_, ?_, ?_⟩
  · rw [← hs.backends, ← hs.seen, he, hl]; exact ci.backends
  · rw [← hs.uninit, hl]; exact ci.uninit
  · rw [← hs.names, ← hs.backends]; exact ci.names
  · intro en hen
    rw [← hs.select_eq]
    rcases hmem en hen with h | ⟨_, rfl, h⟩
    · exact ci.memoOK en h
    · exact h
  · intro en hen ty hty
    rcases hmem en hen with h | ⟨n, rfl, _⟩
    · exact hk ty (ci.memoLooked en h ty hty)
    · exact hk2 n ty hty
  · intro en hen m fs f hm' hns hd hf ty hty
    rw [← hs.seen] at hns
    rw [← hs.uninit] at hd
    rcases hmem en hen with h | ⟨n, rfl, _⟩
    · exact ci.memoPending en h m fs f hm' hns hd hf ty hty
    · exact hpend n m fs f hm' hns hd hf ty hty

end

/-! ### preservation -/

theorem ci_add_eager (cfg : Cfg) (hc : cfg.registerClearsMemo = true) {s : State} {mods : List String} {t : Track}
    (ci : CI s mods t) (b : Backend) : CI (s.register cfg b) mods { t with eager := t.eager ++ [b] } := by
  have hm : (s.register cfg b).memo = [] := by simp [State.register, hc]
  refine ⟨ci.modsEq, wfs_congr rfl rfl ci.wf, fun x hx => ?_, ci.uninit, fun kv hkv => ?_,
    fun en hen => ?_, fun en hen => ?_, fun en hen => ?_⟩
  · rcases List.mem_append.1 (show x ∈ s.backends ++ [b] from hx) with hx | hx
    · rcases ci.backends x hx with he | h
      · exact Or.inl (List.mem_append_left _ he)
      · exact Or.inr h
    · exact Or.inl (List.mem_append_right _ hx)
  · rcases mem_dictSet (show kv ∈ dictSet s.names b.name b from hkv) with rfl | h
    · exact ⟨b, List.mem_append_right _ (List.mem_singleton.2 rfl), rfl⟩
    · obtain ⟨x, hx, e⟩ := ci.names kv h
      exact ⟨x, List.mem_append_left _ hx, e⟩
  · rw [hm] at hen; cases hen
  · rw [hm] at hen; cases hen
  · rw [hm] at hen; cases hen

theorem ci_step (cfg : Cfg) (hc : cfg.registerClearsMemo = true) (w : World) (t : Track)
    (ci : CI w.st w.mods t) (ti : TI t) (op : Op) :
    CI (step cfg w op).1.st (step cfg w op).1.mods (t.step op) := by
  have hwf := wfs_step cfg w op ci.wf
  cases op with
  | register b => exact ci_add_eager cfg hc ci b
  | registerOnImport m f =>
    simp only [step, State.registerOnImport, Track.step] at hwf ⊢
    have hmeq : t.mods.contains m = w.mods.contains m := by rw [ci.modsEq]
    rw [hmeq]
    by_cases hm : w.mods.contains m = true
    · rw [if_pos hm, if_pos hm]
      exact ci_add_eager cfg hc ci f.produces
    · rw [if_neg hm] at hwf ⊢
      rw [if_neg hm]
      have hm' : m ∉ w.mods := by simpa using hm
      -- the new `uninit`
      have key : ∀ (U' : List (String × List Factory)),
          (∀ k fs', dictGet U' k = some fs' →
            (k = m ∧ ∀ g ∈ fs', g = f ∨ ∃ fs0, dictGet w.st.uninit m = some fs0 ∧ g ∈ fs0) ∨
            (k ≠ m ∧ dictGet w.st.uninit k = some fs')) →
          WFs { w.st with uninit := U' } w.mods →
          CI { w.st with uninit := U' } w.mods { t with lazies := t.lazies ++ [(m, f)] } := by
        intro U' hU hw
        refine ⟨ci.modsEq, hw, fun x hx => ?_, fun k fs' g hd hg => ?_, ci.names, ci.memoOK, ci.memoLooked,
          fun en hen k fs' g hk hns hd hg ty hty => ?_⟩
        · rcases ci.backends x hx with he | ⟨mf, hmf, h⟩
          · exact Or.inl he
          · exact Or.inr ⟨mf, List.mem_append_left _ hmf, h⟩
        · rcases hU k fs' hd with ⟨rfl, h⟩ | ⟨_, h⟩
          · rcases h g hg with rfl | ⟨fs0, h0, hg0⟩
            · exact List.mem_append_right _ (List.mem_singleton.2 rfl)
            · exact List.mem_append_left _ (ci.uninit k fs0 g h0 hg0)
          · exact List.mem_append_left _ (ci.uninit k fs' g h hg)
        · rcases hU k fs' hd with ⟨rfl, _⟩ | ⟨_, h⟩
          · exact absurd hk hm'
          · exact ci.memoPending en hen k fs' g hk hns h hg ty hty
      cases hd : dictGet w.st.uninit m with
      | some fs =>
        simp only [hd] at hwf ⊢
        apply key _ _ hwf
        intro k fs' hk
        rw [dictGet_dictSet] at hk
        by_cases hkm : k = m
        · rw [if_pos hkm] at hk
          refine Or.inl ⟨hkm, fun g hg => ?_⟩
          have : fs' = fs ++ [f] := by simpa using hk.symm
          rw [this] at hg
          rcases List.mem_append.1 hg with hg | hg
          · exact Or.inr ⟨fs, hd, hg⟩
          · exact Or.inl (List.mem_singleton.1 hg)
        · rw [if_neg hkm] at hk; exact Or.inr ⟨hkm, hk⟩
      | none =>
        simp only [hd] at hwf ⊢
        apply key _ _ hwf
        intro k fs' hk
        rw [dictGet_append_singleton] at hk
        cases hk0 : dictGet w.st.uninit k with
        | some fs0 =>
          rw [hk0] at hk
          have hkm : k ≠ m := fun e => by rw [e, hd] at hk0; cases hk0
          exact Or.inr ⟨hkm, by rw [← hk]⟩
        | none =>
          rw [hk0] at hk
          by_cases hmk : m = k
          · rw [if_pos hmk] at hk
            refine Or.inl ⟨hmk.symm, fun g hg => Or.inl ?_⟩
            have : fs' = [f] := by simpa using hk.symm
            rw [this] at hg; exact List.mem_singleton.1 hg
          · rw [if_neg hmk] at hk; cases hk
  | importModule m =>
    simp only [step, Track.step] at hwf ⊢
    have hmeq : (if t.mods.contains m then t.mods else t.mods ++ [m]) =
        (if w.mods.contains m then w.mods else w.mods ++ [m]) := by rw [ci.modsEq]
    by_cases hm : w.mods.contains m = true
    · rw [if_pos hm] at hwf hmeq ⊢
      exact ⟨hmeq.symm, hwf, ci.backends, ci.uninit, ci.names, ci.memoOK, ci.memoLooked, ci.memoPending⟩
    · rw [if_neg hm] at hwf hmeq ⊢
      have hm' : m ∉ t.mods := by rw [← ci.modsEq]; simpa using hm
      refine ⟨hmeq.symm, hwf, ci.backends, ci.uninit, ci.names, ci.memoOK, ci.memoLooked,
        fun en hen k fs g hk hns hd hg ty hty => ?_⟩
      rcases List.mem_append.1 hk with hk | hk
      · exact ci.memoPending en hen k fs g hk hns hd hg ty hty
      · rw [List.mem_singleton.1 hk] at hd
        exact ti.exist (m, g) (ci.uninit m fs g hd hg) hm' ty (ci.memoLooked en hen ty hty)
  | get arg tys =>
    simp only [step, Track.step] at hwf ⊢
    cases hg : w.st.get cfg w.mods arg tys with
    | error e =>
      exact ci_memo_ext False tys default ci (SameM.refl _) rfl rfl rfl
        (fun ty hty => List.mem_append_left _ hty) (fun n => n.elim) (fun en hen => Or.inl hen) (fun n => n.elim)
    | ok r =>
      obtain ⟨s', b⟩ := r
      rcases get_state cfg w.st w.mods arg tys ci.wf.2 (ci_discipline cfg ci ti tys) hg with ⟨hs, hmem⟩ | ⟨hs, hmem⟩
      · refine ci_memo_ext (∀ ty ∈ tys, supporting w.st.backends ty ≠ []) tys b ci hs rfl rfl rfl
          (fun ty hty => List.mem_append_left _ hty) (fun _ ty hty => List.mem_append_right _ hty)
          (fun en hen => ?_) (fun n k fs g _ hns hd hgm ty hty => ci_types ci ti (n ty hty) hns hd hgm)
        rcases hmem en hen with h | ⟨h1, h2, h3⟩
        · exact Or.inl h
        · exact Or.inr ⟨h3, h1, h2⟩
      · have hq := flush_quiet cfg w.st w.mods ci.wf.2
        refine ci_memo_ext True tys b (ci_flush cfg ci ti) hs rfl rfl rfl
          (fun ty hty => List.mem_append_left _ hty) (fun _ ty hty => List.mem_append_right _ hty)
          (fun en hen => ?_) (fun _ k fs g hk _ hd _ _ _ => by rw [hq k hk] at hd; cases hd)
        rcases hmem en hen with h | ⟨h1, h2⟩
        · exact Or.inl h
        · exact Or.inr ⟨trivial, h1, h2⟩
  | getByName n =>
    simp only [step, Track.step] at hwf ⊢
    cases hg : w.st.getByName cfg w.mods false n with
    | error e => exact ci
    | ok r =>
      obtain ⟨s', b, ch⟩ := r
      rcases getByName_state cfg w.st w.mods false n hg with ⟨rfl, _⟩ | ⟨_, rfl⟩
      · exact ci
      · exact ci_flush cfg ci ti
  | enter b =>
    exact ⟨ci.modsEq, hwf, ci.backends, ci.uninit, ci.names, ci.memoOK, ci.memoLooked, ci.memoPending⟩
  | exit b =>
    simp only [step, State.exit, Track.step] at hwf ⊢
    cases w.st.stack.getLast? with
    | none => exact ci
    | some top =>
      by_cases hu : (top.uid == b.uid) = true
      · simp only [hu, ↓reduceIte]
        exact ⟨ci.modsEq, wfs_congr rfl rfl ci.wf, ci.backends, ci.uninit, ci.names, ci.memoOK, ci.memoLooked, ci.memoPending⟩
      · simp only [hu]; exact ci

theorem run_ci (cfg : Cfg) (hc : cfg.registerClearsMemo = true) : ∀ (ops : List Op) (w : World) (t : Track),
    CI w.st w.mods t → TI t → disciplined t ops = true →
    CI (runOps cfg w ops).1.st (runOps cfg w ops).1.mods (ops.foldl Track.step t) ∧ TI (ops.foldl Track.step t)
  | [], _, _, ci, ti, _ => ⟨ci, ti⟩
  | op :: ops, w, t, ci, ti, hd => by
    simp only [disciplined, Bool.and_eq_true] at hd
    rw [runOps_cons_fst, List.foldl_cons]
    exact run_ci cfg hc ops _ _ (ci_step cfg hc w t ci ti op) (ti_step ti op hd.1) hd.2

/-! ### the converse: everything registered is where it should be -/

structure RI (s : State) (t : Track) : Prop where
  eager : ∀ x ∈ t.eager, x ∈ s.backends
  flushed : ∀ mf ∈ t.lazies, mf.1 ∈ s.seen → mf.2.produces ∈ s.backends
  waiting : ∀ mf ∈ t.lazies, mf.1 ∉ s.seen → ∃ fs, dictGet s.uninit mf.1 = some fs ∧ mf.2 ∈ fs
  names : ∀ x ∈ s.backends, dictGet s.names x.name = some x

theorem ri_empty (mods : List String) : RI {} { mods := mods } :=
  ⟨fun _ h => (by cases h), fun _ h => (by cases h), fun _ h => (by cases h), fun _ h => (by cases h)⟩

theorem ri_sameM {s s' : State} {t : Track} (h : SameM s s') (ri : RI s t) : RI s' t := by
  refine ⟨?_, ?_, ?_, ?_⟩
  · rw [← h.backends]; exact ri.eager
  · rw [← h.backends, ← h.seen]; exact ri.flushed
  · rw [← h.uninit, ← h.seen]; exact ri.waiting
  · rw [← h.backends, ← h.names]; exact ri.names

theorem dictGet_namesAfter_mem (f : Factory) : ∀ (L : List Factory) (names : List (String × Backend)),
    (f ∈ L ∨ dictGet names f.produces.name = some f.produces) →
    (∀ g ∈ L, g.produces.name = f.produces.name → g.produces = f.produces) →
    dictGet (namesAfter names L) f.produces.name = some f.produces
  | [], _, h, _ => by
    rcases h with h | h
    · cases h
    · exact h
  | g :: L, names, h, hinj => by
    show dictGet (namesAfter (dictSet names g.produces.name g.produces) L) f.produces.name = _
    apply dictGet_namesAfter_mem f L _ _ (fun g' hg' => hinj g' (List.mem_cons_of_mem _ hg'))
    rw [dictGet_dictSet]
    by_cases hn : f.produces.name = g.produces.name
    · rw [if_pos hn, hinj g (List.mem_cons_self ..) hn.symm]; exact Or.inr rfl
    · rw [if_neg hn]
      rcases h with h | h
      · rcases List.mem_cons.1 h with rfl | h
        · exact absurd rfl hn
        · exact Or.inl h
      · exact Or.inr h

theorem ri_add_eager (cfg : Cfg) {s : State} {mods : List String} {t : Track}
    (ci : CI s mods t) (ri : RI s t) (b : Backend) (hf : t.fresh b = true) :
    RI (s.register cfg b) { t with eager := t.eager ++ [b] } := by
  obtain ⟨f1, f2⟩ := fresh_spec hf
  refine ⟨fun x hx => ?_, fun mf hmf hs => List.mem_append_left _ (ri.flushed mf hmf hs), ri.waiting, fun x hx => ?_⟩
  · rcases List.mem_append.1 hx with hx | hx
    · exact List.mem_append_left _ (ri.eager x hx)
    · exact List.mem_append_right _ hx
  · show dictGet (dictSet s.names b.name b) x.name = some x
    rw [dictGet_dictSet]
    rcases List.mem_append.1 (show x ∈ s.backends ++ [b] from hx) with hx | hx
    · have hne : x.name ≠ b.name := by
        rcases ci.backends x hx with he | ⟨mf, hmf, _, rfl⟩
        · exact f1 x he
        · exact f2 mf hmf
      rw [if_neg hne]; exact ri.names x hx
    · rw [List.mem_singleton.1 hx, if_pos rfl]

theorem ri_flush (cfg : Cfg) {s : State} {mods : List String} {t : Track}
    (ci : CI s mods t) (ri : RI s t) (ti : TI t) : RI (s.flush cfg mods) t := by
  obtain ⟨L, hb, hn, hL, _, hun, hseen, hLc⟩ := flush_state cfg s mods
  refine ⟨fun x hx => ?_, fun mf hmf hs => ?_, fun mf hmf hs => ?_, fun x hx => ?_⟩
  · rw [hb]; exact List.mem_append_left _ (ri.eager x hx)
  · rw [hb]
    by_cases hs0 : mf.1 ∈ s.seen
    · exact List.mem_append_left _ (ri.flushed mf hmf hs0)
    · have hm : mf.1 ∈ mods := ((hseen _).1 hs).resolve_left hs0
      obtain ⟨fs, hd, hf⟩ := ri.waiting mf hmf hs0
      exact List.mem_append_right _ (List.mem_map.2 ⟨mf.2, hLc mf.1 hm hs0 fs hd mf.2 hf, rfl⟩)
  · have hs0 : mf.1 ∉ s.seen := fun h => hs ((hseen _).2 (Or.inl h))
    have hm : mf.1 ∉ mods := fun h => hs ((hseen _).2 (Or.inr h))
    obtain ⟨fs, hd, hf⟩ := ri.waiting mf hmf hs0
    refine ⟨fs, ?_, hf⟩
    rw [hun, if_neg (fun h => hm h.1)]; exact hd
  · rw [hb] at hx
    rw [hn]
    rcases List.mem_append.1 hx with hx | hx
    · rw [dictGet_namesAfter_other]
      · exact ri.names x hx
      · intro f hf
        obtain ⟨m, _, hns, fs, hd, hff⟩ := hL f hf
        exact ci_names ci ti hx hns hd hff
    · obtain ⟨f, hf, rfl⟩ := List.mem_map.1 hx
      apply dictGet_namesAfter_mem f L _ (Or.inl hf)
      intro g hg e
      obtain ⟨m, _, _, fs, hd, hff⟩ := hL f hf
      obtain ⟨m', _, _, fs', hd', hgg⟩ := hL g hg
      have := ti.nameLL (m', g) (ci.uninit m' fs' g hd' hgg) (m, f) (ci.uninit m fs f hd hff) e
      rw [(Prod.mk.inj this).2]

theorem registerOnImport_lazy (cfg : Cfg) (s : State) (mods : List String) (m : String) (f : Factory)
    (hm : mods.contains m = false) :
    ∃ U', s.registerOnImport cfg mods m f = { s with uninit := U' } ∧
      ∀ k, dictGet U' k = if k = m then some ((dictGet s.uninit m).getD [] ++ [f]) else dictGet s.uninit k := by
  unfold State.registerOnImport
  rw [hm]
  simp only [Bool.false_eq_true, ↓reduceIte]
  cases hd : dictGet s.uninit m with
  | some fs => exact ⟨_, rfl, fun k => by rw [dictGet_dictSet]; simp⟩
  | none =>
    refine ⟨_, rfl, fun k => ?_⟩
    rw [dictGet_append_singleton]
    by_cases hk : k = m
    · subst hk; rw [hd, if_pos rfl, if_pos rfl]; rfl
    · have : ¬ m = k := fun e => hk e.symm
      rw [if_neg hk, if_neg this]
      cases dictGet s.uninit k <;> rfl

theorem ri_step (cfg : Cfg) (w : World) (t : Track) (ci : CI w.st w.mods t) (ri : RI w.st t) (ti : TI t)
    (op : Op) (ok : t.ok op = true) : RI (step cfg w op).1.st (t.step op) := by
  cases op with
  | register b =>
    simp only [Track.ok, Bool.and_eq_true] at ok
    exact ri_add_eager cfg ci ri b ok.1
  | registerOnImport m f =>
    simp only [Track.ok, Bool.and_eq_true] at ok
    simp only [step, Track.step]
    have hmeq : t.mods.contains m = w.mods.contains m := by rw [ci.modsEq]
    rw [hmeq]
    by_cases hm : w.mods.contains m = true
    · rw [if_pos hm]
      have : w.st.registerOnImport cfg w.mods m f = w.st.register cfg f.produces := by
        unfold State.registerOnImport; rw [if_pos hm]; rfl
      rw [this]
      exact ri_add_eager cfg ci ri f.produces ok.1
    · rw [if_neg hm]
      have hm0 : w.mods.contains m = false := by simpa using hm
      have hm' : m ∉ w.mods := by simpa using hm
      obtain ⟨U', hU, hget⟩ := registerOnImport_lazy cfg w.st w.mods m f hm0
      rw [hU]
      refine ⟨ri.eager, fun mf hmf hs => ?_, fun mf hmf hs => ?_, ri.names⟩
      · rcases List.mem_append.1 hmf with hmf | hmf
        · exact ri.flushed mf hmf hs
        · rw [List.mem_singleton.1 hmf] at hs
          exact absurd (ci.wf.1 m hs) hm'
      · show ∃ fs, dictGet U' mf.1 = some fs ∧ mf.2 ∈ fs
        rw [hget]
        rcases List.mem_append.1 hmf with hmf | hmf
        · obtain ⟨fs, hd, hf⟩ := ri.waiting mf hmf hs
          by_cases hk : mf.1 = m
          · rw [if_pos hk]
            refine ⟨_, rfl, List.mem_append_left _ ?_⟩
            rw [← hk, hd]; exact hf
          · rw [if_neg hk]; exact ⟨fs, hd, hf⟩
        · rw [List.mem_singleton.1 hmf, if_pos rfl]
          exact ⟨_, rfl, List.mem_append_right _ (List.mem_singleton.2 rfl)⟩
  | importModule m => exact ⟨ri.eager, ri.flushed, ri.waiting, ri.names⟩
  | get arg tys =>
    simp only [step, Track.step]
    cases hg : w.st.get cfg w.mods arg tys with
    | error e => exact ⟨ri.eager, ri.flushed, ri.waiting, ri.names⟩
    | ok r =>
      obtain ⟨s', b⟩ := r
      rcases get_state cfg w.st w.mods arg tys ci.wf.2 (ci_discipline cfg ci ti tys) hg with ⟨hs, _⟩ | ⟨hs, _⟩
      · exact ri_sameM hs ⟨ri.eager, ri.flushed, ri.waiting, ri.names⟩
      · have := ri_flush cfg ci ri ti
        exact ri_sameM hs ⟨this.eager, this.flushed, this.waiting, this.names⟩
  | getByName n =>
    simp only [step, Track.step]
    cases hg : w.st.getByName cfg w.mods false n with
    | error e => exact ri
    | ok r =>
      obtain ⟨s', b, ch⟩ := r
      rcases getByName_state cfg w.st w.mods false n hg with ⟨rfl, _⟩ | ⟨_, rfl⟩
      · exact ri
      · exact ri_flush cfg ci ri ti
  | enter b => exact ⟨ri.eager, ri.flushed, ri.waiting, ri.names⟩
  | exit b =>
    simp only [step, State.exit, Track.step]
    cases w.st.stack.getLast? with
    | none => exact ri
    | some top =>
      by_cases hu : (top.uid == b.uid) = true
      · simp only [hu, ↓reduceIte]; exact ⟨ri.eager, ri.flushed, ri.waiting, ri.names⟩
      · simp only [hu]; exact ri

/-- The `with` stack follows the specification state, whatever the lookups do. -/
theorem stack_step (cfg : Cfg) (w : World) (t : Track) (ci : CI w.st w.mods t) (ti : TI t) (σ : State)
    (hst : w.st.stack = σ.stack) (op : Op) : (step cfg w op).1.st.stack = (specStep σ op).stack := by
  cases op with
  | register b => exact hst
  | registerOnImport m f =>
    simp only [step, specStep, State.registerOnImport]
    split
    · exact hst
    · split <;> exact hst
  | importModule m => exact hst
  | get arg tys =>
    simp only [step, specStep]
    cases hg : w.st.get cfg w.mods arg tys with
    | error e => exact hst
    | ok r =>
      obtain ⟨s', b⟩ := r
      rcases get_state cfg w.st w.mods arg tys ci.wf.2 (ci_discipline cfg ci ti tys) hg with ⟨hs, _⟩ | ⟨hs, _⟩
      · rw [← hst]; exact hs.stack.symm
      · rw [← hst, ← flush_stack cfg w.st w.mods]; exact hs.stack.symm
  | getByName n =>
    simp only [step, specStep]
    cases hg : w.st.getByName cfg w.mods false n with
    | error e => exact hst
    | ok r =>
      obtain ⟨s', b, ch⟩ := r
      rcases getByName_state cfg w.st w.mods false n hg with ⟨rfl, _⟩ | ⟨_, rfl⟩
      · exact hst
      · rw [← hst]; exact flush_stack cfg w.st w.mods
  | enter b =>
    show w.st.stack ++ [b] = σ.stack ++ [b]
    rw [hst]
  | exit b =>
    simp only [step, specStep, State.exit, hst]
    cases σ.stack.getLast? with
    | none => exact hst
    | some top =>
      by_cases hu : (top.uid == b.uid) = true
      · simp only [hu, ↓reduceIte]
      · simp only [hu]; exact hst

theorem run_all (cfg : Cfg) (hc : cfg.registerClearsMemo = true) : ∀ (ops : List Op) (w : World) (t : Track) (σ : State),
    CI w.st w.mods t → RI w.st t → TI t → w.st.stack = σ.stack → disciplined t ops = true →
    CI (runOps cfg w ops).1.st (runOps cfg w ops).1.mods (ops.foldl Track.step t) ∧
    RI (runOps cfg w ops).1.st (ops.foldl Track.step t) ∧ TI (ops.foldl Track.step t) ∧
    (runOps cfg w ops).1.st.stack = (ops.foldl specStep σ).stack
  | [], _, _, _, ci, ri, ti, hst, _ => ⟨ci, ri, ti, hst⟩
  | op :: ops, w, t, σ, ci, ri, ti, hst, hd => by
    simp only [disciplined, Bool.and_eq_true] at hd
    rw [runOps_cons_fst, List.foldl_cons, List.foldl_cons]
    exact run_all cfg hc ops _ _ _ (ci_step cfg hc w t ci ti op) (ri_step cfg w t ci ri ti op hd.1)
      (ti_step ti op hd.1) (stack_step cfg w t ci ti σ hst op) hd.2

/-! ### the effective state, syntactically -/

theorem effective_mem (cfg : Cfg) {s : State} {mods : List String} {t : Track}
    (ci : CI s mods t) (ri : RI s t) (ti : TI t) (x : Backend) :
    x ∈ (s.flush cfg mods).backends ↔ x ∈ t.effective := by
  have cie := ci_flush cfg ci ti
  have rie := ri_flush cfg ci ri ti
  obtain ⟨_, _, _, _, _, _, hseen, _⟩ := flush_state cfg s mods
  have hsm : ∀ m, m ∈ (s.flush cfg mods).seen ↔ m ∈ t.mods := by
    intro m; rw [hseen, ← ci.modsEq]
    exact ⟨fun h => h.elim (ci.wf.1 m) id, Or.inr⟩
  unfold Track.effective
  rw [List.mem_append, List.mem_map]
  constructor
  · intro hx
    rcases cie.backends x hx with he | ⟨mf, hmf, hs, rfl⟩
    · exact Or.inl he
    · exact Or.inr ⟨mf, List.mem_filter.2 ⟨hmf, by simpa using (hsm _).1 hs⟩, rfl⟩
  · rintro (he | ⟨mf, hmf, rfl⟩)
    · exact rie.eager x he
    · obtain ⟨hmf, hc⟩ := List.mem_filter.1 hmf
      exact rie.flushed mf hmf ((hsm _).2 (by simpa using hc))

theorem effective_names (cfg : Cfg) {s : State} {mods : List String} {t : Track}
    (ci : CI s mods t) (ri : RI s t) (ti : TI t) (n : String) (x : Backend) :
    dictGet (s.flush cfg mods).names n = some x ↔ x ∈ (s.flush cfg mods).backends ∧ x.name = n := by
  have cie := ci_flush cfg ci ti
  have rie := ri_flush cfg ci ri ti
  constructor
  · intro h
    obtain ⟨kv, hkv, hk⟩ := exists_key_of_dictGet n x _ h
    obtain ⟨x', hx', hn'⟩ := cie.names kv hkv
    have := rie.names x' hx'
    rw [hn', hk, h] at this
    cases this
    exact ⟨hx', hn'.trans hk⟩
  · rintro ⟨hx, rfl⟩
    exact rie.names x hx

end Einx.Registry
