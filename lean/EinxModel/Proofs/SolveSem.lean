import EinxModel.Solve.Shorthand
import EinxModel.Proofs.Solve
/-!
Helper layer for the stage-2/3 shorthand theorems (`Props/C07Stage2.lean`): a path-free reading of
the value system `expand` generates.

`evalItems ρ σ idx e` – the root dimensions of `e` under counts `ρ` and axis lengths `σ`;
`axesOf` – the expanded axis occurrences; `nodeValues` – the values of the flattened /
concatenated nodes; `nodeVals` – the same values keyed by the variable `expand` gives the node.

`expand_sound` / `expand_complete`: an assignment satisfies the node equations of `expand` iff every
node variable holds the value of its node (given the axis variables), and then the root items
evaluate to `evalItems`.
-/
namespace Einx.Solve

def holds (σ : Var → Nat) (q : Eqn) : Prop := evalPoly σ q.lhs = evalPoly σ q.rhs

def prodL : List Nat → Nat
  | [] => 1
  | x :: xs => x * prodL xs

def sumL : List Nat → Nat
  | [] => 0
  | x :: xs => x + sumL xs

mutual
def evalItems (ρ σ : Var → Nat) (idx : List Nat) : Expr → List Nat
  | .axis n => [σ (n ++ idxSuffix idx)]
  | .num v => [v]
  | .brackets e => evalItems ρ σ idx e
  | .flat e => [prodL (evalItems ρ σ idx e)]
  | .concat cs => [sumL (evalItemsL ρ σ idx cs)]
  | .ellipsis id e => (List.range (ρ id)).flatMap (fun i => evalItems ρ σ (idx ++ [i]) e)
  | .list cs => evalItemsL ρ σ idx cs
def evalItemsL (ρ σ : Var → Nat) (idx : List Nat) : List Expr → List Nat
  | [] => []
  | c :: cs => evalItems ρ σ idx c ++ evalItemsL ρ σ idx cs
end

mutual
def axesOf (ρ : Var → Nat) (idx : List Nat) : Expr → List (String × List Nat × Var)
  | .axis n => [(n, idx, n ++ idxSuffix idx)]
  | .num _ => []
  | .brackets e => axesOf ρ idx e
  | .flat e => axesOf ρ idx e
  | .concat cs => axesOfL ρ idx cs
  | .ellipsis id e => (List.range (ρ id)).flatMap (fun i => axesOf ρ (idx ++ [i]) e)
  | .list cs => axesOfL ρ idx cs
def axesOfL (ρ : Var → Nat) (idx : List Nat) : List Expr → List (String × List Nat × Var)
  | [] => []
  | c :: cs => axesOf ρ idx c ++ axesOfL ρ idx cs
end

mutual
def nodeValues (ρ σ : Var → Nat) (idx : List Nat) : Expr → List Nat
  | .axis _ => []
  | .num _ => []
  | .brackets e => nodeValues ρ σ idx e
  | .flat e => prodL (evalItems ρ σ idx e) :: nodeValues ρ σ idx e
  | .concat cs => sumL (evalItemsL ρ σ idx cs) :: nodeValuesL ρ σ idx cs
  | .ellipsis id e => (List.range (ρ id)).flatMap (fun i => nodeValues ρ σ (idx ++ [i]) e)
  | .list cs => nodeValuesL ρ σ idx cs
def nodeValuesL (ρ σ : Var → Nat) (idx : List Nat) : List Expr → List Nat
  | [] => []
  | c :: cs => nodeValues ρ σ idx c ++ nodeValuesL ρ σ idx cs
end

mutual
/-- node variable ↦ value of the node -/
def nodeVals (ρ σ : Var → Nat) (path : String) (idx : List Nat) : Expr → List (Var × Nat)
  | .axis _ => []
  | .num _ => []
  | .brackets e => nodeVals ρ σ path idx e
  | .flat e => (path ++ idxSuffix idx, prodL (evalItems ρ σ idx e)) :: nodeVals ρ σ (path ++ "(") idx e
  | .concat cs => (path ++ idxSuffix idx, sumL (evalItemsL ρ σ idx cs)) :: nodeValsL ρ σ (path ++ "+") idx 0 cs
  | .ellipsis id e => (List.range (ρ id)).flatMap (fun i => nodeVals ρ σ path (idx ++ [i]) e)
  | .list cs => nodeValsL ρ σ path idx 0 cs
def nodeValsL (ρ σ : Var → Nat) (path : String) (idx : List Nat) (k : Nat) : List Expr → List (Var × Nat)
  | [] => []
  | c :: cs => nodeVals ρ σ (path ++ "/" ++ toString k) idx c ++ nodeValsL ρ σ path idx (k + 1) cs
end

/-! ### `Gen` plumbing -/

theorem Gen.concat_items (gs : List Gen) : (Gen.concat gs).items = gs.flatMap (·.items) := by
  induction gs with
  | nil => rfl
  | cons g gs ih => simp [Gen.concat, Gen.append, ih]

theorem Gen.concat_eqns (gs : List Gen) : (Gen.concat gs).eqns = gs.flatMap (·.eqns) := by
  induction gs with
  | nil => rfl
  | cons g gs ih => simp [Gen.concat, Gen.append, ih]

theorem Gen.concat_vars (gs : List Gen) : (Gen.concat gs).vars = gs.flatMap (·.vars) := by
  induction gs with
  | nil => rfl
  | cons g gs ih => simp [Gen.concat, Gen.append, ih]

theorem Gen.concat_axes (gs : List Gen) : (Gen.concat gs).axes = gs.flatMap (·.axes) := by
  induction gs with
  | nil => rfl
  | cons g gs ih => simp [Gen.concat, Gen.append, ih]

theorem evalMono_termMono (σ : Var → Nat) (t : Term) : evalMono σ (termMono t) = tval σ t := by
  cases t <;> simp [termMono, evalMono, prodVars, tval]

theorem evalMono_prodMono (σ : Var → Nat) (ts : List Term) :
    evalMono σ (prodMono ts) = prodL (ts.map (tval σ)) := by
  induction ts with
  | nil => simp [prodMono, evalMono, prodVars, prodL]
  | cons t ts ih =>
    cases t with
    | const n =>
      simp only [prodMono, List.map, prodL, tval]
      simp only [evalMono] at ih ⊢
      rw [Nat.mul_assoc, ih]
    | var x =>
      simp only [prodMono, List.map, prodL, tval]
      simp only [evalMono, prodVars] at ih ⊢
      rw [Nat.mul_left_comm, ih]

theorem evalPoly_termMonos (σ : Var → Nat) (ts : List Term) :
    evalPoly σ (ts.map termMono) = sumL (ts.map (tval σ)) := by
  induction ts with
  | nil => rfl
  | cons t ts ih => simp only [List.map, evalPoly, sumL, evalMono_termMono, ih]

theorem evalPoly_var (σ : Var → Nat) (x : Var) : evalPoly σ [⟨1, [x]⟩] = σ x := by
  simp [evalPoly, evalMono, prodVars]

theorem evalMono_var (σ : Var → Nat) (x : Var) : evalMono σ ⟨1, [x]⟩ = σ x := by
  simp [evalMono, prodVars]

theorem evalPoly_single (σ : Var → Nat) (m : Mono) : evalPoly σ [m] = evalMono σ m := by
  simp [evalPoly]

theorem idxSuffix_snoc (idx : List Nat) (i : Nat) :
    idxSuffix (idx ++ [i]) = idxSuffix idx ++ ("." ++ toString i) := by
  simp [idxSuffix, String.join, List.foldl_append]

theorem idxSuffix_nil : idxSuffix [] = "" := rfl

/-! ### `expand` against the path-free functions -/

mutual
theorem expand_axes (ρ : Var → Nat) : ∀ (e : Expr) (path : String) (idx : List Nat),
    (expand ρ path idx e).axes = axesOf ρ idx e
  | .axis _, _, _ => by simp [expand, axesOf]
  | .num _, _, _ => by simp [expand, axesOf]
  | .brackets e, path, idx => by simp only [expand, axesOf]; exact expand_axes ρ e path idx
  | .flat e, path, idx => by simp only [expand, axesOf]; exact expand_axes ρ e _ idx
  | .concat cs, path, idx => by simp only [expand, axesOf]; exact expandL_axes ρ cs _ idx 0
  | .ellipsis id e, path, idx => by
    simp only [expand, axesOf, Gen.concat_axes, List.flatMap_map]
    have ih := fun i => expand_axes ρ e path (idx ++ [i])
    simp only [ih]
  | .list cs, path, idx => by simp only [expand, axesOf]; exact expandL_axes ρ cs path idx 0
theorem expandL_axes (ρ : Var → Nat) : ∀ (cs : List Expr) (path : String) (idx : List Nat) (k : Nat),
    (expandL ρ path idx k cs).axes = axesOfL ρ idx cs
  | [], _, _, _ => by simp [expandL, axesOfL]
  | c :: cs, path, idx, k => by
    simp only [expandL, axesOfL, Gen.append]
    rw [expand_axes ρ c _ idx, expandL_axes ρ cs path idx (k + 1)]
end

theorem flatMap_congr' {α β : Type} {l : List α} {f g : α → List β} (h : ∀ a ∈ l, f a = g a) :
    l.flatMap f = l.flatMap g := by
  induction l with
  | nil => rfl
  | cons a l ih =>
    simp only [List.flatMap_cons]
    rw [h a List.mem_cons_self, ih (fun b hb => h b (List.mem_cons_of_mem _ hb))]

/-! ### Node equations ⇔ node table -/

mutual
/-- (i) With the node table respected and the axis variables as in `τ`, the root items evaluate to
`evalItems … τ`. -/
theorem expand_items (ρ τ σ : Var → Nat) : ∀ (e : Expr) (path : String) (idx : List Nat),
    (∀ p ∈ nodeVals ρ τ path idx e, σ p.1 = p.2) →
    (∀ a ∈ axesOf ρ idx e, σ a.2.2 = τ a.2.2) →
    (expand ρ path idx e).items.map (tval σ) = evalItems ρ τ idx e
  | .axis n, path, idx, _, hA => by
    simp only [expand, evalItems, List.map, tval]
    rw [hA (n, idx, n ++ idxSuffix idx) (by simp [axesOf])]
  | .num _, _, _, _, _ => by simp [expand, evalItems, tval]
  | .brackets e, path, idx, hT, hA => by
    simp only [expand, evalItems]
    exact expand_items ρ τ σ e path idx (by simpa only [nodeVals] using hT) (by simpa only [axesOf] using hA)
  | .flat e, path, idx, hT, _ => by
    simp only [expand, evalItems, List.map, tval]
    rw [hT (path ++ idxSuffix idx, prodL (evalItems ρ τ idx e)) (by simp [nodeVals])]
  | .concat cs, path, idx, hT, _ => by
    simp only [expand, evalItems, List.map, tval]
    rw [hT (path ++ idxSuffix idx, sumL (evalItemsL ρ τ idx cs)) (by simp [nodeVals])]
  | .ellipsis id e, path, idx, hT, hA => by
    simp only [expand, evalItems, Gen.concat_items, List.flatMap_map, List.map_flatMap]
    apply flatMap_congr'
    intro i hi
    simp only [nodeVals, List.forall_mem_flatMap] at hT
    simp only [axesOf, List.forall_mem_flatMap] at hA
    exact expand_items ρ τ σ e path (idx ++ [i]) (hT i hi) (hA i hi)
  | .list cs, path, idx, hT, hA => by
    simp only [expand, evalItems]
    exact expandL_items ρ τ σ cs path idx 0 (by simpa only [nodeVals] using hT) (by simpa only [axesOf] using hA)
theorem expandL_items (ρ τ σ : Var → Nat) : ∀ (cs : List Expr) (path : String) (idx : List Nat) (k : Nat),
    (∀ p ∈ nodeValsL ρ τ path idx k cs, σ p.1 = p.2) →
    (∀ a ∈ axesOfL ρ idx cs, σ a.2.2 = τ a.2.2) →
    (expandL ρ path idx k cs).items.map (tval σ) = evalItemsL ρ τ idx cs
  | [], _, _, _, _, _ => by simp [expandL, evalItemsL]
  | c :: cs, path, idx, k, hT, hA => by
    simp only [nodeValsL, List.forall_mem_append] at hT
    simp only [axesOfL, List.forall_mem_append] at hA
    simp only [expandL, evalItemsL, Gen.append, List.map_append]
    rw [expand_items ρ τ σ c _ idx hT.1 hA.1, expandL_items ρ τ σ cs path idx (k + 1) hT.2 hA.2]
end

mutual
/-- (ii) node table respected ⇒ node equations hold -/
theorem expand_complete (ρ τ σ : Var → Nat) : ∀ (e : Expr) (path : String) (idx : List Nat),
    (∀ p ∈ nodeVals ρ τ path idx e, σ p.1 = p.2) →
    (∀ a ∈ axesOf ρ idx e, σ a.2.2 = τ a.2.2) →
    ∀ q ∈ (expand ρ path idx e).eqns, holds σ q
  | .axis _, _, _, _, _ => by simp [expand]
  | .num _, _, _, _, _ => by simp [expand]
  | .brackets e, path, idx, hT, hA => by
    simp only [expand]
    exact expand_complete ρ τ σ e path idx (by simpa only [nodeVals] using hT) (by simpa only [axesOf] using hA)
  | .flat e, path, idx, hT, hA => by
    simp only [nodeVals, List.forall_mem_cons] at hT
    simp only [axesOf] at hA
    simp only [expand, List.forall_mem_cons]
    refine ⟨?_, expand_complete ρ τ σ e _ idx hT.2 hA⟩
    simp only [holds, evalPoly_single, evalMono_var, evalMono_prodMono]
    rw [expand_items ρ τ σ e _ idx hT.2 hA]; exact hT.1
  | .concat cs, path, idx, hT, hA => by
    simp only [nodeVals, List.forall_mem_cons] at hT
    simp only [axesOf] at hA
    simp only [expand, List.forall_mem_cons]
    refine ⟨?_, expandL_complete ρ τ σ cs _ idx 0 hT.2 hA⟩
    simp only [holds, evalPoly_var, evalPoly_termMonos]
    rw [expandL_items ρ τ σ cs _ idx 0 hT.2 hA]; exact hT.1
  | .ellipsis id e, path, idx, hT, hA => by
    simp only [nodeVals, List.forall_mem_flatMap] at hT
    simp only [axesOf, List.forall_mem_flatMap] at hA
    simp only [expand, Gen.concat_eqns, List.flatMap_map, List.forall_mem_flatMap]
    intro i hi
    exact expand_complete ρ τ σ e path (idx ++ [i]) (hT i hi) (hA i hi)
  | .list cs, path, idx, hT, hA => by
    simp only [expand]
    exact expandL_complete ρ τ σ cs path idx 0 (by simpa only [nodeVals] using hT) (by simpa only [axesOf] using hA)
theorem expandL_complete (ρ τ σ : Var → Nat) : ∀ (cs : List Expr) (path : String) (idx : List Nat) (k : Nat),
    (∀ p ∈ nodeValsL ρ τ path idx k cs, σ p.1 = p.2) →
    (∀ a ∈ axesOfL ρ idx cs, σ a.2.2 = τ a.2.2) →
    ∀ q ∈ (expandL ρ path idx k cs).eqns, holds σ q
  | [], _, _, _, _, _ => by simp [expandL]
  | c :: cs, path, idx, k, hT, hA => by
    simp only [nodeValsL, List.forall_mem_append] at hT
    simp only [axesOfL, List.forall_mem_append] at hA
    simp only [expandL, Gen.append, List.forall_mem_append]
    exact ⟨expand_complete ρ τ σ c _ idx hT.1 hA.1, expandL_complete ρ τ σ cs path idx (k + 1) hT.2 hA.2⟩
end

mutual
/-- (iii) node equations hold ⇒ every node variable carries the value of its node -/
theorem expand_sound (ρ σ : Var → Nat) : ∀ (e : Expr) (path : String) (idx : List Nat),
    (∀ q ∈ (expand ρ path idx e).eqns, holds σ q) →
    ∀ p ∈ nodeVals ρ σ path idx e, σ p.1 = p.2
  | .axis _, _, _, _ => by simp [nodeVals]
  | .num _, _, _, _ => by simp [nodeVals]
  | .brackets e, path, idx, hE => by
    simp only [nodeVals]
    exact expand_sound ρ σ e path idx (by simpa only [expand] using hE)
  | .flat e, path, idx, hE => by
    simp only [expand, List.forall_mem_cons] at hE
    simp only [nodeVals, List.forall_mem_cons]
    have hT := expand_sound ρ σ e _ idx hE.2
    refine ⟨?_, hT⟩
    have h1 := hE.1
    simp only [holds, evalPoly_single, evalMono_var, evalMono_prodMono] at h1
    rw [h1, expand_items ρ σ σ e _ idx hT (fun _ _ => rfl)]
  | .concat cs, path, idx, hE => by
    simp only [expand, List.forall_mem_cons] at hE
    simp only [nodeVals, List.forall_mem_cons]
    have hT := expandL_sound ρ σ cs _ idx 0 hE.2
    refine ⟨?_, hT⟩
    have h1 := hE.1
    simp only [holds, evalPoly_var, evalPoly_termMonos] at h1
    rw [h1, expandL_items ρ σ σ cs _ idx 0 hT (fun _ _ => rfl)]
  | .ellipsis id e, path, idx, hE => by
    simp only [expand, Gen.concat_eqns, List.flatMap_map, List.forall_mem_flatMap] at hE
    simp only [nodeVals, List.forall_mem_flatMap]
    intro i hi
    exact expand_sound ρ σ e path (idx ++ [i]) (hE i hi)
  | .list cs, path, idx, hE => by
    simp only [nodeVals]
    exact expandL_sound ρ σ cs path idx 0 (by simpa only [expand] using hE)
theorem expandL_sound (ρ σ : Var → Nat) : ∀ (cs : List Expr) (path : String) (idx : List Nat) (k : Nat),
    (∀ q ∈ (expandL ρ path idx k cs).eqns, holds σ q) →
    ∀ p ∈ nodeValsL ρ σ path idx k cs, σ p.1 = p.2
  | [], _, _, _, _ => by simp [nodeValsL]
  | c :: cs, path, idx, k, hE => by
    simp only [expandL, Gen.append, List.forall_mem_append] at hE
    simp only [nodeValsL, List.forall_mem_append]
    exact ⟨expand_sound ρ σ c _ idx hE.1, expandL_sound ρ σ cs path idx (k + 1) hE.2⟩
end

/-! ### Keys, values, variables -/

mutual
theorem nodeVals_keys (ρ σ : Var → Nat) : ∀ (e : Expr) (path : String) (idx : List Nat),
    (nodeVals ρ σ path idx e).map (·.1) = nodeKeys ρ path idx e
  | .axis _, _, _ => by simp [nodeVals, nodeKeys]
  | .num _, _, _ => by simp [nodeVals, nodeKeys]
  | .brackets e, path, idx => by simp only [nodeVals, nodeKeys]; exact nodeVals_keys ρ σ e path idx
  | .flat e, path, idx => by
    simp only [nodeVals, nodeKeys, List.map_cons]; rw [nodeVals_keys ρ σ e _ idx]
  | .concat cs, path, idx => by
    simp only [nodeVals, nodeKeys, List.map_cons]; rw [nodeValsL_keys ρ σ cs _ idx 0]
  | .ellipsis id e, path, idx => by
    simp only [nodeVals, nodeKeys, List.map_flatMap]
    have ih := fun i => nodeVals_keys ρ σ e path (idx ++ [i])
    simp only [ih]
  | .list cs, path, idx => by simp only [nodeVals, nodeKeys]; exact nodeValsL_keys ρ σ cs path idx 0
theorem nodeValsL_keys (ρ σ : Var → Nat) : ∀ (cs : List Expr) (path : String) (idx : List Nat) (k : Nat),
    (nodeValsL ρ σ path idx k cs).map (·.1) = nodeKeysL ρ path idx k cs
  | [], _, _, _ => by simp [nodeValsL, nodeKeysL]
  | c :: cs, path, idx, k => by
    simp only [nodeValsL, nodeKeysL, List.map_append]
    rw [nodeVals_keys ρ σ c _ idx, nodeValsL_keys ρ σ cs path idx (k + 1)]
end

mutual
theorem nodeVals_values (ρ σ : Var → Nat) : ∀ (e : Expr) (path : String) (idx : List Nat),
    (nodeVals ρ σ path idx e).map (·.2) = nodeValues ρ σ idx e
  | .axis _, _, _ => by simp [nodeVals, nodeValues]
  | .num _, _, _ => by simp [nodeVals, nodeValues]
  | .brackets e, path, idx => by simp only [nodeVals, nodeValues]; exact nodeVals_values ρ σ e path idx
  | .flat e, path, idx => by
    simp only [nodeVals, nodeValues, List.map_cons]; rw [nodeVals_values ρ σ e _ idx]
  | .concat cs, path, idx => by
    simp only [nodeVals, nodeValues, List.map_cons]; rw [nodeValsL_values ρ σ cs _ idx 0]
  | .ellipsis id e, path, idx => by
    simp only [nodeVals, nodeValues, List.map_flatMap]
    have ih := fun i => nodeVals_values ρ σ e path (idx ++ [i])
    simp only [ih]
  | .list cs, path, idx => by simp only [nodeVals, nodeValues]; exact nodeValsL_values ρ σ cs path idx 0
theorem nodeValsL_values (ρ σ : Var → Nat) : ∀ (cs : List Expr) (path : String) (idx : List Nat) (k : Nat),
    (nodeValsL ρ σ path idx k cs).map (·.2) = nodeValuesL ρ σ idx cs
  | [], _, _, _ => by simp [nodeValsL, nodeValuesL]
  | c :: cs, path, idx, k => by
    simp only [nodeValsL, nodeValuesL, List.map_append]
    rw [nodeVals_values ρ σ c _ idx, nodeValsL_values ρ σ cs path idx (k + 1)]
end

mutual
/-- The declared variables of `expand` are the axis variables and the node keys. -/
theorem expand_vars (ρ : Var → Nat) (x : Var) : ∀ (e : Expr) (path : String) (idx : List Nat),
    x ∈ (expand ρ path idx e).vars ↔ x ∈ (axesOf ρ idx e).map (·.2.2) ∨ x ∈ nodeKeys ρ path idx e
  | .axis _, _, _ => by simp [expand, axesOf, nodeKeys]
  | .num _, _, _ => by simp [expand, axesOf, nodeKeys]
  | .brackets e, path, idx => by simp only [expand, axesOf, nodeKeys]; exact expand_vars ρ x e path idx
  | .flat e, path, idx => by
    simp only [expand, axesOf, nodeKeys, List.mem_cons]
    rw [expand_vars ρ x e _ idx]
    constructor
    · rintro (h | h | h)
      · exact Or.inr (Or.inl h)
      · exact Or.inl h
      · exact Or.inr (Or.inr h)
    · rintro (h | h | h)
      · exact Or.inr (Or.inl h)
      · exact Or.inl h
      · exact Or.inr (Or.inr h)
  | .concat cs, path, idx => by
    simp only [expand, axesOf, nodeKeys, List.mem_cons]
    rw [expandL_vars ρ x cs _ idx 0]
    constructor
    · rintro (h | h | h)
      · exact Or.inr (Or.inl h)
      · exact Or.inl h
      · exact Or.inr (Or.inr h)
    · rintro (h | h | h)
      · exact Or.inr (Or.inl h)
      · exact Or.inl h
      · exact Or.inr (Or.inr h)
  | .ellipsis id e, path, idx => by
    simp only [expand, axesOf, nodeKeys, Gen.concat_vars, List.flatMap_map, List.mem_flatMap, List.map_flatMap]
    have ih := fun i => expand_vars ρ x e path (idx ++ [i])
    simp only [ih]
    constructor
    · rintro ⟨i, hi, h | h⟩
      · exact Or.inl ⟨i, hi, h⟩
      · exact Or.inr ⟨i, hi, h⟩
    · rintro (⟨i, hi, h⟩ | ⟨i, hi, h⟩)
      · exact ⟨i, hi, Or.inl h⟩
      · exact ⟨i, hi, Or.inr h⟩
  | .list cs, path, idx => by simp only [expand, axesOf, nodeKeys]; exact expandL_vars ρ x cs path idx 0
theorem expandL_vars (ρ : Var → Nat) (x : Var) : ∀ (cs : List Expr) (path : String) (idx : List Nat) (k : Nat),
    x ∈ (expandL ρ path idx k cs).vars ↔ x ∈ (axesOfL ρ idx cs).map (·.2.2) ∨ x ∈ nodeKeysL ρ path idx k cs
  | [], _, _, _ => by simp [expandL, axesOfL, nodeKeysL]
  | c :: cs, path, idx, k => by
    simp only [expandL, axesOfL, nodeKeysL, Gen.append, List.mem_append, List.map_append]
    rw [expand_vars ρ x c _ idx, expandL_vars ρ x cs path idx (k + 1)]
    constructor
    · rintro ((h | h) | (h | h))
      · exact Or.inl (Or.inl h)
      · exact Or.inr (Or.inl h)
      · exact Or.inl (Or.inr h)
      · exact Or.inr (Or.inr h)
    · rintro ((h | h) | (h | h))
      · exact Or.inl (Or.inl h)
      · exact Or.inr (Or.inl h)
      · exact Or.inl (Or.inr h)
      · exact Or.inr (Or.inr h)
end

/-! ### Only the axis variables matter; only the counts of the ellipses present matter -/

mutual
theorem evalItems_congr (ρ σ τ : Var → Nat) : ∀ (e : Expr) (idx : List Nat),
    (∀ a ∈ axesOf ρ idx e, σ a.2.2 = τ a.2.2) → evalItems ρ σ idx e = evalItems ρ τ idx e
  | .axis n, idx, h => by
    simp only [evalItems]; rw [h (n, idx, n ++ idxSuffix idx) (by simp [axesOf])]
  | .num _, _, _ => by simp [evalItems]
  | .brackets e, idx, h => by
    simp only [evalItems]; exact evalItems_congr ρ σ τ e idx (by simpa only [axesOf] using h)
  | .flat e, idx, h => by
    simp only [evalItems]; rw [evalItems_congr ρ σ τ e idx (by simpa only [axesOf] using h)]
  | .concat cs, idx, h => by
    simp only [evalItems]; rw [evalItemsL_congr ρ σ τ cs idx (by simpa only [axesOf] using h)]
  | .ellipsis id e, idx, h => by
    simp only [evalItems]
    simp only [axesOf, List.forall_mem_flatMap] at h
    exact flatMap_congr' (fun i hi => evalItems_congr ρ σ τ e (idx ++ [i]) (h i hi))
  | .list cs, idx, h => by
    simp only [evalItems]; exact evalItemsL_congr ρ σ τ cs idx (by simpa only [axesOf] using h)
theorem evalItemsL_congr (ρ σ τ : Var → Nat) : ∀ (cs : List Expr) (idx : List Nat),
    (∀ a ∈ axesOfL ρ idx cs, σ a.2.2 = τ a.2.2) → evalItemsL ρ σ idx cs = evalItemsL ρ τ idx cs
  | [], _, _ => by simp [evalItemsL]
  | c :: cs, idx, h => by
    simp only [axesOfL, List.forall_mem_append] at h
    simp only [evalItemsL]
    rw [evalItems_congr ρ σ τ c idx h.1, evalItemsL_congr ρ σ τ cs idx h.2]
end

mutual
theorem nodeValues_congr (ρ σ τ : Var → Nat) : ∀ (e : Expr) (idx : List Nat),
    (∀ a ∈ axesOf ρ idx e, σ a.2.2 = τ a.2.2) → nodeValues ρ σ idx e = nodeValues ρ τ idx e
  | .axis _, _, _ => by simp [nodeValues]
  | .num _, _, _ => by simp [nodeValues]
  | .brackets e, idx, h => by
    simp only [nodeValues]; exact nodeValues_congr ρ σ τ e idx (by simpa only [axesOf] using h)
  | .flat e, idx, h => by
    simp only [axesOf] at h
    simp only [nodeValues]; rw [nodeValues_congr ρ σ τ e idx h, evalItems_congr ρ σ τ e idx h]
  | .concat cs, idx, h => by
    simp only [axesOf] at h
    simp only [nodeValues]; rw [nodeValuesL_congr ρ σ τ cs idx h, evalItemsL_congr ρ σ τ cs idx h]
  | .ellipsis id e, idx, h => by
    simp only [nodeValues]
    simp only [axesOf, List.forall_mem_flatMap] at h
    exact flatMap_congr' (fun i hi => nodeValues_congr ρ σ τ e (idx ++ [i]) (h i hi))
  | .list cs, idx, h => by
    simp only [nodeValues]; exact nodeValuesL_congr ρ σ τ cs idx (by simpa only [axesOf] using h)
theorem nodeValuesL_congr (ρ σ τ : Var → Nat) : ∀ (cs : List Expr) (idx : List Nat),
    (∀ a ∈ axesOfL ρ idx cs, σ a.2.2 = τ a.2.2) → nodeValuesL ρ σ idx cs = nodeValuesL ρ τ idx cs
  | [], _, _ => by simp [nodeValuesL]
  | c :: cs, idx, h => by
    simp only [axesOfL, List.forall_mem_append] at h
    simp only [nodeValuesL]
    rw [nodeValues_congr ρ σ τ c idx h.1, nodeValuesL_congr ρ σ τ cs idx h.2]
end

mutual
theorem expand_congr (ρ ρ' : Var → Nat) : ∀ (e : Expr) (path : String) (idx : List Nat),
    (∀ id ∈ ellIds e, ρ id = ρ' id) → expand ρ path idx e = expand ρ' path idx e
  | .axis _, _, _, _ => by simp [expand]
  | .num _, _, _, _ => by simp [expand]
  | .brackets e, path, idx, h => by
    simp only [expand]; exact expand_congr ρ ρ' e path idx (by simpa only [ellIds] using h)
  | .flat e, path, idx, h => by
    simp only [expand]; rw [expand_congr ρ ρ' e _ idx (by simpa only [ellIds] using h)]
  | .concat cs, path, idx, h => by
    simp only [expand]; rw [expandL_congr ρ ρ' cs _ idx 0 (by simpa only [ellIds] using h)]
  | .ellipsis id e, path, idx, h => by
    simp only [ellIds, List.forall_mem_cons] at h
    simp only [expand]
    rw [h.1]
    have ih := fun i => expand_congr ρ ρ' e path (idx ++ [i]) h.2
    simp only [ih]
  | .list cs, path, idx, h => by
    simp only [expand]; exact expandL_congr ρ ρ' cs path idx 0 (by simpa only [ellIds] using h)
theorem expandL_congr (ρ ρ' : Var → Nat) : ∀ (cs : List Expr) (path : String) (idx : List Nat) (k : Nat),
    (∀ id ∈ ellIdsL cs, ρ id = ρ' id) → expandL ρ path idx k cs = expandL ρ' path idx k cs
  | [], _, _, _, _ => by simp [expandL]
  | c :: cs, path, idx, k, h => by
    simp only [ellIdsL, List.forall_mem_append] at h
    simp only [expandL]
    rw [expand_congr ρ ρ' c _ idx h.1, expandL_congr ρ ρ' cs path idx (k + 1) h.2]
end

end Einx.Solve
