import EinxModel.Compile.Sem
/-! Helper lemmas for `Props/C04.lean`. -/
namespace Einx.Compile

/-! ### Substitution -/

theorem E.subst_congr (σ τ : Nat → E) (e : E) (h : ∀ v ∈ e.vars, σ v = τ v) : e.subst σ = e.subst τ := by
  induction e with
  | var v => exact h v (by simp [E.vars])
  | lit c => rfl
  | gref g => rfl
  | nil => rfl
  | cons a b iha ihb =>
    simp only [E.subst]
    rw [iha (fun v hv => h v (by simp [E.vars, hv])), ihb (fun v hv => h v (by simp [E.vars, hv]))]
  | node t a ih =>
    simp only [E.subst]
    rw [ih (fun v hv => h v (by simpa [E.vars] using hv))]

theorem E.subst_subst (σ₁ σ₂ : Nat → E) (e : E) :
    (e.subst σ₁).subst σ₂ = e.subst (fun v => (σ₁ v).subst σ₂) := by
  induction e with
  | var v => rfl
  | lit c => rfl
  | gref g => rfl
  | nil => rfl
  | cons a b iha ihb => simp only [E.subst, iha, ihb]
  | node t a ih => simp only [E.subst, ih]

theorem E.subst_rename (ρ : Nat → Nat) (σ : Nat → E) (e : E) :
    (e.rename ρ).subst σ = e.subst (fun v => σ (ρ v)) := by
  unfold E.rename
  rw [E.subst_subst]
  rfl

/-- Reading a renamed expression in an environment that agrees on its variables. -/
theorem E.read_rename (ρ : Nat → Nat) (env env' : Env) (e : E)
    (h : ∀ v ∈ e.vars, env' (ρ v) = env v) : (e.rename ρ).subst env' = e.subst env := by
  rw [E.subst_rename]
  exact E.subst_congr _ _ e h

/-! ### Name sharing -/

/-- The two executions are related on a set of live variables. -/
structure Rel (ρ : Nat → Nat) (live : List Nat) (x x' : XState) : Prop where
  env : ∀ v ∈ live, x'.env (ρ v) = x.env v
  trace : x'.trace = x.trace
  ret : x'.ret = x.ret

theorem Env.set_same (env : Env) (v : Nat) (t : E) : env.set v t v = t := by simp [Env.set]

theorem Env.set_other (env : Env) (v w : Nat) (t : E) (h : w ≠ v) : env.set v t w = env w := by simp [Env.set, h]

/-- Writing variable `o` (shared name `ρ o`) keeps the relation on `rest` if no other live variable has that name. -/
theorem rel_set (ρ : Nat → Nat) (live live' : List Nat) (x x' : XState) (o : Nat) (t : E)
    (hrel : ∀ v ∈ live, x'.env (ρ v) = x.env v)
    (hsub : ∀ v ∈ live', v ≠ o → v ∈ live)
    (hsafe : ∀ w ∈ live', w ≠ o → ρ w ≠ ρ o) :
    ∀ v ∈ live', (x'.env.set (ρ o) t) (ρ v) = (x.env.set o t) v := by
  intro v hv
  by_cases hvo : v = o
  · subst hvo; simp [Env.set]
  · rw [Env.set_other _ _ _ _ (hsafe v hv hvo), Env.set_other _ _ _ _ hvo]
    exact hrel v (hsub v hv hvo)

theorem mem_liveIn_cons (s : Stmt) (rest : List Stmt) (v : Nat) :
    v ∈ liveIn (s :: rest) ↔ v ∈ s.reads ∨ (v ∈ liveIn rest ∧ v ∉ s.outputVars) := by
  simp [liveIn, List.mem_filter]

/-- One step: a statement and its renamed version keep the relation. -/
theorem step_rel (ρ : Nat → Nat) (s : Stmt) (rest : List Stmt) (x x' : XState)
    (hsafe : s.outputVars.all (fun o => (liveIn rest).all (fun w => w == o || ρ w != ρ o)) = true)
    (h : Rel ρ (liveIn (s :: rest)) x x') :
    Rel ρ (liveIn rest) (execStmt x s) (execStmt x' (s.rename ρ)) := by
  have hread : ∀ e : E, (∀ v ∈ e.vars, v ∈ s.reads) → (e.rename ρ).subst x'.env = e.subst x.env := by
    intro e he
    exact E.read_rename ρ x.env x'.env e (fun v hv => h.env v ((mem_liveIn_cons s rest v).2 (Or.inl (he v hv))))
  have hkeep : s.outputVars = [] → ∀ v ∈ liveIn rest, x'.env (ρ v) = x.env v := by
    intro hno v hv
    exact h.env v ((mem_liveIn_cons s rest v).2 (Or.inr ⟨hv, by simp [hno]⟩))
  have hset : ∀ o t, s.outputVars = [o] →
      ∀ v ∈ liveIn rest, (x'.env.set (ρ o) t) (ρ v) = (x.env.set o t) v := by
    intro o t ho
    apply rel_set ρ (liveIn (s :: rest)) (liveIn rest) x x' o t h.env
    · intro v hv hvo
      exact (mem_liveIn_cons s rest v).2 (Or.inr ⟨hv, by simp [ho, hvo]⟩)
    · intro w hw hwo
      simp only [ho, List.all_cons, List.all_nil, Bool.and_true, List.all_eq_true] at hsafe
      have := hsafe w hw
      simp only [Bool.or_eq_true, beq_iff_eq, bne_iff_ne] at this
      rcases this with h1 | h1
      · exact absurd h1 hwo
      · exact h1
  cases s with
  | comment t => exact ⟨hkeep rfl, h.trace, h.ret⟩
  | import_ v f i => exact ⟨hset v _ rfl, h.trace, h.ret⟩
  | assign v rhs eff =>
    have hr := hread rhs (fun w hw => by simpa [Stmt.reads] using hw)
    cases eff with
    | true =>
      refine ⟨?_, ?_, h.ret⟩
      · simp only [execStmt, Stmt.rename, if_true, h.trace]
        exact hset v _ rfl
      · simp only [execStmt, Stmt.rename, if_true, h.trace, hr]
    | false =>
      refine ⟨?_, h.trace, h.ret⟩
      simp only [execStmt, Stmt.rename, Bool.false_eq_true, if_false, hr]
      exact hset v _ rfl
  | exprStmt e extra =>
    have hr := hread e (fun w hw => by simpa [Stmt.reads] using hw)
    exact ⟨hkeep rfl, by simp only [execStmt, Stmt.rename, h.trace, hr], h.ret⟩
  | update t op v extra =>
    have hr1 := hread t (fun w hw => by simp [Stmt.reads, hw])
    have hr2 := hread v (fun w hw => by simp [Stmt.reads, hw])
    exact ⟨hkeep rfl, by simp only [execStmt, Stmt.rename, h.trace, hr1, hr2], h.ret⟩
  | assert_ c msg extra =>
    have hr := hread c (fun w hw => by simpa [Stmt.reads] using hw)
    exact ⟨hkeep rfl, by simp only [execStmt, Stmt.rename, h.trace, hr], h.ret⟩
  | def_ v ps b gi => exact ⟨hset v _ rfl, h.trace, h.ret⟩
  | param v t => exact ⟨hset v _ rfl, h.trace, h.ret⟩
  | constBind v n => exact ⟨hset v _ rfl, h.trace, h.ret⟩
  | return_ e =>
    have hr := hread e (fun w hw => by simpa [Stmt.reads] using hw)
    have hret := h.ret
    cases hx : x.ret with
    | none =>
      rw [hx] at hret
      refine ⟨?_, ?_, ?_⟩
      · simp only [execStmt, Stmt.rename, hx, hret]; exact hkeep rfl
      · simp only [execStmt, Stmt.rename, hx, hret]; exact h.trace
      · simp only [execStmt, Stmt.rename, hx, hret, hr]
    | some t =>
      rw [hx] at hret
      refine ⟨?_, ?_, ?_⟩
      · simp only [execStmt, Stmt.rename, hx, hret]; exact hkeep rfl
      · simp only [execStmt, Stmt.rename, hx, hret]; exact h.trace
      · simp only [execStmt, Stmt.rename, hx, hret]

theorem block_rel (ρ : Nat → Nat) (l : List Stmt) : ∀ (x x' : XState),
    fuseSafe ρ l = true → Rel ρ (liveIn l) x x' →
    Rel ρ [] (execBlock x l) (execBlock x' (l.map (Stmt.rename ρ))) := by
  induction l with
  | nil => intro x x' _ h; exact h
  | cons s rest ih =>
    intro x x' hs h
    simp only [fuseSafe, Bool.and_eq_true] at hs
    simp only [execBlock, List.map_cons, List.foldl_cons]
    exact ih _ _ hs.2 (step_rel ρ s rest x x' hs.1 h)

end Einx.Compile

namespace Einx.Compile

/-! ### Emission: what one step appends -/

theorem define_new (c : Ctx) (st st' : GState) (obj e : E) (eff ni fi : Bool) (new : List (Nat × Stmt))
    (h : define c st obj e eff ni fi = .ok (st', new)) :
    (new = [] ∨ ∃ b v, new = [(b, .assign v e eff)]) ∧ (ni = true → new.length = 1) ∧ (fi = true → new = []) := by
  unfold define at h
  cases hu : usageGet c.counts c.g.fuel obj with
  | error err => simp [hu, bind, Except.bind] at h
  | ok n =>
    simp only [hu, bind, Except.bind] at h
    split at h
    · simp [throw, throwThe, MonadExceptOf.throw] at h
    · rename_i hnot
      split at h
      · rename_i hin
        cases hs : st.set obj e with
        | error err => simp [hs, pure, Except.pure] at h
        | ok s1 =>
          simp only [hs, pure, Except.pure, Except.ok.injEq, Prod.mk.injEq] at h
          obtain ⟨_, rfl⟩ := h
          refine ⟨Or.inl rfl, ?_, fun _ => rfl⟩
          intro hni
          subst hni
          simp at hnot hin
          simp [hnot] at hin
      · rename_i hin
        cases ha : st.addVar c obj true with
        | error err => simp [ha] at h
        | ok p =>
          obtain ⟨v, s1⟩ := p
          simp only [ha] at h
          cases hb : c.blockFor obj with
          | error err => simp [hb] at h
          | ok b =>
            simp only [hb, pure, Except.pure, Except.ok.injEq, Prod.mk.injEq] at h
            obtain ⟨_, rfl⟩ := h
            refine ⟨Or.inr ⟨b, v, rfl⟩, fun _ => rfl, ?_⟩
            intro hfi
            subst hfi
            simp at hin

end Einx.Compile

namespace Einx.Compile

/-- Rules that always emit a statement: non-inlinable definitions (calls of opaque callables), in-place calls,
item updates, asserts, imports, constants. -/
def Rule.isStmt : Rule → Bool
  | .define _ _ _ noInline _ => noInline
  | .effect .. => true
  | .import_ .. => true
  | .constant .. => true

theorem applyRule_new (c : Ctx) (st st' : GState) (r : Rule) (new : List (Nat × Stmt))
    (h : applyRule c st r = .ok (st', new)) :
    new.length ≤ 1 ∧ (r.isStmt = true → new.length = 1) := by
  cases r with
  | define out e eff ni fi =>
    simp only [applyRule] at h
    obtain ⟨h1, h2, _⟩ := define_new c st st' out e eff ni fi new h
    refine ⟨?_, fun hs => h2 (by simpa [Rule.isStmt] using hs)⟩
    rcases h1 with rfl | ⟨b, v, rfl⟩ <;> simp
  | effect s out e =>
    simp only [applyRule, bind, Except.bind] at h
    cases hb : c.blockFor out with
    | error err => simp [hb] at h
    | ok b =>
      simp only [hb] at h
      cases hd : define c st out e false false true with
      | error err => simp [hd] at h
      | ok p =>
        obtain ⟨s1, more⟩ := p
        simp only [hd, pure, Except.pure, Except.ok.injEq, Prod.mk.injEq] at h
        obtain ⟨_, rfl⟩ := h
        have := (define_new c st s1 out e false false true more hd).2.2 rfl
        subst this
        simp
  | import_ out from_ imp hint =>
    simp only [applyRule, bind, Except.bind] at h
    cases ha : st.addVar c (.var out) false with
    | error err => simp [ha] at h
    | ok p =>
      obtain ⟨v, s1⟩ := p
      simp only [ha] at h
      cases hb : c.blockFor (.var out) with
      | error err => simp [hb] at h
      | ok b =>
        simp only [hb] at h
        split at h
        · simp [throw, throwThe, MonadExceptOf.throw] at h
        · simp only [pure, Except.pure, Except.ok.injEq, Prod.mk.injEq] at h
          obtain ⟨_, rfl⟩ := h
          simp
  | constant out str =>
    simp only [applyRule, bind, Except.bind] at h
    cases ha : st.addVar c (.var out) false with
    | error err => simp [ha] at h
    | ok p =>
      obtain ⟨v, s1⟩ := p
      simp only [ha, pure, Except.pure, Except.ok.injEq, Prod.mk.injEq] at h
      obtain ⟨_, rfl⟩ := h
      simp

end Einx.Compile

namespace Einx.Compile

/-- Applications for which the generator always emits a statement. -/
def App.isStmtKind (g : Graph) : App → Bool
  | .call fn _ _ _ _ => !isAllowInline g fn
  | .callInplace .. => true
  | .updateitem .. => true
  | .assert_ .. => true
  | .import_ .. => true
  | .constant .. => true
  | _ => false

theorem ruleOf_isStmt (g : Graph) (up : Bool) (cache : List (E × E)) (a : App) (r : Rule)
    (h : ruleOf g up cache a = .ok r) (hk : a.isStmtKind g = true) : r.isStmt = true := by
  cases a <;> simp only [App.isStmtKind, Bool.false_eq_true] at hk <;>
    simp only [ruleOf, bind, Except.bind, pure, Except.pure] at h <;>
    (repeat' split at h) <;> (try (first | (cases h; simp [Rule.isStmt, hk]) | (simp at h)))

end Einx.Compile

namespace Einx.Compile

/-! ### Emission only appends to `body` -/

theorem set_body (st st' : GState) (obj e : E) (h : st.set obj e = .ok st') : st'.body = st.body := by
  unfold GState.set at h
  cases hs : setCache 64 st.cache obj e with
  | error err => simp [hs, bind, Except.bind] at h
  | ok cch =>
    simp only [hs, bind, Except.bind, pure, Except.pure, Except.ok.injEq] at h
    subst h; rfl

theorem addVar_body (c : Ctx) (st st' : GState) (obj : E) (reuse : Bool) (v : Nat)
    (h : st.addVar c obj reuse = .ok (v, st')) : st'.body = st.body := by
  unfold GState.addVar at h
  cases hb : c.blockFor obj with
  | error err => simp [hb, bind, Except.bind] at h
  | ok b =>
    simp only [hb, bind, Except.bind] at h
    split at h
    · simp at h
    · rename_i s2 hs
      simp only [pure, Except.pure, Except.ok.injEq, Prod.mk.injEq] at h
      obtain ⟨_, rfl⟩ := h
      exact (set_body _ _ _ _ hs).trans rfl

theorem define_body (c : Ctx) (st st' : GState) (obj e : E) (eff ni fi : Bool) (new : List (Nat × Stmt))
    (h : define c st obj e eff ni fi = .ok (st', new)) : st'.body = st.body := by
  unfold define at h
  cases hu : usageGet c.counts c.g.fuel obj with
  | error err => simp [hu, bind, Except.bind] at h
  | ok n =>
    simp only [hu, bind, Except.bind] at h
    split at h
    · simp [throw, throwThe, MonadExceptOf.throw] at h
    · split at h
      · cases hs : st.set obj e with
        | error err => simp [hs] at h
        | ok s1 =>
          simp only [hs, pure, Except.pure, Except.ok.injEq, Prod.mk.injEq] at h
          obtain ⟨rfl, _⟩ := h
          exact set_body _ _ _ _ hs
      · cases ha : st.addVar c obj true with
        | error err => simp [ha] at h
        | ok p =>
          obtain ⟨v, s1⟩ := p
          simp only [ha] at h
          cases hb : c.blockFor obj with
          | error err => simp [hb] at h
          | ok b =>
            simp only [hb, pure, Except.pure, Except.ok.injEq, Prod.mk.injEq] at h
            obtain ⟨rfl, _⟩ := h
            exact addVar_body _ _ _ _ _ _ ha

theorem applyRule_body (c : Ctx) (st st' : GState) (r : Rule) (new : List (Nat × Stmt))
    (h : applyRule c st r = .ok (st', new)) : st'.body = st.body := by
  cases r with
  | define out e eff ni fi => exact define_body c st st' out e eff ni fi new (by simpa [applyRule] using h)
  | effect s out e =>
    simp only [applyRule, bind, Except.bind] at h
    cases hb : c.blockFor out with
    | error err => simp [hb] at h
    | ok b =>
      simp only [hb] at h
      cases hd : define c st out e false false true with
      | error err => simp [hd] at h
      | ok p =>
        obtain ⟨s1, more⟩ := p
        simp only [hd, pure, Except.pure, Except.ok.injEq, Prod.mk.injEq] at h
        obtain ⟨rfl, _⟩ := h
        exact define_body _ _ _ _ _ _ _ _ _ hd
  | import_ out from_ imp hint =>
    simp only [applyRule, bind, Except.bind] at h
    cases ha : st.addVar c (.var out) false with
    | error err => simp [ha] at h
    | ok p =>
      obtain ⟨v, s1⟩ := p
      simp only [ha] at h
      cases hb : c.blockFor (.var out) with
      | error err => simp [hb] at h
      | ok b =>
        simp only [hb] at h
        split at h
        · simp [throw, throwThe, MonadExceptOf.throw] at h
        · simp only [pure, Except.pure, Except.ok.injEq, Prod.mk.injEq] at h
          obtain ⟨rfl, _⟩ := h
          have := addVar_body _ _ _ _ _ _ ha
          cases hint <;> simpa using this
  | constant out str =>
    simp only [applyRule, bind, Except.bind] at h
    cases ha : st.addVar c (.var out) false with
    | error err => simp [ha] at h
    | ok p =>
      obtain ⟨v, s1⟩ := p
      simp only [ha, pure, Except.pure, Except.ok.injEq, Prod.mk.injEq] at h
      obtain ⟨rfl, _⟩ := h
      simpa using addVar_body _ _ _ _ _ _ ha

end Einx.Compile

namespace Einx.Compile

def Visit.src : Visit → Option Nat
  | .app i => some i
  | _ => none

def tagWith (src : Option Nat) (new : List (Nat × Stmt)) : List (Nat × SStmt) :=
  new.map (fun p => (p.1, (⟨p.2, src⟩ : SStmt)))

theorem push_body (st : GState) (src : Option Nat) (new : List (Nat × Stmt)) :
    (st.push src new).body = st.body ++ tagWith src new := by
  simp [GState.push, tagWith]

theorem patchForce_isStmt (g : Graph) (cfg : UCfg) (a : App) (r : Rule) : (patchForce g cfg a r).isStmt = r.isStmt := by
  unfold patchForce
  split
  · split <;> simp [Rule.isStmt]
  · rfl

theorem emitVisit_app (c : Ctx) (st st' : GState) (i : Nat) (a : App) (ha : c.g.apps[i]? = some a)
    (h : emitVisit c st (.app i) = .ok st') :
    ∃ new : List (Nat × Stmt), st'.body = st.body ++ tagWith (some i) new ∧ new.length ≤ 1 ∧
      (a.isStmtKind c.g = true → new.length = 1) := by
  simp only [emitVisit, ha, emitApp, bind, Except.bind] at h
  cases hr : ruleOf c.g c.cfg.unaryParens st.cache a with
  | error err => simp [hr] at h
  | ok r =>
    simp only [hr] at h
    cases hp : applyRule c st (patchForce c.g c.cfg a r) with
    | error err => simp [hp] at h
    | ok p =>
      obtain ⟨s1, new⟩ := p
      simp only [hp, pure, Except.pure, Except.ok.injEq] at h
      subst h
      obtain ⟨h1, h2⟩ := applyRule_new c st s1 (patchForce c.g c.cfg a r) new hp
      refine ⟨new, ?_, h1, fun hk => h2 (by rw [patchForce_isStmt]; exact ruleOf_isStmt c.g c.cfg.unaryParens st.cache a r hr hk)⟩
      rw [push_body, applyRule_body c st s1 (patchForce c.g c.cfg a r) new hp]

theorem enterParam_body (c : Ctx) (st st' : GState) (t : Nat) (h : enterParam c st t = .ok st') :
    ∃ new : List (Nat × Stmt), st'.body = st.body ++ tagWith none new := by
  simp only [enterParam, bind, Except.bind] at h
  cases ha : st.addVar c (.var t) true with
  | error err => simp [ha] at h
  | ok p =>
    obtain ⟨v, s1⟩ := p
    simp only [ha, pure, Except.pure, Except.ok.injEq] at h
    subst h
    exact ⟨_, by rw [push_body, addVar_body c st s1 _ _ v ha]⟩

theorem enter_fold (c : Ctx) (inputs : List Nat) : ∀ (st st' : GState),
    inputs.foldlM (enterParam c) st = .ok st' →
    ∃ new : List (Nat × Stmt), st'.body = st.body ++ tagWith none new := by
  induction inputs with
  | nil =>
    intro st st' h
    simp only [List.foldlM, pure, Except.pure, Except.ok.injEq] at h
    subst h
    exact ⟨[], by simp [tagWith]⟩
  | cons t rest ih =>
    intro st st' h
    simp only [List.foldlM, bind, Except.bind] at h
    cases ha : enterParam c st t with
    | error err => simp [ha] at h
    | ok s1 =>
      simp only [ha] at h
      obtain ⟨new1, h1⟩ := enterParam_body c st s1 t ha
      obtain ⟨new, hn⟩ := ih s1 st' h
      exact ⟨new1 ++ new, by rw [hn, h1]; simp [tagWith]⟩

theorem emitVisit_other (c : Ctx) (st st' : GState) (v : Visit) (hv : v.src = none)
    (h : emitVisit c st v = .ok st') :
    ∃ new : List (Nat × Stmt), st'.body = st.body ++ tagWith none new := by
  cases v with
  | app i => simp [Visit.src] at hv
  | enter gi =>
    simp only [emitVisit] at h
    cases hg : c.g.graphs[gi]? with
    | none => simp [hg, throw, throwThe, MonadExceptOf.throw] at h
    | some sg =>
      simp only [hg, bind, Except.bind] at h
      cases ha : st.addVar c (.gref gi) true with
      | error err => simp [ha] at h
      | ok p =>
        obtain ⟨fv, s1⟩ := p
        simp only [ha] at h
        obtain ⟨new, hn⟩ := enter_fold c sg.inputs _ st' h
        refine ⟨new, ?_⟩
        rw [hn]
        have := addVar_body c st s1 _ _ fv ha
        cases sg.name <;> simp [this]
  | exit gi =>
    simp only [emitVisit] at h
    cases hg : c.g.graphs[gi]? with
    | none => simp [hg, throw, throwThe, MonadExceptOf.throw] at h
    | some sg =>
      simp only [hg, bind, Except.bind] at h
      repeat' split at h
      all_goals try (simp at h; done)
      all_goals
        simp only [pure, Except.pure, Except.ok.injEq] at h
        subst h
        exact ⟨_, push_body _ _ _⟩

end Einx.Compile

namespace Einx.Compile

/-- Sources (application indices) of the emitted statements, in emission order. -/
def GState.srcs (st : GState) : List Nat := st.body.filterMap (fun p => p.2.src)

theorem srcs_tagWith_none (new : List (Nat × Stmt)) :
    (tagWith none new).filterMap (fun p => p.2.src) = [] := by
  induction new with
  | nil => rfl
  | cons p rest ih => simpa [tagWith] using ih

theorem srcs_tagWith_some (i : Nat) (new : List (Nat × Stmt)) :
    (tagWith (some i) new).filterMap (fun p => p.2.src) = List.replicate new.length i := by
  induction new with
  | nil => rfl
  | cons p rest ih =>
    simp only [tagWith, List.map_cons, List.filterMap_cons, List.length_cons, List.replicate_succ] at ih ⊢
    rw [ih]

/-- What one traversal step adds to the sources: nothing, or the index of the visited application (exactly
once if the application is of a kind that always yields a statement). -/
theorem emitVisit_srcs (c : Ctx) (st st' : GState) (v : Visit) (h : emitVisit c st v = .ok st') :
    ∃ l : List Nat, st'.srcs = st.srcs ++ l ∧ l.Sublist v.src.toList ∧
      (∀ i a, v = .app i → c.g.apps[i]? = some a → a.isStmtKind c.g = true → l = [i]) := by
  cases v with
  | app i =>
    cases ha : c.g.apps[i]? with
    | none => simp [emitVisit, ha, throw, throwThe, MonadExceptOf.throw] at h
    | some a =>
      obtain ⟨new, hb, hle, hk⟩ := emitVisit_app c st st' i a ha h
      refine ⟨List.replicate new.length i, ?_, ?_, ?_⟩
      · simp only [GState.srcs, hb, List.filterMap_append, srcs_tagWith_some]
      · simp only [Visit.src, Option.toList]
        match new, hle with
        | [], _ => simp
        | [_], _ => simp
      · intro i' a' hv ha' hkind
        cases hv
        rw [ha] at ha'
        cases ha'
        rw [hk hkind]
        rfl
  | enter gi =>
    obtain ⟨new, hb⟩ := emitVisit_other c st st' (.enter gi) rfl h
    exact ⟨[], by simp [GState.srcs, hb, List.filterMap_append, srcs_tagWith_none], by simp, by intro i a hv; cases hv⟩
  | exit gi =>
    obtain ⟨new, hb⟩ := emitVisit_other c st st' (.exit gi) rfl h
    exact ⟨[], by simp [GState.srcs, hb, List.filterMap_append, srcs_tagWith_none], by simp, by intro i a hv; cases hv⟩

theorem emitAll_cons (c : Ctx) (v : Visit) (rest : List Visit) (st st' : GState)
    (h : emitAll c (v :: rest) st = .ok st') :
    ∃ s1, emitVisit c st v = .ok s1 ∧ emitAll c rest s1 = .ok st' := by
  simp only [emitAll, List.foldlM_cons, bind, Except.bind] at h
  cases h1 : emitVisit c st v with
  | error err => simp [h1] at h
  | ok s1 => exact ⟨s1, rfl, by simpa [h1, emitAll] using h⟩

end Einx.Compile
