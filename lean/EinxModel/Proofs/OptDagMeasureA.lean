import EinxModel.Proofs.OptDagPres
import EinxModel.Optimize.DagMeasure
/-!
The unfolded-size table `sizes` (Optimize/DagMeasure.lean): stability under extension of the store, the entries of a
topologically ordered store, and: every pattern that fires on a tracer forwards / merges strictly smaller objects
(`firstMatch_small`).
-/
namespace Einx.OptDag

/-! ### Sums -/

theorem toksSize_nil (tbl : List Nat) : toksSize tbl [] = 0 := rfl

theorem toksSize_cons (tbl : List Nat) (t : Tok) (ts : List Tok) : toksSize tbl (t :: ts) = tokSize tbl t + toksSize tbl ts := by
  simp [toksSize]

theorem toksSize_append (tbl : List Nat) (a b : List Tok) : toksSize tbl (a ++ b) = toksSize tbl a + toksSize tbl b := by
  simp [toksSize, List.map_append, List.sum_append]

theorem toksSize_single (tbl : List Nat) (t : Tok) : toksSize tbl [t] = tokSize tbl t := by simp [toksSize]

theorem opsSize_cons (tbl : List Nat) (v : List Tok) (vs : List (List Tok)) : opsSize tbl (v :: vs) = toksSize tbl v + opsSize tbl vs := by
  simp [opsSize]

theorem opsSize_append (tbl : List Nat) (a b : List (List Tok)) : opsSize tbl (a ++ b) = opsSize tbl a + opsSize tbl b := by
  simp [opsSize, List.map_append, List.sum_append]

theorem tok_le_toksSize (tbl : List Nat) : ∀ (v : List Tok) (t : Tok), t ∈ v → tokSize tbl t ≤ toksSize tbl v
  | [], _, h => by cases h
  | a :: v, t, h => by
    rw [toksSize_cons]
    rcases List.mem_cons.1 h with rfl | h
    · omega
    · have := tok_le_toksSize tbl v t h; omega

theorem mem_le_opsSize (tbl : List Nat) : ∀ (vs : List (List Tok)) (v : List Tok), v ∈ vs → toksSize tbl v ≤ opsSize tbl vs
  | [], _, h => by cases h
  | a :: vs, v, h => by
    rw [opsSize_cons]
    rcases List.mem_cons.1 h with rfl | h
    · omega
    · have := mem_le_opsSize tbl vs v h; omega

theorem toksSize_refFree (tbl : List Nat) (v : List Tok) (h : refFree v = true) : toksSize tbl v = 0 := by
  induction v with
  | nil => rfl
  | cons t ts ih =>
    simp only [refFree, Bool.not_eq_true', List.any_cons, Bool.or_eq_false_iff] at h
    rw [toksSize_cons, ih (by simp [refFree, h.2])]
    cases t <;> simp_all [tokSize]

/-! ### The table -/

theorem foldl_sizes_ext : ∀ (e : List Node) (init : List Nat),
    ∃ e', e.foldl (fun tbl n => tbl ++ [nodeSize tbl n]) init = init ++ e' ∧ e'.length = e.length
  | [], init => ⟨[], by simp⟩
  | n :: e, init => by
    obtain ⟨e', h1, h2⟩ := foldl_sizes_ext e (init ++ [nodeSize init n])
    exact ⟨nodeSize init n :: e', by simp [List.foldl_cons, h1], by simp [h2]⟩

theorem sizes_append (a e : List Node) : ∃ e', sizes (a ++ e) = sizes a ++ e' ∧ e'.length = e.length := by
  unfold sizes
  rw [List.foldl_append]
  exact foldl_sizes_ext e _

theorem sizes_length (nodes : List Node) : (sizes nodes).length = nodes.length := by
  obtain ⟨e', h1, h2⟩ := sizes_append [] nodes
  simp only [List.nil_append] at h1
  rw [h1]
  simp [sizes, h2]

theorem sizes_snoc (a : List Node) (n : Node) : sizes (a ++ [n]) = sizes a ++ [nodeSize (sizes a) n] := by
  simp [sizes, List.foldl_append]

theorem tokSize_ext (tbl e : List Nat) (t : Tok) (h : toksLt tbl.length [t] = true) : tokSize (tbl ++ e) t = tokSize tbl t := by
  cases t with
  | ref j =>
    have hj := toksLt_ref h
    simp only [tokSize, List.getElem?_append_left hj]
  | gref k => rfl
  | atom a => rfl
  | open_ c k => rfl

theorem toksSize_ext (tbl e : List Nat) : ∀ (v : List Tok), toksLt tbl.length v = true → toksSize (tbl ++ e) v = toksSize tbl v
  | [], _ => rfl
  | t :: ts, h => by
    rw [toksLt_cons, Bool.and_eq_true] at h
    rw [toksSize_cons, toksSize_cons, tokSize_ext tbl e t h.1, toksSize_ext tbl e ts h.2]

theorem opsSize_ext (tbl e : List Nat) : ∀ (vs : List (List Tok)), (∀ v ∈ vs, toksLt tbl.length v = true) → opsSize (tbl ++ e) vs = opsSize tbl vs
  | [], _ => rfl
  | v :: vs, h => by
    rw [opsSize_cons, opsSize_cons, toksSize_ext tbl e v (h v (by simp)), opsSize_ext tbl e vs (fun w hw => h w (by simp [hw]))]

theorem nodeSize_ext (tbl e : List Nat) (n : Node) (h : nodeOK tbl.length n = true) : nodeSize (tbl ++ e) n = nodeSize tbl n := by
  obtain ⟨ty, o⟩ := n
  cases o with
  | none => rfl
  | app a =>
    simp only [nodeOK, App.operandsLt, List.all_eq_true] at h
    simp only [nodeSize, App.size, opsSize_ext tbl e a.operands h]
  | proj s k =>
    simp only [nodeOK, decide_eq_true_eq] at h
    simp only [nodeSize, List.getElem?_append_left h]

/-- The entry of a node of a topologically ordered store is the size of the node over the whole table. -/
theorem sizes_get (nodes : List Node) (hT : TopoL nodes) (i : Nat) (n : Node) (hn : nodes[i]? = some n) :
    (sizes nodes)[i]? = some (nodeSize (sizes nodes) n) := by
  obtain ⟨hi, hget⟩ := List.getElem?_eq_some_iff.1 hn
  have hsplit : nodes = (nodes.take i ++ [n]) ++ nodes.drop (i + 1) := by
    have := List.take_append_drop i nodes
    rw [List.drop_eq_getElem_cons hi, hget] at this
    simpa using this.symm
  have hlen : (sizes (nodes.take i)).length = i := by rw [sizes_length, List.length_take]; omega
  obtain ⟨e', h1, _⟩ := sizes_append (nodes.take i ++ [n]) (nodes.drop (i + 1))
  rw [← hsplit, sizes_snoc] at h1
  have hok : nodeOK (sizes (nodes.take i)).length n = true := by rw [hlen]; exact hT i n hn
  have hsz : nodeSize (sizes nodes) n = nodeSize (sizes (nodes.take i)) n := by
    rw [h1, List.append_assoc]
    exact nodeSize_ext _ _ n hok
  rw [hsz, h1, List.append_assoc, List.getElem?_append_right (by omega), hlen]
  simp

/-! ### Sizes in a topologically ordered old store -/

section
variable (S : Store) (hT : S.topo = true)
include hT

theorem size_node (i : Nat) (n : Node) (hn : S.nodes[i]? = some n) : tokSize (sizes S.nodes) (.ref i) = nodeSize (sizes S.nodes) n := by
  simp only [tokSize, sizes_get S.nodes (topoL_of_topo S hT) i n hn, Option.getD_some]

theorem size_appOf (i : Nat) (a : App) (base k : Nat) (h : S.appOf i = some (a, base, k)) :
    a.size (sizes S.nodes) ≤ tokSize (sizes S.nodes) (.ref i) := by
  unfold Store.appOf at h
  split at h
  · rename_i ty a' hn
    simp only [Option.some.injEq, Prod.mk.injEq] at h
    obtain ⟨rfl, rfl, rfl⟩ := h
    rw [size_node S hT i _ hn]
    exact Nat.le_refl _
  · rename_i ty src k' hn
    split at h
    · rename_i ty2 a' hn2
      simp only [Option.some.injEq, Prod.mk.injEq] at h
      obtain ⟨rfl, rfl, rfl⟩ := h
      rw [size_node S hT i _ hn]
      have := size_node S hT _ _ hn2
      simp only [tokSize, nodeSize] at this ⊢
      omega
    · cases h
  · cases h

theorem callOf_size (v : List Tok) (pat : FnPat) (a : App) (h : S.callOf v pat = some a) :
    a.size (sizes S.nodes) ≤ toksSize (sizes S.nodes) v ∧ ∃ f, a.pre = [f] := by
  unfold Store.callOf at h
  split at h
  · rename_i i
    split at h
    · rename_i a' base k ha
      split at h
      · split at h
        · rename_i f hp
          split at h
          · simp only [Option.some.injEq] at h
            subst h
            rw [toksSize_single]
            exact ⟨size_appOf S hT i a' base k ha, f, hp⟩
          · cases h
        · cases h
      · cases h
    · cases h
  · cases h

omit hT in
/-- The function and the first argument of a call are two different operands. -/
theorem pre_arg_size (tbl : List Nat) (a : App) (f input : List Tok) (hf : a.pre = [f]) (hi : a.args[0]? = some input) :
    toksSize tbl f + toksSize tbl input + 1 ≤ a.size tbl := by
  have hmem : input ∈ a.args := List.mem_of_getElem? hi
  have := mem_le_opsSize tbl a.args input hmem
  simp only [App.size, App.operands, opsSize_append, hf, opsSize_cons]
  simp only [opsSize, List.map_nil, List.sum_nil] at this ⊢
  omega

theorem skipChain_size : ∀ (f i j : Nat), skipChain S f i = .ok j → tokSize (sizes S.nodes) (.ref j) ≤ tokSize (sizes S.nodes) (.ref i)
  | 0, _, _, h => by simp [skipChain, throw, throwThe, MonadExceptOf.throw] at h
  | f + 1, i, j, h => by
    unfold skipChain at h
    split at h
    · rename_i ty a hn
      split at h
      · split at h
        · rename_i k hp
          have h1 := skipChain_size f k j h
          have h2 := size_node S hT i _ hn
          have h3 : toksSize (sizes S.nodes) [.ref k] ≤ opsSize (sizes S.nodes) a.operands :=
            mem_le_opsSize _ _ _ (pre_mem a _ (by simp [hp]))
          rw [toksSize_single] at h3
          simp only [nodeSize, App.size] at h2
          omega
        · cases h
      · simp only [pure, Except.pure, Except.ok.injEq] at h; subst h; exact Nat.le_refl _
    · simp only [pure, Except.pure, Except.ok.injEq] at h; subst h; exact Nat.le_refl _

theorem skipLeaf_size (t t' : Tok) (h : skipLeaf S t = .ok t') : tokSize (sizes S.nodes) t' ≤ tokSize (sizes S.nodes) t := by
  unfold skipLeaf at h
  split at h
  · rename_i i
    obtain ⟨j, hj, h⟩ := bind_ok.1 h
    simp only [pure, Except.pure, Except.ok.injEq] at h
    subst h
    exact skipChain_size S hT _ i j hj
  · simp only [pure, Except.pure, Except.ok.injEq] at h
    subst h; exact Nat.le_refl _

theorem mapM_skipLeaf_size : ∀ (l l' : List Tok), l.mapM (skipLeaf S) = .ok l' → toksSize (sizes S.nodes) l' ≤ toksSize (sizes S.nodes) l
  | [], l', h => by
    simp only [List.mapM_nil, pure, Except.pure, Except.ok.injEq] at h
    subst h; exact Nat.le_refl _
  | t :: ts, l', h => by
    simp only [List.mapM_cons] at h
    obtain ⟨t', ht', h⟩ := bind_ok.1 h
    obtain ⟨ts', hts', h⟩ := bind_ok.1 h
    simp only [pure, Except.pure, Except.ok.injEq] at h
    subst h
    have e1 := skipLeaf_size S hT t t' ht'
    have e2 := mapM_skipLeaf_size ts ts' hts'
    rw [toksSize_cons, toksSize_cons]
    omega

/-- `_skip_id` never makes an object bigger. -/
theorem skipId_size (v v' : List Tok) (h : skipId S v = .ok v') : toksSize (sizes S.nodes) v' ≤ toksSize (sizes S.nodes) v := by
  unfold skipId at h
  obtain ⟨w, hw, h⟩ := bind_ok.1 h
  have hws : toksSize (sizes S.nodes) w ≤ toksSize (sizes S.nodes) v := by
    unfold skipIdLeaves at hw
    split at hw
    · rename_i t
      split at hw
      · simp only [pure, Except.pure, Except.ok.injEq] at hw; subst hw; exact Nat.le_refl _
      · obtain ⟨t', ht', hw⟩ := bind_ok.1 hw
        simp only [pure, Except.pure, Except.ok.injEq] at hw
        subst hw
        rw [toksSize_single, toksSize_single]
        exact skipLeaf_size S hT t t' ht'
    · rename_i k rest _
      split at hw
      · cases hw
      · obtain ⟨ts, hts, hw⟩ := bind_ok.1 hw
        simp only [pure, Except.pure, Except.ok.injEq] at hw
        subst hw
        have := mapM_skipLeaf_size S hT rest ts hts
        simp only [List.take, List.cons_append, List.nil_append, toksSize_cons]
        omega
    · rename_i k rest _
      split at hw
      · cases hw
      · obtain ⟨ts, hts, hw⟩ := bind_ok.1 hw
        simp only [pure, Except.pure, Except.ok.injEq] at hw
        subst hw
        have := mapM_skipLeaf_size S hT rest ts hts
        simp only [List.take, List.cons_append, List.nil_append, toksSize_cons]
        omega
    · cases hw
  refine Nat.le_trans ?_ hws
  unfold skipIdCast at h
  split at h
  · simp only [pure, Except.pure, Except.ok.injEq] at h; subst h; exact Nat.le_refl _
  · rename_i i hfr
    have hi : tokSize (sizes S.nodes) (.ref i) ≤ toksSize (sizes S.nodes) w := tok_le_toksSize _ w _ (firstRef_mem w i hfr)
    split at h
    · rename_i a base k ha
      have hsz := size_appOf S hT i a base k ha
      split at h
      · split at h
        · rename_i j hp
          obtain ⟨j', hj', h⟩ := bind_ok.1 h
          simp only [pure, Except.pure, Except.ok.injEq] at h
          subst h
          have h1 := skipChain_size S hT _ j j' hj'
          have h3 : toksSize (sizes S.nodes) [.ref j] ≤ opsSize (sizes S.nodes) a.operands :=
            mem_le_opsSize _ _ _ (pre_mem a _ (by simp [hp]))
          rw [toksSize_single] at h3 ⊢
          simp only [App.size] at hsz
          omega
        · cases h
      · simp only [pure, Except.pure, Except.ok.injEq] at h; subst h; exact Nat.le_refl _
    · simp only [pure, Except.pure, Except.ok.injEq] at h; subst h; exact Nat.le_refl _

/-! ### Every pattern that fires on a tracer returns strictly smaller objects -/

/-- What `transform` is applied to is smaller than the tracer the pattern fired on. -/
def Action.small (tbl : List Nat) (i : Nat) : Action → Prop
  | .fwd v => toksSize tbl v + 1 ≤ tokSize tbl (.ref i)
  | .merge fn x _ => toksSize tbl fn + toksSize tbl x + 2 ≤ tokSize tbl (.ref i)

theorem unaryCallOf_size (pat : FnPat) (i : Nat) (a : App) (input lit : List Tok) (h : unaryCallOf S pat i = .ok (some (a, input, lit))) :
    a.size (sizes S.nodes) ≤ tokSize (sizes S.nodes) (.ref i) ∧ a.args[0]? = some input ∧ ∃ f, a.pre = [f] := by
  unfold unaryCallOf at h
  split at h
  · cases h
  · rename_i a' hc
    obtain ⟨input', hi, h⟩ := bind_ok.1 h
    split at h
    · cases h
    · obtain ⟨lit', hl, h⟩ := bind_ok.1 h
      simp only [pure, Except.pure, Except.ok.injEq, Option.some.injEq, Prod.mk.injEq] at h
      obtain ⟨rfl, rfl, rfl⟩ := h
      obtain ⟨h1, h2⟩ := callOf_size S hT _ pat a' hc
      rw [toksSize_single] at h1
      refine ⟨h1, ?_, h2⟩
      unfold argAt at hi
      split at hi
      · rename_i v hv
        simp only [pure, Except.pure, Except.ok.injEq] at hi
        subst hi; exact hv
      · cases hi

theorem innerCall_size (pat : FnPat) (input : List Tok) (a2 : App) (h : innerCall S pat input = .ok (some a2)) :
    a2.size (sizes S.nodes) ≤ toksSize (sizes S.nodes) input := by
  unfold innerCall at h
  obtain ⟨input', h1, h⟩ := bind_ok.1 h
  simp only [pure, Except.pure, Except.ok.injEq] at h
  exact Nat.le_trans (callOf_size S hT input' pat a2 h).1 (skipId_size S hT input input' h1)

omit hT in
theorem argAt_size (tbl : List Nat) (a : App) (k : Nat) (v : List Tok) (h : argAt a k = .ok v) : toksSize tbl v + 1 ≤ a.size tbl := by
  have := mem_le_opsSize tbl a.operands v (argAt_mem a k v h)
  simp only [App.size]
  omega

theorem decideReshape_small (pat : FnPat) (i : Nat) (act : Action) (h : decideReshape S pat i = .ok (some act)) :
    act.small (sizes S.nodes) i := by
  unfold decideReshape at h
  obtain ⟨u, hu, h⟩ := bind_ok.1 h
  split at h
  · cases h
  · rename_i a input shape
    obtain ⟨hsz, harg, f0, hf0⟩ := unaryCallOf_size S hT pat i a input shape hu
    have hpa := pre_arg_size (sizes S.nodes) a f0 input hf0 harg
    obtain ⟨noop, _, h⟩ := bind_ok.1 h
    split at h
    · simp only [pure, Except.pure, Except.ok.injEq, Option.some.injEq] at h
      subst h
      simp only [Action.small]; omega
    · obtain ⟨inner, hinner, h⟩ := bind_ok.1 h
      split at h
      · rename_i a2
        obtain ⟨ioi, hioi, h⟩ := bind_ok.1 h
        split at h
        · rename_i f hf
          split at h
          · simp only [pure, Except.pure, Except.ok.injEq, Option.some.injEq] at h
            subst h
            have h2 := innerCall_size S hT pat input a2 hinner
            have h3 := argAt_size (sizes S.nodes) a2 0 ioi hioi
            rw [hf0] at hf
            simp only [List.cons.injEq, and_true] at hf
            subst hf
            simp only [Action.small]; omega
          · cases h
        · cases h
      · cases h

theorem decideTranspose_small (pat : FnPat) (i : Nat) (act : Action) (h : decideTranspose S pat i = .ok (some act)) :
    act.small (sizes S.nodes) i := by
  unfold decideTranspose at h
  obtain ⟨u, hu, h⟩ := bind_ok.1 h
  split at h
  · cases h
  · rename_i a input perm
    obtain ⟨hsz, harg, f0, hf0⟩ := unaryCallOf_size S hT pat i a input perm hu
    have hpa := pre_arg_size (sizes S.nodes) a f0 input hf0 harg
    obtain ⟨noop, _, h⟩ := bind_ok.1 h
    split at h
    · simp only [pure, Except.pure, Except.ok.injEq, Option.some.injEq] at h
      subst h
      simp only [Action.small]; omega
    · obtain ⟨inner, hinner, h⟩ := bind_ok.1 h
      split at h
      · rename_i a2
        obtain ⟨ioi, hioi, h⟩ := bind_ok.1 h
        obtain ⟨perm1, _, h⟩ := bind_ok.1 h
        split at h
        · split at h
          · split at h
            · rename_i f hf
              split at h
              · simp only [pure, Except.pure, Except.ok.injEq, Option.some.injEq] at h
                subst h
                have h2 := innerCall_size S hT pat input a2 hinner
                have h3 := argAt_size (sizes S.nodes) a2 0 ioi hioi
                rw [hf0] at hf
                simp only [List.cons.injEq, and_true] at hf
                subst hf
                simp only [Action.small]; omega
              · cases h
            · cases h
          · cases h
        · cases h
      · cases h

theorem decideBroadcast_small (pat : FnPat) (i : Nat) (act : Action) (h : decideBroadcast S pat i = .ok (some act)) :
    act.small (sizes S.nodes) i := by
  unfold decideBroadcast at h
  obtain ⟨u, hu, h⟩ := bind_ok.1 h
  split at h
  · cases h
  · rename_i a input shape
    obtain ⟨hsz, harg, f0, hf0⟩ := unaryCallOf_size S hT pat i a input shape hu
    have hpa := pre_arg_size (sizes S.nodes) a f0 input hf0 harg
    obtain ⟨noop, _, h⟩ := bind_ok.1 h
    split at h
    · simp only [pure, Except.pure, Except.ok.injEq, Option.some.injEq] at h
      subst h
      simp only [Action.small]; omega
    · cases h

theorem decideConcat_small (pat : FnPat) (i : Nat) (act : Action) (h : decideConcat S pat i = .ok (some act)) :
    act.small (sizes S.nodes) i := by
  unfold decideConcat at h
  split at h
  · cases h
  · rename_i a hc
    obtain ⟨tensors, ht, h⟩ := bind_ok.1 h
    obtain ⟨hsz, _⟩ := callOf_size S hT _ pat a hc
    rw [toksSize_single] at hsz
    have hten := argAt_size (sizes S.nodes) a 0 tensors ht
    have tail : ∀ (t : Tok) (rest : List Tok), tensors = t :: rest → toksSize (sizes S.nodes) rest + 1 ≤ tokSize (sizes S.nodes) (.ref i) := by
      intro t rest e
      subst e
      rw [toksSize_cons] at hten
      omega
    split at h
    · rename_i n rest
      split at h
      · simp only [pure, Except.pure, Except.ok.injEq, Option.some.injEq] at h
        subst h; exact tail _ rest rfl
      · cases h
    · rename_i n rest
      split at h
      · simp only [pure, Except.pure, Except.ok.injEq, Option.some.injEq] at h
        subst h; exact tail _ rest rfl
      · cases h
    · cases h

theorem decideCast_small (i : Nat) (act : Action) (h : decideCast S i = .ok (some act)) : act.small (sizes S.nodes) i := by
  unfold decideCast at h
  split at h
  · rename_i a base k ha
    have hsz := size_appOf S hT i a base k ha
    split at h
    · split at h
      · rename_i j hp
        split at h
        · simp only [pure, Except.pure, Except.ok.injEq, Option.some.injEq] at h
          subst h
          have h3 : toksSize (sizes S.nodes) [.ref j] ≤ opsSize (sizes S.nodes) a.operands :=
            mem_le_opsSize _ _ _ (pre_mem a _ (by simp [hp]))
          simp only [App.size] at hsz
          simp only [Action.small]; omega
        · cases h
      · cases h
    · cases h
  · cases h

theorem firstMatch_small (fuel : Nat) : ∀ (ps : List Pattern) (i : Nat) (act : Action), firstMatch S fuel ps (.ref i) = .ok (some act) →
    act.small (sizes S.nodes) i
  | [], i, act, h => by simp [firstMatch, pure, Except.pure] at h
  | p :: ps, i, act, h => by
    unfold firstMatch at h
    obtain ⟨r, hr, h⟩ := bind_ok.1 h
    split at h
    · rename_i act'
      simp only [pure, Except.pure, Except.ok.injEq, Option.some.injEq] at h
      subst h
      cases p with
      | skipReshape pat => exact decideReshape_small S hT pat i _ (by simpa [Pattern.decide] using hr)
      | skipTranspose pat => exact decideTranspose_small S hT pat i _ (by simpa [Pattern.decide] using hr)
      | skipBroadcastTo pat => exact decideBroadcast_small S hT pat i _ (by simpa [Pattern.decide] using hr)
      | skipConcatenate pat => exact decideConcat_small S hT pat i _ (by simpa [Pattern.decide] using hr)
      | inlineGraph => simp [Pattern.decide, pure, Except.pure] at hr
      | skipCast => exact decideCast_small S hT i _ (by simpa [Pattern.decide] using hr)
    · exact firstMatch_small fuel ps i act h

end

end Einx.OptDag
