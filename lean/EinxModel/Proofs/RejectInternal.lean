import EinxModel.Proofs.RejectLex
/-!
# `parse_op` has no internal outcome (helper lemmas for Props/C03Reject.lean)

`parse_total_cases` (Props/C12) leaves five internal outcomes open.  With the constants of the pinned source (every operator
of `_nary_ops` has a handler; `_axis_value` accepts exactly what `int()` accepts) none of them is reachable:

* `unhandledOp`     — `naryOps ⊆ modelHandled` (obligation on the extracted table);
* `intLiteral`      — `digitRanges = decimalRanges` (obligation on the extracted tables);
* `assertAxisName`  — invariant `TokGood`: every atom of the token tree is a valid token and not a delimiter; a single atom
                      that reaches the `Axis` case is no operator and not `...`, so it is a name or a number;
* `assertDelimiter` — invariant `TokGood`: the opening token of every group is `(` or `[`;
* `assertMoveUp`    — invariant `NoOp`: after the first `move_up` pass no `Op` node is left below the root.
-/
namespace Einx.Notation

/-! ## Obligations on the extracted constants -/

theorem naryOps_handled : ∀ op ∈ naryOps, op ∈ modelHandled := by decide

theorem digit_ranges_decimal : Einx.Extracted.digitRanges = Einx.Extracted.decimalRanges := by decide

theorem isDigit_isDecimal (c : Char) : isDecimalChar c = isDigitChar c := by
  simp only [isDecimalChar, isDigitChar, digit_ranges_decimal]

/-! ## Token-tree invariant -/

def TokenGood (t : Token) : Prop :=
  validToken t.text = true ∧ delimsFront.contains t.text = false ∧ delimsBack.contains t.text = false

mutual
def TokGood : Tok → Prop
  | .atom t => TokenGood t
  | .group o _ inner => IsOpen o ∧ TokGoodL inner
def TokGoodL : List Tok → Prop
  | [] => True
  | t :: ts => TokGood t ∧ TokGoodL ts
end

theorem tokGoodL_iff {ts : List Tok} : TokGoodL ts ↔ ∀ t ∈ ts, TokGood t := by
  induction ts with
  | nil => simp [TokGoodL]
  | cons c cs ih => simp [TokGoodL, ih]

theorem tokGoodL_append {xs ys : List Tok} (hx : TokGoodL xs) (hy : TokGoodL ys) : TokGoodL (xs ++ ys) := by
  rw [tokGoodL_iff] at *
  intro t ht
  rcases List.mem_append.mp ht with h | h
  · exact hx t h
  · exact hy t h

theorem isOpen_of_front {t : Token} (h : delimsFront.contains t.text = true) : IsOpen t := by
  rw [delimsFront_eq'] at h
  simpa [IsOpen] using h

theorem buildTree_good : ∀ (ts : List Token) (frames : List (Token × List Tok)) (base : List Tok),
    (∀ t ∈ ts, validToken t.text = true) → (∀ f ∈ frames, IsOpen f.1 ∧ TokGoodL f.2) → TokGoodL base →
    ∀ tree, buildTree ts frames base = .ok tree → TokGoodL tree := by
  intro ts
  induction ts with
  | nil =>
    intro frames base _ hf hb tree h
    cases frames with
    | nil => simp only [buildTree, Except.ok.injEq] at h; subst h; exact hb
    | cons f fs => obtain ⟨o, items⟩ := f; simp [buildTree] at h
  | cons t ts ih =>
    intro frames base hts hf hb tree h
    have ht := hts t (by simp)
    have hts' : ∀ t ∈ ts, validToken t.text = true := fun x hx => hts x (List.mem_cons_of_mem _ hx)
    simp only [buildTree] at h
    split at h
    · rename_i hfront
      refine ih _ _ hts' ?_ hb tree h
      intro f hf'
      rcases List.mem_cons.mp hf' with h' | h'
      · subst h'; exact ⟨isOpen_of_front hfront, by simp [TokGoodL]⟩
      · exact hf f h'
    · rename_i hfront
      split at h
      · cases frames with
        | nil => simp at h
        | cons f fs =>
          obtain ⟨o, items⟩ := f
          have hfo := hf (o, items) (by simp)
          simp only at h
          split at h
          · cases h
          · have hg : TokGood (Tok.group o t items) := by
              simp only [TokGood]; exact ⟨hfo.1, hfo.2⟩
            cases fs with
            | nil =>
              simp only at h
              exact ih _ _ hts' (by simp) (tokGoodL_append hb (by simp [TokGoodL, hg])) tree h
            | cons f2 fs2 =>
              obtain ⟨o2, items2⟩ := f2
              simp only at h
              refine ih _ _ hts' ?_ hb tree h
              intro f hf'
              rcases List.mem_cons.mp hf' with h' | h'
              · subst h'
                have := hf (o2, items2) (by simp)
                exact ⟨this.1, tokGoodL_append this.2 (by simp [TokGoodL, hg])⟩
              · exact hf f (by simp [h'])
      · rename_i hback
        have hat : TokGood (Tok.atom t) := by
          simp only [TokGood, TokenGood]
          exact ⟨ht, by simpa using hfront, by simpa using hback⟩
        cases frames with
        | nil =>
          simp only at h
          exact ih _ _ hts' (by simp) (tokGoodL_append hb (by simp [TokGoodL, hat])) tree h
        | cons f fs =>
          obtain ⟨o, items⟩ := f
          simp only at h
          refine ih _ _ hts' ?_ hb tree h
          intro f hf'
          rcases List.mem_cons.mp hf' with h' | h'
          · subst h'
            have := hf (o, items) (by simp)
            exact ⟨this.1, tokGoodL_append this.2 (by simp [TokGoodL, hat])⟩
          · exact hf f (by simp [h'])

/-! ## `parse` -/

theorem splitOn_mem (op : Str) (d : Nat) : ∀ (ts : List Tok),
    ∀ o ∈ (splitOn op d ts).1 :: (splitOn op d ts).2, ∀ t ∈ o.1, t ∈ ts
  | [] => by
    simp only [splitOn, List.mem_singleton]
    intro o ho; subst ho; simp
  | t :: ts => by
    have ih := splitOn_mem op d ts
    simp only [splitOn]
    split
    · intro o ho
      rcases List.mem_cons.mp ho with ho | ho
      · subst ho; simp
      · intro x hx; exact List.mem_cons_of_mem _ (ih o ho x hx)
    · intro o ho
      rcases List.mem_cons.mp ho with ho | ho
      · subst ho
        intro x hx
        rcases List.mem_cons.mp hx with hx | hx
        · subst hx; simp
        · exact List.mem_cons_of_mem _ (ih (splitOn op d ts).1 (by simp) x hx)
      · intro x hx; exact List.mem_cons_of_mem _ (ih o (List.mem_cons_of_mem _ ho) x hx)

theorem operands_mem (op : Str) (ts : List Tok) : ∀ o ∈ operands op ts, ∀ t ∈ o.ts, t ∈ ts := by
  intro o ho
  simp only [operands, List.mem_map] at ho
  obtain ⟨p, hp, rfl⟩ := ho
  rw [mkTL_ts]
  exact splitOn_mem op (lastEnd ts 0) ts p (by simpa using hp)

theorem findOp_none_all {ops : List Str} {ts : List Tok} (h : findOp ops ts = none) : ∀ op ∈ ops, ts.any (Tok.isText op) = false := by
  induction ops with
  | nil => intro op hop; cases hop
  | cons a as ih =>
    simp only [findOp] at h
    split at h
    · cases h
    · rename_i ha
      intro op hop
      rcases List.mem_cons.mp hop with rfl | hop
      · simpa using ha
      · exact ih h op hop

theorem combine_noint {op : Str} {xs : List Expr} {b e : Nat} {ipc : Bool} {ts : List Tok} (hop : op ∈ naryOps) :
    IntP (fun _ => False) (combine op xs b e ipc ts) := by
  have h := combine_int (xs := xs) (b := b) (e := e) (ipc := ipc) (ts := ts) hop
  cases hc : combine op xs b e ipc ts with
  | ok x => trivial
  | error err =>
    rw [hc] at h
    rcases err with ⟨k, pos, alts⟩ | ⟨k⟩
    · trivial
    · simp only [IntP, ParseInt] at h ⊢
      rcases h with ⟨op', hk, hin, hnot⟩ | hk | hk | hk
      · exact hnot (naryOps_handled op' hin)
      · -- `combine` produces only `unhandledOp`
        unfold combine at hc
        split at hc
        · cases hc
        · split at hc
          · cases hc
          · split at hc
            · cases hc
            · split at hc
              · dsimp only at hc
                split at hc
                · cases hc
                · split at hc <;> cases hc
              · cases hc; cases hk
      · unfold combine at hc
        split at hc
        · cases hc
        · split at hc
          · cases hc
          · split at hc
            · cases hc
            · split at hc
              · dsimp only at hc
                split at hc
                · cases hc
                · split at hc <;> cases hc
              · cases hc; cases hk
      · unfold combine at hc
        split at hc
        · cases hc
        · split at hc
          · cases hc
          · split at hc
            · cases hc
            · split at hc
              · dsimp only at hc
                split at hc
                · cases hc
                · split at hc <;> cases hc
              · cases hc; cases hk

/-- A valid token that is no delimiter, no operator and not `...` is a name or a number: the `Axis` case cannot assert. -/
theorem parseAxis_noint (t : Token) (hg : TokenGood t) (hnop : naryOps.contains t.text = false) (hne : (t.text == ellipsisLit) = false) :
    IntP (fun _ => False) (parseAxis t) := by
  obtain ⟨hv, hnf, hnb⟩ := hg
  unfold parseAxis
  split
  · rename_i hd
    split
    · trivial
    · rename_i hdec
      exfalso
      apply hdec
      simp only [isDigitStr, Bool.and_eq_true, List.all_eq_true] at hd
      simp only [List.all_eq_true]
      intro c hc
      rw [isDigit_isDecimal]
      exact hd.2 c hc
  · rename_i hd
    split
    · trivial
    · rename_i hname
      exfalso
      simp only [validToken, Bool.or_eq_true] at hv
      rcases hv with ((h | h) | h) | h
      · have hc := literals_contains_cases h
        rcases hc with h | h | h | h | h | h | h | h | h
        · rw [h] at hnop; revert hnop; decide
        · rw [h] at hnop; revert hnop; decide
        · rw [h] at hnop; revert hnop; decide
        · rw [h] at hnop; revert hnop; decide
        · rw [h] at hnf; revert hnf; decide
        · rw [h] at hnf; revert hnf; decide
        · rw [h] at hnb; revert hnb; decide
        · rw [h] at hnb; revert hnb; decide
        · rw [h] at hne; revert hne; decide
      · rw [h] at hnop; cases hnop
      · exact hname h
      · exact hd h

theorem parse_noint (ts : List Tok) (b e : Nat) (ipc : Bool) :
    (∀ t ∈ ts, TokGood t) → IntP (fun _ => False) (parse ts b e ipc) := by
  fun_induction parse ts b e ipc with
  | case1 => intro _; trivial
  | case2 ts b e ipc o c inner hs ib err heq ih =>
    intro hts
    have hg : TokGood (Tok.group o c inner) := hts _ (mem_strip (by rw [hs]; simp))
    simp only [TokGood] at hg
    have := ih (tokGoodL_iff.mp hg.2)
    rw [heq] at this
    exact intP_err this
  | case3 => intro _; trivial
  | case4 => intro _; trivial
  | case5 => intro _; trivial
  | case6 ts b e ipc o c inner hs ib x heq h1 h2 =>
    intro hts
    have hg : TokGood (Tok.group o c inner) := hts _ (mem_strip (by rw [hs]; simp))
    simp only [TokGood, IsOpen] at hg
    exfalso
    rcases hg.1 with h | h
    · apply h1; rw [h]; decide
    · apply h2; rw [h]; decide
  | case7 ts b e ipc t0 rest _ hs ts1 op hop err heq ih =>
    intro hts
    have hts1 : ∀ t ∈ ts1, TokGood t := fun t ht => hts t (mem_strip (by rw [hs]; exact ht))
    obtain ⟨a, _, ha⟩ := mapM_err_mem _ _ _ heq
    have hmem := operands_mem op ts1 a.1 (mem_keepOperands a.2)
    have := ih a (fun t ht => hts1 t (hmem t ht))
    rw [ha] at this
    exact intP_err this
  | case8 ts b e ipc t0 rest _ hs ts1 b1 e1 op hop xs heq ih =>
    intro _
    exact combine_noint (findOp_mem hop)
  | case9 => intro _; trivial
  | case10 ts b e ipc t hs hne h2 h3 ts1 hop =>
    intro hts
    have hg : TokGood (Tok.atom t) := hts _ (mem_strip (by rw [hs]; simp))
    simp only [TokGood] at hg
    apply parseAxis_noint t hg
    · cases hc : naryOps.contains t.text with
      | false => rfl
      | true =>
        have := findOp_none_all hop t.text (List.contains_iff_mem.mp hc)
        simp [ts1, Tok.isText] at this
    · simpa using hne
  | case11 ts b e ipc x t hs _ err heq _ _ _ _ ih =>
    intro hts
    have hx : TokGood x := hts x (mem_strip (by rw [hs]; simp))
    have := ih (by simpa using hx)
    rw [heq] at this
    exact intP_err this
  | case12 => intro _; trivial
  | case13 => intro _; trivial
  | case14 => intro _; trivial

/-! ## The `move_up` passes -/

mutual
def NoOp : Expr → Prop
  | .axis .. => True
  | .flat i _ _ | .brackets i _ _ | .ellipsis i _ _ _ => NoOp i
  | .concat cs _ _ | .list cs _ _ | .args cs _ _ => NoOpL cs
  | .op .. => False
def NoOpL : List Expr → Prop
  | [] => True
  | c :: cs => NoOp c ∧ NoOpL cs
end

theorem noOpL_iff {cs : List Expr} : NoOpL cs ↔ ∀ c ∈ cs, NoOp c := by
  induction cs with
  | nil => simp [NoOpL]
  | cons c cs ih => simp [NoOpL, ih]

theorem noOp_emptyList : NoOp emptyList := by simp [emptyList, NoOp, NoOpL]


theorem noOp_mkFlat {i : Expr} (b e : Int) (hi : NoOp i) : NoOp (mkFlat i b e) := by
  unfold mkFlat; split
  · exact hi
  · exact hi

theorem noOp_mkBrackets {i : Expr} (b e : Int) (hi : NoOp i) : NoOp (mkBrackets i b e) := by
  unfold mkBrackets; split
  · exact hi
  · split
    · exact noOp_emptyList
    · exact hi

theorem noOp_mkEllipsis {i : Expr} (b e : Int) (id : Nat) (hi : NoOp i) : NoOp (mkEllipsis i b e id) := by
  unfold mkEllipsis; split
  · exact noOp_emptyList
  · exact hi

theorem noOp_mkConcat {cs : List Expr} (b e : Int) (h : ∀ c ∈ cs, NoOp c) : NoOp (mkConcat cs b e) := by
  unfold mkConcat; split
  · exact h _ (by simp)
  · exact noOpL_iff.mpr h

mutual
theorem flattenOne_noOp : ∀ (x : Expr), NoOp x → ∀ c ∈ flattenOne x, NoOp c
  | .list cs _ _, h => by
    simp only [flattenOne]
    exact flattenAll_noOp cs (by simpa only [NoOp] using h)
  | .axis .., h => by simp only [flattenOne, List.mem_singleton]; intro c hc; subst hc; exact h
  | .flat .., h => by simp only [flattenOne, List.mem_singleton]; intro c hc; subst hc; exact h
  | .brackets .., h => by simp only [flattenOne, List.mem_singleton]; intro c hc; subst hc; exact h
  | .ellipsis .., h => by simp only [flattenOne, List.mem_singleton]; intro c hc; subst hc; exact h
  | .concat .., h => by simp only [flattenOne, List.mem_singleton]; intro c hc; subst hc; exact h
  | .args .., h => by simp only [flattenOne, List.mem_singleton]; intro c hc; subst hc; exact h
  | .op .., h => by simp only [NoOp] at h
theorem flattenAll_noOp : ∀ (cs : List Expr), NoOpL cs → ∀ c ∈ flattenAll cs, NoOp c
  | [], _ => by simp [flattenAll]
  | x :: xs, h => by
    simp only [flattenAll, List.mem_append]
    simp only [NoOpL] at h
    intro c hc
    rcases hc with hc | hc
    · exact flattenOne_noOp x h.1 c hc
    · exact flattenAll_noOp xs h.2 c hc
end

theorem noOp_mkList {cs : List Expr} (b e : Int) (h : ∀ c ∈ cs, NoOp c) : NoOp (mkList cs b e) := by
  have hf := flattenAll_noOp cs (noOpL_iff.mpr h)
  unfold mkList; split
  · rename_i c hc
    exact hf c (by rw [hc]; simp)
  · exact noOpL_iff.mpr hf

/-- Alternatives of a lifted node: all children are free of `Op`. -/
def AltsNoOp (y : Expr) : Prop := ∀ c ∈ y.children, NoOp c

theorem noOp_pick (idx : Nat) {y : Expr} (h : AltsNoOp y) : NoOp (pick idx y) := by
  unfold pick
  split
  · rename_i c hx
    exact h c (by rw [hx]; simp)
  · rw [List.getD_eq_getElem?_getD]
    cases hi : y.children[idx]? with
    | none => simpa using noOp_emptyList
    | some z => simpa using h z (List.mem_of_getElem? hi)

theorem distribute_op_noOp (cls : Cls) {children : List Expr} (b e : Int) (arrows : List Int)
    (hch : ∀ y ∈ children, AltsNoOp y) : ∀ r, distribute .op cls children b e arrows = .ok r → AltsNoOp r := by
  intro r hr
  unfold distribute at hr
  dsimp only at hr
  split at hr
  · cases hr
  · cases hr
    intro c hc
    simp only [Lift.wrap, Expr.children, List.mem_map] at hc
    obtain ⟨idx, _, rfl⟩ := hc
    have hitems : ∀ z ∈ children.map (pick idx), NoOp z := by
      intro z hz
      obtain ⟨y, hy, rfl⟩ := List.mem_map.mp hz
      exact noOp_pick idx (hch y hy)
    cases cls
    · exact noOp_mkList b e hitems
    · exact noOp_mkConcat b e hitems
    · exact noOpL_iff.mpr hitems

mutual
/-- After the first pass, the alternatives under the root contain no `Op`. -/
theorem moveUp_op_noOp (arrows : List Int) : ∀ (x : Expr) (r : Expr), moveUp .op arrows x = .ok r → AltsNoOp r
  | .axis .., r, h => by
    simp only [moveUp, Except.ok.injEq] at h
    subst h
    intro c hc
    simp only [Lift.wrap, Expr.children, List.mem_singleton] at hc
    subst hc; trivial
  | .flat i b e, r, h => by
    simp only [moveUp] at h
    cases hm : moveUp .op arrows i with
    | error err => rw [hm] at h; cases h
    | ok o =>
      rw [hm] at h
      simp only [Except.ok.injEq] at h
      subst h
      have ih := moveUp_op_noOp arrows i o hm
      intro c hc
      simp only [Lift.wrap, Expr.children, List.mem_map] at hc
      obtain ⟨a, ha, rfl⟩ := hc
      exact noOp_mkFlat b e (ih a ha)
  | .brackets i b e, r, h => by
    simp only [moveUp] at h
    cases hm : moveUp .op arrows i with
    | error err => rw [hm] at h; cases h
    | ok o =>
      rw [hm] at h
      simp only [Except.ok.injEq] at h
      subst h
      have ih := moveUp_op_noOp arrows i o hm
      intro c hc
      simp only [Lift.wrap, Expr.children, List.mem_map] at hc
      obtain ⟨a, ha, rfl⟩ := hc
      exact noOp_mkBrackets b e (ih a ha)
  | .ellipsis i id b e, r, h => by
    simp only [moveUp] at h
    cases hm : moveUp .op arrows i with
    | error err => rw [hm] at h; cases h
    | ok o =>
      rw [hm] at h
      simp only [Except.ok.injEq] at h
      subst h
      have ih := moveUp_op_noOp arrows i o hm
      intro c hc
      simp only [Lift.wrap, Expr.children, List.mem_map] at hc
      obtain ⟨a, ha, rfl⟩ := hc
      exact noOp_mkEllipsis b e id (ih a ha)
  | .list cs b e, r, h => by
    simp only [moveUp] at h
    cases hm : moveUpL .op arrows cs with
    | error err => rw [hm] at h; cases h
    | ok ch =>
      rw [hm] at h
      exact distribute_op_noOp .list b e arrows (moveUpL_op_noOp arrows cs ch hm) r h
  | .concat cs b e, r, h => by
    simp only [moveUp] at h
    cases hm : moveUpL .op arrows cs with
    | error err => rw [hm] at h; cases h
    | ok ch =>
      rw [hm] at h
      exact distribute_op_noOp .concat b e arrows (moveUpL_op_noOp arrows cs ch hm) r h
  | .args cs b e, r, h => by
    simp only [moveUp] at h
    cases hm : moveUpL .op arrows cs with
    | error err => rw [hm] at h; cases h
    | ok ch =>
      rw [hm] at h
      exact distribute_op_noOp .args b e arrows (moveUpL_op_noOp arrows cs ch hm) r h
  | .op cs b e, r, h => by
    simp only [moveUp] at h
    cases hm : moveUpL .op arrows cs with
    | error err => rw [hm] at h; cases h
    | ok ch =>
      rw [hm] at h
      simp only [Except.ok.injEq] at h
      subst h
      have ih := moveUpL_op_noOp arrows cs ch hm
      intro c hc
      simp only [Expr.children, List.mem_flatMap] at hc
      obtain ⟨y, hy, hcy⟩ := hc
      exact ih y hy c hcy
theorem moveUpL_op_noOp (arrows : List Int) : ∀ (cs : List Expr) (ch : List Expr), moveUpL .op arrows cs = .ok ch →
    ∀ y ∈ ch, AltsNoOp y
  | [], ch, h => by
    simp only [moveUpL, Except.ok.injEq] at h
    subst h; intro y hy; cases hy
  | c :: cs, ch, h => by
    simp only [moveUpL] at h
    cases hm : moveUp .op arrows c with
    | error err => rw [hm] at h; cases h
    | ok x =>
      rw [hm] at h
      cases hm2 : moveUpL .op arrows cs with
      | error err => rw [hm2] at h; cases h
      | ok xs =>
        rw [hm2] at h
        simp only [Except.ok.injEq] at h
        subst h
        intro y hy
        rcases List.mem_cons.mp hy with rfl | hy
        · exact moveUp_op_noOp arrows c _ hm
        · exact moveUpL_op_noOp arrows cs xs hm2 y hy
end

mutual
/-- The second pass on an expression without `Op` cannot hit `raise AssertionError()`. -/
theorem moveUp_args_noint (arrows : List Int) : ∀ (x : Expr), NoOp x → IntP (fun _ => False) (moveUp .args arrows x)
  | .axis .., _ => by simp only [moveUp]; trivial
  | .flat i b e, h => by
    have ih := moveUp_args_noint arrows i (by simpa only [NoOp] using h)
    simp only [moveUp]
    cases hm : moveUp .args arrows i with
    | error err => rw [hm] at ih; dsimp only; exact intP_err ih
    | ok o => trivial
  | .brackets i b e, h => by
    have ih := moveUp_args_noint arrows i (by simpa only [NoOp] using h)
    simp only [moveUp]
    cases hm : moveUp .args arrows i with
    | error err => rw [hm] at ih; dsimp only; exact intP_err ih
    | ok o => trivial
  | .ellipsis i id b e, h => by
    have ih := moveUp_args_noint arrows i (by simpa only [NoOp] using h)
    simp only [moveUp]
    cases hm : moveUp .args arrows i with
    | error err => rw [hm] at ih; dsimp only; exact intP_err ih
    | ok o => trivial
  | .list cs b e, h => by
    have ih := moveUpL_args_noint arrows cs (by simpa only [NoOp] using h)
    simp only [moveUp]
    cases hm : moveUpL .args arrows cs with
    | error err => rw [hm] at ih; dsimp only; exact intP_err ih
    | ok ch => dsimp only; exact distribute_int .args .list ch b e arrows
  | .concat cs b e, h => by
    have ih := moveUpL_args_noint arrows cs (by simpa only [NoOp] using h)
    simp only [moveUp]
    cases hm : moveUpL .args arrows cs with
    | error err => rw [hm] at ih; dsimp only; exact intP_err ih
    | ok ch => dsimp only; exact distribute_int .args .concat ch b e arrows
  | .args cs b e, h => by
    have ih := moveUpL_args_noint arrows cs (by simpa only [NoOp] using h)
    simp only [moveUp]
    cases hm : moveUpL .args arrows cs with
    | error err => rw [hm] at ih; dsimp only; exact intP_err ih
    | ok ch => trivial
  | .op .., h => by simp only [NoOp] at h
theorem moveUpL_args_noint (arrows : List Int) : ∀ (cs : List Expr), NoOpL cs → IntP (fun _ => False) (moveUpL .args arrows cs)
  | [], _ => by simp only [moveUpL]; trivial
  | c :: cs, h => by
    simp only [NoOpL] at h
    have ih1 := moveUp_args_noint arrows c h.1
    have ih2 := moveUpL_args_noint arrows cs h.2
    simp only [moveUpL]
    cases hm : moveUp .args arrows c with
    | error err => rw [hm] at ih1; dsimp only; exact intP_err ih1
    | ok x =>
      cases hm2 : moveUpL .args arrows cs with
      | error err => rw [hm2] at ih2; dsimp only; exact intP_err ih2
      | ok xs => trivial
end

/-! ## `parse_op` -/

theorem lex_good {text : Str} {toks : List Token} (h : lex text = .ok toks) :
    ∀ t ∈ dedupSpaces toks false, validToken t.text = true := by
  intro t ht
  exact (lex_ok_tokens h).2 t (mem_dedupSpaces ht)

/-- `parse_op` never fails with an internal exception (for the constants of the source as extracted). -/
theorem parseOp_noint (text : Str) : IntP (fun _ => False) (parseOp text) := by
  have hgen := parseOp_int text
  unfold parseOp at hgen ⊢
  cases hl : lex text with
  | error err =>
    unfold lex at hl
    simp only at hl
    split at hl
    · cases hl; trivial
    · cases hl
  | ok toks =>
    rw [hl] at hgen
    simp only at hgen ⊢
    cases hb : buildTree (dedupSpaces toks false) [] [] with
    | error err =>
      rw [hb] at hgen
      simp only at hgen ⊢
      -- `buildTree` only raises syntax errors
      have hs := stack_scan text toks hl
      rw [hb] at hs
      split at hs
      · obtain ⟨pos, hp⟩ := hs; cases hp; trivial
      · obtain ⟨tree, hp⟩ := hs; cases hp
      · obtain ⟨pos, hp⟩ := hs; cases hp; trivial
    | ok tree =>
      simp only
      have hgood : ∀ t ∈ tree, TokGood t :=
        tokGoodL_iff.mp (buildTree_good _ [] [] (lex_good hl) (by simp) (by simp [TokGoodL]) tree hb)
      have hp := parse_noint tree 0 (lastEnd tree 0) false hgood
      cases hpa : parse tree 0 (lastEnd tree 0) false with
      | error err => rw [hpa] at hp; exact intP_err hp
      | ok x =>
        simp only
        rcases moveUp_op_res (posForLiteral (lit "->") text 0) x with ⟨cs, b, e, h⟩ | ⟨k, pos, alts, h⟩
        · rw [h]
          simp only
          have hno := moveUp_op_noOp _ x _ h
          have h2 := moveUpL_args_noint (posForLiteral (lit "->") text 0) cs (noOpL_iff.mpr (by simpa [AltsNoOp, Expr.children] using hno))
          cases hm : moveUpL .args (posForLiteral (lit "->") text 0) cs with
          | error err => rw [hm] at h2; exact intP_err h2
          | ok cs2 =>
            simp only
            split
            · trivial
            · exact checkBrackets_int (traverse false (.op cs2 b e))
        · rw [h]; trivial

end Einx.Notation
