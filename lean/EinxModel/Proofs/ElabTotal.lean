import EinxModel.Proofs.Elab
import EinxModel.Elab.Spec
/-!
# Helper lemmas for Props/C03Elab.lean: outcome classes of the `_parse_op` model

`PErr.isSemantic`: the raise sites of `_parse_op` that construct `einx.errors.SemanticError`.  `NonInternal r`: `r` is a
result or one of those.  Everything here is about `Einx.Elab.parseOpTree` (the definition the driver runs).
-/
namespace Einx.Elab
open Einx.Notation

/-- A result, or a `SemanticError`. -/
def NonInternal {α : Type} : PRes α → Prop
  | .ok _ => True
  | .error e => e.isSemantic = true

theorem nonInternal_iff {α : Type} (r : PRes α) :
    NonInternal r ↔ (∃ x, r = .ok x) ∨ (∃ e, r = .error e ∧ e.isSemantic = true) := by
  cases r with
  | ok x => simp [NonInternal]
  | error e => simp [NonInternal]

/-! ## `implicitOut` -/

theorem toOutputL_total : ∀ (xs : List Expr), NonInternal (toOutputL xs)
  | [] => by simp [toOutputL, NonInternal]
  | x :: xs => by
    have ih := toOutputL_total xs
    simp only [toOutputL, toOutput]
    by_cases hb : (bracketCount x == 1) = true
    · rw [if_pos hb]
      dsimp only
      cases h : toOutputL xs with
      | ok ys => simp [NonInternal]
      | error e => rw [h] at ih; simpa [NonInternal] using ih
    · rw [if_neg hb]
      simp [NonInternal, PErr.isSemantic]

/-- `implicit_output="bijective"` never fails internally. -/
theorem implicitOut_bijective_total (fl : Flags) (kd : Bool) (el : ElOp) (ins : List Expr) (h : fl.implicit = .bijective) :
    NonInternal (implicitOut fl kd el ins) := by
  unfold implicitOut
  rw [h]
  dsimp only
  split
  · trivial
  · split
    · trivial
    · split
      · split
        · trivial
        · split
          · trivial
          · simp [NonInternal, PErr.isSemantic]
      · split
        · exact toOutputL_total ins
        · simp [NonInternal, PErr.isSemantic]

/-- `implicit_output=None` is the `SemanticError` "no '->' was found". -/
theorem implicitOut_none (fl : Flags) (kd : Bool) (el : ElOp) (ins : List Expr) (h : fl.implicit = .none) :
    implicitOut fl kd el ins = .error .noArrow := by
  unfold implicitOut
  rw [h]

/-- `implicit_output=i` with `i` in range. -/
theorem implicitOut_index_total (fl : Flags) (kd : Bool) (el : ElOp) (ins : List Expr) (i : Nat) (h : fl.implicit = .index i)
    (hi : i < ins.length) : NonInternal (implicitOut fl kd el ins) := by
  unfold implicitOut
  rw [h]
  dsimp only
  rw [List.getElem?_eq_getElem hi]
  trivial

/-! ## `finish` -/

theorem markInputs_total (ins outs : List Expr) (h : outs.length = 1) : NonInternal (markInputs ins outs) := by
  unfold markInputs
  split
  · simp [NonInternal, PErr.isSemantic]
  · match outs, h with
    | [o], _ => trivial

/-- `finish` fails internally only through `assert len(exprs_out) == 1`, which needs automatic marking with a signature
    that does not have exactly one output. -/
theorem finish_total (fl : Flags) (el : ElOp) (ins outs : List Expr) (h : fl.markReduced = true → el.outs.length = 1) :
    NonInternal (finish fl el ins outs) := by
  unfold finish
  split
  · simp [NonInternal, PErr.isSemantic]
  · rename_i hlen
    have hlen' : el.outs.length = outs.length := by simpa using hlen
    split
    · rename_i err herr
      -- an error of `bracketCheck` is one of the two bracket errors
      have : ∀ (o : Bool) (i : Nat) (as ss : List Expr) (e : PErr), bracketCheck o i as ss = some e → e.isSemantic = true := by
        intro o i as
        induction as generalizing i with
        | nil => intro ss e h; simp [bracketCheck] at h
        | cons a as ih =>
          intro ss e h
          cases ss with
          | nil => simp [bracketCheck] at h
          | cons s ss =>
            simp only [bracketCheck] at h
            split at h
            · cases h; rfl
            · split at h
              · cases h; rfl
              · exact ih _ _ _ h
      exact this _ _ _ _ _ herr
    · split
      · rename_i err herr
        have : ∀ (o : Bool) (i : Nat) (as ss : List Expr) (e : PErr), bracketCheck o i as ss = some e → e.isSemantic = true := by
          intro o i as
          induction as generalizing i with
          | nil => intro ss e h; simp [bracketCheck] at h
          | cons a as ih =>
            intro ss e h
            cases ss with
            | nil => simp [bracketCheck] at h
            | cons s ss =>
              simp only [bracketCheck] at h
              split at h
              · cases h; rfl
              · split at h
                · cases h; rfl
                · exact ih _ _ _ h
        exact this _ _ _ _ _ herr
      · split
        · rename_i err herr
          split at herr
          · rename_i hm
            have hmr : fl.markReduced = true := by
              simp only [Bool.and_eq_true] at hm
              exact hm.1
            have := markInputs_total ins outs (by rw [← hlen']; exact h hmr)
            rw [herr] at this
            exact this
          · cases herr
        · split
          · simp [NonInternal, PErr.isSemantic]
          · split
            · simp [NonInternal, PErr.isSemantic]
            · trivial

/-! ## The elementary signature in tree mode -/

theorem elOpTree_outs_length (fam : Family) (eins : List Expr) (eouts : Option (List Expr)) (h : fam ≠ .id) :
    (elOpTree fam eins eouts).outs.length = 1 := by
  cases fam <;> simp [elOpTree] at h ⊢
  split <;> rfl

theorem updateAtIns_length (eins : List Expr) (h : (updateAtIns eins).length = eins.length) : 0 < eins.length := by
  cases eins with
  | nil => simp [updateAtIns] at h
  | cons a as => simp

theorem parseOpTree_total (fam : Family) (fl : Flags) (hs : flagsSafe fam fl = true) (kd : Bool) (ins : List Expr)
    (outs : Option (List Expr)) : NonInternal (parseOpTree .tree fam fl kd ins outs) := by
  unfold parseOpTree
  dsimp only
  split
  · simp [NonInternal, PErr.isSemantic]
  · split
    · simp [NonInternal, PErr.isSemantic]
    · simp only [elOp]
      split
      · simp [NonInternal, PErr.isSemantic]
      · rename_i hin
        have hin' : (elOpTree fam (ins.map toEl) (outs.map (fun o => o.map toEl))).ins.length = (ins.map toEl).length := by
          simpa using hin
        simp only [flagsSafe, Bool.and_eq_true, Bool.or_eq_true, Bool.not_eq_true', bne_iff_ne, ne_eq] at hs
        have hmark : fl.markReduced = true → (elOpTree fam (ins.map toEl) (outs.map (fun o => o.map toEl))).outs.length = 1 := by
          intro hm
          apply elOpTree_outs_length
          rcases hs.2 with h | h
          · rw [hm] at h; cases h
          · exact h
        cases outs with
        | some o =>
          dsimp only
          split
          · simp [NonInternal, PErr.isSemantic]
          · exact finish_total _ _ _ _ hmark
        | none =>
          simp only [Option.map_none]
          have himp : NonInternal (implicitOut fl kd (elOpTree fam (ins.map toEl) none) ins) := by
            cases hi : fl.implicit with
            | none => rw [implicitOut_none _ _ _ _ hi]; rfl
            | bijective => exact implicitOut_bijective_total _ _ _ _ hi
            | index i =>
              have h1 := hs.1
              rw [hi] at h1
              simp only [Bool.and_eq_true, beq_iff_eq] at h1
              obtain ⟨hi0, hfam⟩ := h1
              subst hi0
              subst hfam
              apply implicitOut_index_total _ _ _ _ 0 hi
              have := updateAtIns_length (ins.map toEl) (by simpa [elOpTree] using hin')
              simpa using this
            | indices is => have h1 := hs.1; rw [hi] at h1; cases h1
            | invalid => have h1 := hs.1; rw [hi] at h1; cases h1
          cases hio : implicitOut fl kd (elOpTree fam (ins.map toEl) none) ins with
          | error e => rw [hio] at himp; exact himp
          | ok o =>
            have := hmark
            simp only [Option.map_none] at this
            exact finish_total _ _ _ _ this

/-- The flags every wrapper of the source passes (regenerated from /repo on every run) are safe. -/
theorem family_flags_safe_bool (fam : Family) :
    (match flagsOf fam with | some fl => flagsSafe fam fl | none => false) = true := by
  cases fam <;> decide

theorem family_flags_safe (fam : Family) : ∃ fl, flagsOf fam = some fl ∧ flagsSafe fam fl = true := by
  have h := family_flags_safe_bool fam
  cases hf : flagsOf fam with
  | none => rw [hf] at h; cases h
  | some fl => rw [hf] at h; exact ⟨fl, rfl, h⟩

end Einx.Elab

namespace Einx.Elab
open Einx.Notation

/-! ## Inversion: what an accepted call has passed -/

theorem bracketCheck_none_get (o : Bool) : ∀ (i : Nat) (as ss : List Expr), bracketCheck o i as ss = none →
    ∀ (j : Nat) (a s : Expr), as[j]? = some a → ss[j]? = some s → isScalar a = isScalar s
  | _, [], _, _ => by intro j a s ha; simp at ha
  | _, _ :: _, [], _ => by intro j a s _ hs; simp at hs
  | i, a0 :: as, s0 :: ss, h => by
    simp only [bracketCheck] at h
    split at h
    · cases h
    · split at h
      · cases h
      · rename_i h1 h2
        intro j a s ha hs
        cases j with
        | zero =>
          simp only [List.getElem?_cons_zero, Option.some.injEq] at ha hs
          subst ha; subst hs
          cases ha' : isScalar a0 <;> cases hs' : isScalar s0 <;> simp_all
        | succ j =>
          simp only [List.getElem?_cons_succ] at ha hs
          exact bracketCheck_none_get o (i + 1) as ss h j a s ha hs

/-- Everything `finish` has checked when it returns a result. -/
theorem finish_ok_inv {fl : Flags} {el : ElOp} {ins outs : List Expr} {r : List Expr × List Expr}
    (h : finish fl el ins outs = .ok r) :
    el.outs.length = outs.length ∧
    bracketCheck false 0 el.ins (ins.map toEl) = none ∧
    bracketCheck true 0 el.outs (outs.map toEl) = none ∧
    (if fl.markReduced && !ins.any hasBrackets then markInputs ins outs else .ok ins) = .ok r.1 ∧
    outs.any outputHasDup = false ∧
    (fl.allowDupEl = false → (r.1 ++ outs).any (fun x => hasDup (markedNames x)) = false) ∧
    r.2 = outs := by
  unfold finish at h
  split at h
  · cases h
  · rename_i hlen
    split at h
    · cases h
    · rename_i hb1
      split at h
      · cases h
      · rename_i hb2
        split at h
        · cases h
        · rename_i ins' hm
          split at h
          · cases h
          · rename_i hod
            split at h
            · cases h
            · rename_i hbd
              cases h
              refine ⟨by simpa using hlen, hb1, hb2, hm, by simpa using hod, ?_, rfl⟩
              intro hdup
              simp only [hdup, Bool.not_false, Bool.true_and] at hbd
              simpa using hbd

/-- Everything `_parse_op` has checked when it returns a result. -/
theorem parseOpTree_ok_inv {mode : ElMode} {fam : Family} {fl : Flags} {kd : Bool} {ins : List Expr} {outs : Option (List Expr)}
    {r : List Expr × List Expr} (h : parseOpTree mode fam fl kd ins outs = .ok r) :
    (fl.allowConcat = true ∨ (ins ++ outs.getD []).any hasConcat = false) ∧
    (ins ++ outs.getD []).any (concatTouchesBrackets false) = false ∧
    ∃ el, elOp mode fam (ins.map toEl) (outs.map (fun o => o.map toEl)) = .ok el ∧
      el.ins.length = ins.length ∧
      ∃ o, (outs = some o ∨ (outs = none ∧ implicitOut fl kd el ins = .ok o)) ∧ finish fl el ins o = .ok r := by
  unfold parseOpTree at h
  dsimp only at h
  split at h
  · cases h
  · rename_i hc
    split at h
    · cases h
    · rename_i ht
      split at h
      · cases h
      · rename_i el hel
        split at h
        · cases h
        · rename_i hin
          refine ⟨?_, by simpa using ht, el, hel, by simpa using hin, ?_⟩
          · cases ha : fl.allowConcat
            · right; simpa [ha] using hc
            · left; rfl
          · cases outs with
            | some o =>
              dsimp only at h
              split at h
              · cases h
              · exact ⟨o, Or.inl rfl, h⟩
            | none =>
              dsimp only at h
              split at h
              · cases h
              · rename_i o hio
                exact ⟨o, Or.inr ⟨rfl, hio⟩, h⟩

/-- In tree mode with safe flags, "not accepted" means "rejected with a `SemanticError`". -/
theorem rejected_semantic {fam : Family} {fl : Flags} (hs : flagsSafe fam fl = true) {kd : Bool} {ins : List Expr}
    {outs : Option (List Expr)} (h : ∀ r, parseOpTree .tree fam fl kd ins outs ≠ .ok r) :
    ∃ e, parseOpTree .tree fam fl kd ins outs = .error e ∧ e.isSemantic = true := by
  have := parseOpTree_total fam fl hs kd ins outs
  cases hr : parseOpTree .tree fam fl kd ins outs with
  | ok r => exact absurd hr (h r)
  | error e => rw [hr] at this; exact ⟨e, rfl, this⟩

end Einx.Elab
