import EinxModel.Proofs.PyPrelude
import EinxModel.Generic.Diag
/-! Helper lemmas for the diagonal part of `Props/C17Xlate.lean`: the Python reading (integers that may be
negative, slices with negative bounds, keyword dicts) specialised to non-negative values.  Nothing here
mentions `Extracted/*`. -/
namespace Einx.Generic
open Einx.Py

/-! ### integers that are naturals -/

theorem natOfInt_ofNat (n : Nat) : natOfInt (Int.ofNat n) = .ok n := by
  unfold natOfInt
  have : ¬ (Int.ofNat n < 0) := by simp
  rw [if_neg this]
  rfl

theorem mapM_natOfInt_ofNat : ∀ l : List Nat, (l.map Int.ofNat).mapM natOfInt = .ok l
  | [] => rfl
  | a :: l => by
    rw [List.map_cons, List.mapM_cons, natOfInt_ofNat, mapM_natOfInt_ofNat l]
    rfl

theorem insertSorted_ofNat (x : Nat) : ∀ m : List Nat,
    insertSorted (Int.ofNat x) (m.map Int.ofNat) = (insertSortedNat x m).map Int.ofNat
  | [] => rfl
  | y :: ys => by
    have ih := insertSorted_ofNat x ys
    by_cases h : x < y
    · have hh : Int.ofNat x < Int.ofNat y := Int.ofNat_lt.mpr h
      simp only [List.map_cons, insertSorted, insertSortedNat, if_pos h, if_pos hh]
    · have hh : ¬ (Int.ofNat x < Int.ofNat y) := fun h2 => h (Int.ofNat_lt.mp h2)
      simp only [List.map_cons, insertSorted, insertSortedNat, if_neg h, if_neg hh, ih]

theorem sortedInt_fold (l : List Nat) : ∀ acc : List Nat,
    (l.map Int.ofNat).foldl (fun acc x => insertSorted x acc) (acc.map Int.ofNat)
      = (l.foldl (fun acc x => insertSortedNat x acc) acc).map Int.ofNat := by
  induction l with
  | nil => intro acc; rfl
  | cons a l ih =>
    intro acc
    simp only [List.map_cons, List.foldl_cons]
    rw [insertSorted_ofNat, ih]

/-- `sorted` on integers that are naturals is `sorted` on the naturals. -/
theorem sortedInt_map_ofNat (l : List Nat) : sortedInt (l.map Int.ofNat) = (sortedNat l).map Int.ofNat := by
  have := sortedInt_fold l []
  simpa [sortedInt, sortedNat] using this

/-! ### slices with the bound `-2` -/

theorem clampBound_neg2 (len : Nat) : clampBound len (-2 : Int) = len - 2 := by
  unfold clampBound
  have h1 : ((-2 : Int) < 0) := by decide
  have h2 : (-(-2 : Int)).toNat = 2 := by decide
  simp only [h1, if_true, h2]
  by_cases h : 2 ≤ len
  · simp [h]
  · simp [h]; omega

theorem slice_suffix2 {α : Type} (l : List α) : slice l (some (-2 : Int)) none = l.drop (l.length - 2) := by
  simp [slice, clampBound_neg2]

theorem slice_prefix2 {α : Type} (l : List α) : slice l none (some (-2 : Int)) = l.take (l.length - 2) := by
  simp [slice, clampBound_neg2]

/-- A list with more than one element ends in exactly two elements. -/
theorem drop_last_two {α : Type} (l : List α) (h : l.length > 1) : ∃ a b, l.drop (l.length - 2) = [a, b] := by
  have hl : (l.drop (l.length - 2)).length = 2 := by simp; omega
  match hd : l.drop (l.length - 2), hl with
  | [a, b], _ => exact ⟨a, b, rfl⟩

/-! ### the keyword dict of `np.diagonal` -/

theorem npDiagonalKw_two (s : St) (a b : Nat) :
    St.npDiagonalKw s (dictSet (dictSet [] "axis1" (Int.ofNat a)) "axis2" (Int.ofNat b)) = St.npDiagonal s a b := by
  have e : dictSet (dictSet ([] : List (String × Int)) "axis1" (Int.ofNat a)) "axis2" (Int.ofNat b)
      = [("axis1", Int.ofNat a), ("axis2", Int.ofNat b)] := by
    simp [dictSet]
  rw [e]
  unfold St.npDiagonalKw
  have g1 : dictGet [("axis1", Int.ofNat a), ("axis2", Int.ofNat b)] "axis1" = .ok (Int.ofNat a) := by
    simp [dictGet, List.lookup]
  have g2 : dictGet [("axis1", Int.ofNat a), ("axis2", Int.ofNat b)] "axis2" = .ok (Int.ofNat b) := by
    simp [dictGet, List.lookup]
  rw [g1, g2]
  rfl

/-- The result of a traced `np.diagonal` has at least one axis (the diagonal). -/
theorem npDiagonal_rank_pos {s s' : St} {a b : Nat} (h : s.npDiagonal a b = .ok s') : 1 ≤ s'.shape.length := by
  unfold St.npDiagonal at h
  split at h
  · cases h
  · split at h
    · cases h
    · cases h
      simp [St.emit, diagShape]

theorem ofNat_sub_one (n : Nat) (h : 1 ≤ n) : Int.ofNat n - Int.ofNat 1 = Int.ofNat (n - 1) := by
  show (n : Int) - (1 : Int) = ((n - 1 : Nat) : Int)
  omega

theorem ok_bind {ε α β : Type} (a : α) (f : α → Except ε β) : (Except.ok a >>= f) = f a := rfl

/-! ### the loop -/

/-- One iteration of the model's loop, on naturals. -/
def diagIter (s : St) (l : List Nat) : Except String (St × List Nat) :=
  match l.drop (l.length - 2) with
  | [a1, a2] =>
    match s.npDiagonal a1 a2 with
    | .error e => .error e
    | .ok s' => .ok (s', l.take (l.length - 2) ++ [s'.shape.length - 1])
  | _ => .error "IndexError"

theorem diagLoop_succ (fuel : Nat) (s : St) (l : List Nat) :
    diagLoop (fuel + 1) s l = if l.length > 1 then (match diagIter s l with | .error e => .error e | .ok (s', l') => diagLoop fuel s' l') else .ok (s, l) := by
  rw [diagLoop]
  unfold diagIter
  split
  · split
    · split <;> simp_all
    · simp_all
  · rfl

/-- A bounded `while` whose test is `len(axes_in) > 1` and whose body is one `diagIter` on integer lists
is the model's loop. -/
theorem whileFuel_diag (cond : St × List Int → Except String Bool) (body : St × List Int → Except String (St × List Int))
    (hc : ∀ s l, cond (s, l) = .ok (decide (l.length > 1)))
    (hb : ∀ s (l : List Nat), l.length > 1 →
      body (s, l.map Int.ofNat) = (diagIter s l).map (fun p => (p.1, p.2.map Int.ofNat))) :
    ∀ (fuel : Nat) (s : St) (l : List Nat),
      whileFuel fuel cond body (s, l.map Int.ofNat) = (diagLoop fuel s l).map (fun p => (p.1, p.2.map Int.ofNat))
  | 0, s, l => by
    simp only [whileFuel, diagLoop, hc, List.length_map]
    by_cases h : l.length > 1 <;> simp [h] <;> rfl
  | fuel + 1, s, l => by
    rw [diagLoop_succ]
    simp only [whileFuel, hc, List.length_map]
    by_cases h : l.length > 1
    · simp only [h, decide_true, if_true]
      rw [hb s l h]
      cases hd : diagIter s l with
      | error e => rfl
      | ok p =>
        obtain ⟨s', l'⟩ := p
        simp only [Except.map]
        have := whileFuel_diag cond body hc hb fuel s' l'
        simp only [bind, Except.bind]
        rw [this]
        rfl
    · simp [h]; rfl
theorem npDiagonal_error {s : St} {a b : Nat} {e : String} (h : s.npDiagonal a b = .error e) : e = "ValueError" := by
  unfold St.npDiagonal at h
  split at h
  · cases h; rfl
  · split at h
    · cases h; rfl
    · cases h

/-- The fuel `len(axes_in)` of the bounded reading of `while len(axes_in) > 1` is sufficient: the loop never ends
with "FuelExhausted" (every iteration shortens the list by one), so the bounded loop is the unbounded one. -/
theorem diagLoop_fuel_sufficient : ∀ (fuel : Nat) (s : St) (axes : List Nat), axes.length ≤ fuel + 1 →
    diagLoop fuel s axes ≠ .error "FuelExhausted"
  | 0, s, axes, h => by
    have : ¬ (axes.length > 1) := by omega
    simp [diagLoop, this]
  | fuel + 1, s, axes, h => by
    rw [diagLoop_succ]
    by_cases hl : axes.length > 1
    · simp only [hl, if_true]
      unfold diagIter
      obtain ⟨a, b, hab⟩ := drop_last_two axes hl
      rw [hab]
      simp only
      cases hd : s.npDiagonal a b with
      | error e =>
        have := npDiagonal_error hd
        subst this
        simp
      | ok s' =>
        simp only
        apply diagLoop_fuel_sufficient fuel s'
        simp [List.length_take]
        omega
    · simp [hl]
/-! ### the final permutation -/

theorem filter_ne_ofNat (n a : Nat) :
    (List.range n).filter (fun i => Int.ofNat i != Int.ofNat a) = (List.range n).filter (fun i => i != a) := by
  apply List.filter_congr
  intro i _
  by_cases h : i = a
  · subst h; simp only [bne_self_eq_false]
  · have : Int.ofNat i ≠ Int.ofNat a := fun h2 => h (Int.ofNat.inj h2)
    rw [bne_iff_ne.mpr this, bne_iff_ne.mpr h]

theorem clampBound_ofNat (len k : Nat) : clampBound len (Int.ofNat k) = min k len := by
  unfold clampBound
  have : ¬ (Int.ofNat k < 0) := by simp
  have e : (Int.ofNat k).toNat = k := rfl
  simp only [this, if_false, e]
  by_cases h : k ≤ len
  · simp [h, Nat.min_eq_left h]
  · simp [h]; omega

theorem listInsert_ofNat (l : List Nat) (k a : Nat) :
    listInsert (l.map Int.ofNat) (Int.ofNat k) (Int.ofNat a) = (l.take k ++ a :: l.drop k).map Int.ofNat := by
  unfold listInsert
  simp only [List.length_map, clampBound_ofNat]
  by_cases h : k ≤ l.length
  · rw [Nat.min_eq_left h]
    simp [List.map_take, List.map_drop]
  · have h' : l.length ≤ k := by omega
    rw [Nat.min_eq_right h']
    have e1 : List.take l.length (l.map Int.ofNat) = l.map Int.ofNat := List.take_of_length_le (by simp)
    have e2 : List.drop l.length (l.map Int.ofNat) = [] := List.drop_of_length_le (by simp)
    rw [e1, e2, List.take_of_length_le h', List.drop_of_length_le h']
    simp

/-! ### what the permutation does (the defect D1 was a swap) -/

/-- **The diagonal axis is moved, not swapped**: `movePerm n axisIn axisOut` has `axisIn` at position
`axisOut` (when that position exists), and deleting that position leaves all other axes in their
original order. -/
theorem movePerm_spec (n axisIn axisOut : Nat) (hout : axisOut ≤ ((List.range n).filter (fun i => i != axisIn)).length) :
    (movePerm n axisIn axisOut)[axisOut]? = some axisIn
      ∧ (movePerm n axisIn axisOut).eraseIdx axisOut = (List.range n).filter (fun i => i != axisIn) := by
  unfold movePerm
  simp only
  generalize (List.range n).filter (fun i => i != axisIn) = rest at hout
  have hlen : (rest.take axisOut).length = axisOut := by simp [List.length_take]; omega
  constructor
  · rw [List.getElem?_append_right (by omega)]
    simp [hlen]
  · rw [List.eraseIdx_append_of_length_le (by omega)]
    simp [hlen]

end Einx.Generic
