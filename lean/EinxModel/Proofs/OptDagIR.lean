import EinxModel.Proofs.OptDagBasic
import EinxModel.Proofs.OptimizeSound
/-!
The IR instance of the DAG semantics satisfies the laws the patterns rely on (`irSem_laws`): the rule lemmas of C05
(`reshape_same_step`, `reshape_reshape_single`, `transpose_id_step`, `transpose_transpose_single`, `broadcast_same_step`,
`concat_singleton_step`) on the one-register file a call is executed on.
-/
namespace Einx.OptDag
open Einx Einx.IR Einx.Optimize

variable {α : Type}

/-- The four functions are different objects. -/
def NpFns.distinct (fns : NpFns) : Bool :=
  fns.reshape.obj != fns.transpose.obj && fns.reshape.obj != fns.broadcastTo.obj && fns.reshape.obj != fns.concatenate.obj &&
  fns.transpose.obj != fns.broadcastTo.obj && fns.transpose.obj != fns.concatenate.obj && fns.broadcastTo.obj != fns.concatenate.obj

section
variable (A : Alg α) (O : EApp (PV α) → Except String (PV α)) (fns : NpFns)

theorem isFn_obj (pat : FnPat) : ∀ (rpath : List String) (f : PV α), IsFn (irSem A O fns) pat rpath f → f = .obj (pat.robj rpath)
  | [], f, h => by
    obtain ⟨ea, hh, ha⟩ := h
    simp only [irSem, hh, pure, Except.pure, Except.ok.injEq] at ha
    exact ha.symm
  | k :: rest, f, h => by
    obtain ⟨m, ea, hm, hh, hp, ha⟩ := h
    have := isFn_obj pat rest m hm
    subst this
    simp only [irSem, hh, hp, pure, Except.pure, Except.ok.injEq] at ha
    exact ha.symm

theorem isFn_obj' (pat : FnPat) (f : PV α) (h : IsFn (irSem A O fns) pat pat.path.reverse f) : f = .obj pat.obj :=
  isFn_obj A O fns pat _ f h

theorem unlit_lits {V : Type} : ∀ v : List Tok, unlit (lits v : List (RTok V)) = some v
  | [] => rfl
  | t :: ts => by simp [lits, unlit, unlit_lits ts] ; exact (by simpa [lits] using congrArg (Option.map (t :: ·)) (unlit_lits (V := V) ts))

theorem seqNatsR_lits {V : Type} (v : List Tok) : seqNatsR (lits v : List (RTok V)) = seqNats v := by
  simp [seqNatsR, unlit_lits]

theorem seqNats_natsToks (p : List Nat) : seqNats (natsToks p) = some p := by
  have key : ∀ as : List Nat, (as.map (fun (n : Nat) => Tok.atom (.int (Int.ofNat n)))).mapM
      (fun t => match t with | Tok.atom (.int v) => if 0 ≤ v then some v.toNat else none | _ => none) = some as := by
    intro as
    induction as with
    | nil => rfl
    | cons a as ih =>
      simp only [List.map_cons, List.mapM_cons, ih]
      simp
  simp only [natsToks, seqNats, List.length_map, beq_self_eq_true, if_true]
  exact key p

/-- What a successful `unaryCall` looks like. -/
theorem unaryCall_ok (ea : EApp (PV α)) (mk : List Nat → Instr) (r : PV α) (h : unaryCall A ea mk = .ok r) :
    ∃ t lit s t', ea.args = [[.val (.tensor t)], lit] ∧ ea.kwargs = [] ∧ seqNatsR lit = some s ∧ step A [t] (mk s) = .ok t' ∧ r = .tensor t' := by
  unfold unaryCall at h
  split at h
  · rename_i t lit ha hk
    split at h
    · rename_i s hs
      obtain ⟨t', h1, h⟩ := OptDag.bind_ok.1 h
      simp only [pure, Except.pure, Except.ok.injEq] at h
      exact ⟨t, lit, s, t', ha, hk, hs, h1, h.symm⟩
    · cases h
  · cases h

theorem unaryCall_mk (f : PV α) (t : Tensor α) (lit : List Tok) (s : List Nat) (mk : List Nat → Instr) (t' : Tensor α)
    (hs : seqNats lit = some s) (h : step A [t] (mk s) = .ok t') :
    unaryCall A (mergedCall f [.val (.tensor t)] lit) mk = .ok (.tensor t') := by
  simp only [unaryCall, mergedCall, seqNatsR_lits, hs, h, bind, Except.bind, pure, Except.pure]

/-- Dispatch of a call of one of the four functions. -/
theorem app_call (ea : EApp (PV α)) (o : PyObj) (hh : ea.head = .call) (hp : ea.pre = [[.val (.obj o)]]) :
    (irSem A O fns).app ea =
      if o = fns.reshape.obj then unaryCall A ea (.reshape 0)
      else if o = fns.transpose.obj then unaryCall A ea (.transpose 0)
      else if o = fns.broadcastTo.obj then unaryCall A ea (.broadcastTo 0)
      else if o = fns.concatenate.obj then concatCall A ea
      else O ea := by
  simp only [irSem, hh, hp]

theorem shapeOf_tensor (x : PV α) (s : List Nat) (h : (irSem A O fns).shapeOf x = some s) :
    ∃ t, x = .tensor t ∧ t.shape = s ∧ t.data.length = prod t.shape := by
  cases x with
  | obj o => simp [irSem] at h
  | tensor t =>
    simp only [irSem] at h
    split at h
    · rename_i hw
      simp only [Option.some.injEq] at h
      exact ⟨t, rfl, h, hw⟩
    · cases h

end

/-- **The IR semantics satisfies the laws** the patterns of a backend rely on (the four functions being different objects). -/
theorem irSem_laws (A : Alg α) (O : EApp (PV α) → Except String (PV α)) (fns : NpFns) (hd : fns.distinct = true) :
    (irSem A O fns).Laws fns.patterns := by
  simp only [NpFns.distinct, Bool.and_eq_true, bne_iff_ne, ne_eq] at hd
  obtain ⟨⟨⟨⟨⟨d1, d2⟩, d3⟩, d4⟩, d5⟩, d6⟩ := hd
  have mem_r : ∀ pat, Pattern.skipReshape pat ∈ fns.patterns → pat = fns.reshape := by
    intro pat h; simpa [NpFns.patterns] using h
  have mem_t : ∀ pat, Pattern.skipTranspose pat ∈ fns.patterns → pat = fns.transpose := by
    intro pat h; simpa [NpFns.patterns] using h
  have mem_b : ∀ pat, Pattern.skipBroadcastTo pat ∈ fns.patterns → pat = fns.broadcastTo := by
    intro pat h; simpa [NpFns.patterns] using h
  have mem_c : ∀ pat, Pattern.skipConcatenate pat ∈ fns.patterns → pat = fns.concatenate := by
    intro pat h; simpa [NpFns.patterns] using h
  -- a call of a pattern's function dispatches on that function's object
  have call_of : ∀ (pat : FnPat) (ea : EApp (PV α)), IsCall (irSem A O fns) pat ea →
      ea.head = .call ∧ ea.pre = [[.val (.obj pat.obj)]] := by
    intro pat ea h
    obtain ⟨hh, f, hp, hf⟩ := h
    have := isFn_obj' A O fns pat f hf
    subst this
    exact ⟨hh, hp⟩
  refine ⟨?_, ?_, ?_, ?_, ?_, ?_, ?_⟩
  · -- cast_id
    intro ea v r hh hp ho h
    simp only [irSem, hh, hp, ho, pure, Except.pure, Except.ok.injEq] at h
    exact h.symm
  · -- reshape_noop
    intro pat hp ea x r shape s hc h0 h1 hs hx h
    have := mem_r pat hp; subst this
    obtain ⟨hh, hpre⟩ := call_of _ ea hc
    rw [app_call A O fns ea _ hh hpre, if_pos rfl] at h
    obtain ⟨t, lit, s', t', ha, _, hs', hst, rfl⟩ := unaryCall_ok A ea _ r h
    rw [ha] at h0 h1
    simp only [List.getElem?_cons_zero, Option.some.injEq, List.cons.injEq, RTok.val.injEq, and_true] at h0
    simp only [List.getElem?_cons_succ, List.getElem?_cons_zero, Option.some.injEq] at h1
    subst h0; subst h1
    rw [seqNatsR_lits, hs] at hs'
    cases hs'
    obtain ⟨t2, e, hsh, hwf⟩ := shapeOf_tensor A O fns _ s hx
    cases e
    rw [← hsh, reshape_same_step A [t] 0 t rfl hwf] at hst
    cases hst
    rfl
  · -- reshape_merge
    intro pat hp ea1 ea2 f xE y z shape hc1 h10 happ1 hh2 hp2 hf2 h20 h21 happ2
    have := mem_r pat hp; subst this
    obtain ⟨hh1, hpre1⟩ := call_of _ ea1 hc1
    have := isFn_obj' A O fns _ f hf2
    subst this
    rw [app_call A O fns ea1 _ hh1 hpre1, if_pos rfl] at happ1
    rw [app_call A O fns ea2 _ hh2 hp2, if_pos rfl] at happ2
    obtain ⟨t, lit1, s1, ty, ha1, _, hs1, hst1, rfl⟩ := unaryCall_ok A ea1 _ y happ1
    obtain ⟨t2, lit2, s2, tz, ha2, _, hs2, hst2, rfl⟩ := unaryCall_ok A ea2 _ z happ2
    rw [ha1] at h10
    rw [ha2] at h20 h21
    simp only [List.getElem?_cons_zero, Option.some.injEq] at h10 h20
    simp only [List.getElem?_cons_succ, List.getElem?_cons_zero, Option.some.injEq] at h21
    subst h10; subst h21
    simp only [List.cons.injEq, RTok.val.injEq, PV.tensor.injEq, and_true] at h20
    subst h20
    rw [seqNatsR_lits] at hs2
    rw [app_call A O fns _ _ rfl rfl, if_pos rfl]
    exact unaryCall_mk A _ t shape s2 _ tz hs2 (reshape_reshape_single A t t2 tz s1 s2 hst1 hst2)
  · -- transpose_noop
    intro pat hp ea x r perm p s hc h0 h1 hs hx hn h
    have := mem_t pat hp; subst this
    obtain ⟨hh, hpre⟩ := call_of _ ea hc
    rw [app_call A O fns ea _ hh hpre, if_neg (Ne.symm d1), if_pos rfl] at h
    obtain ⟨t, lit, s', t', ha, _, hs', hst, rfl⟩ := unaryCall_ok A ea _ r h
    rw [ha] at h0 h1
    simp only [List.getElem?_cons_zero, Option.some.injEq, List.cons.injEq, RTok.val.injEq, and_true] at h0
    simp only [List.getElem?_cons_succ, List.getElem?_cons_zero, Option.some.injEq] at h1
    subst h0; subst h1
    rw [seqNatsR_lits, hs] at hs'
    cases hs'
    obtain ⟨t2, e, hsh, hwf⟩ := shapeOf_tensor A O fns _ s hx
    cases e
    have hp' : p = List.range t.shape.length := by
      rw [hsh]; simpa [Extracted.transposeNoop] using hn
    rw [hp', transpose_id_step A [t] 0 t rfl hwf] at hst
    cases hst
    rfl
  · -- transpose_merge
    intro pat hp ea1 ea2 f xE y z perm1 perm2 p1 p2 p hc1 h10 h11 happ1 hh2 hp2 hf2 h20 h21 happ2 hs1 hs2 hc
    have := mem_t pat hp; subst this
    obtain ⟨hh1, hpre1⟩ := call_of _ ea1 hc1
    have := isFn_obj' A O fns _ f hf2
    subst this
    rw [app_call A O fns ea1 _ hh1 hpre1, if_neg (Ne.symm d1), if_pos rfl] at happ1
    rw [app_call A O fns ea2 _ hh2 hp2, if_neg (Ne.symm d1), if_pos rfl] at happ2
    obtain ⟨t, lit1, q1, ty, ha1, _, hq1, hst1, rfl⟩ := unaryCall_ok A ea1 _ y happ1
    obtain ⟨t2, lit2, q2, tz, ha2, _, hq2, hst2, rfl⟩ := unaryCall_ok A ea2 _ z happ2
    rw [ha1] at h10 h11
    rw [ha2] at h20 h21
    simp only [List.getElem?_cons_zero, Option.some.injEq] at h10 h20
    simp only [List.getElem?_cons_succ, List.getElem?_cons_zero, Option.some.injEq] at h11 h21
    subst h10; subst h11; subst h21
    simp only [List.cons.injEq, RTok.val.injEq, PV.tensor.injEq, and_true] at h20
    subst h20
    rw [seqNatsR_lits, hs1] at hq1
    rw [seqNatsR_lits, hs2] at hq2
    cases hq1; cases hq2
    rw [app_call A O fns _ _ rfl rfl, if_neg (Ne.symm d1), if_pos rfl]
    exact unaryCall_mk A _ t (natsToks p) p _ tz (seqNats_natsToks p) (transpose_transpose_single A t t2 tz p1 p2 p hst1 hst2 hc)
  · -- broadcast_noop
    intro pat hp ea x r shape s hc h0 h1 hs hx h
    have := mem_b pat hp; subst this
    obtain ⟨hh, hpre⟩ := call_of _ ea hc
    rw [app_call A O fns ea _ hh hpre, if_neg (Ne.symm d2), if_neg (Ne.symm d4), if_pos rfl] at h
    obtain ⟨t, lit, s', t', ha, _, hs', hst, rfl⟩ := unaryCall_ok A ea _ r h
    rw [ha] at h0 h1
    simp only [List.getElem?_cons_zero, Option.some.injEq, List.cons.injEq, RTok.val.injEq, and_true] at h0
    simp only [List.getElem?_cons_succ, List.getElem?_cons_zero, Option.some.injEq] at h1
    subst h0; subst h1
    rw [seqNatsR_lits, hs] at hs'
    cases hs'
    obtain ⟨t2, e, hsh, hwf⟩ := shapeOf_tensor A O fns _ s hx
    cases e
    rw [← hsh, broadcast_same_step A [t] 0 t rfl hwf] at hst
    cases hst
    rfl
  · -- concat_noop
    intro pat hp ea r c es hc h0 hcc h
    have := mem_c pat hp; subst this
    obtain ⟨hh, hpre⟩ := call_of _ ea hc
    rw [app_call A O fns ea _ hh hpre, if_neg (Ne.symm d3), if_neg (Ne.symm d5), if_neg (Ne.symm d6), if_pos rfl] at h
    unfold concatCall at h
    split at h
    · rename_i c' n es' k ha hk
      rw [ha] at h0
      simp only [List.getElem?_cons_zero, Option.some.injEq, List.cons.injEq, RTok.lit.injEq, Tok.open_.injEq] at h0
      obtain ⟨⟨rfl, rfl⟩, rfl⟩ := h0
      split at h
      · rename_i hck
        split at h
        · rename_i ts hts
          split at h
          · rename_i hl
            obtain ⟨t', hst, h⟩ := OptDag.bind_ok.1 h
            simp only [pure, Except.pure, Except.ok.injEq] at h
            subst h
            simp only [Bool.and_eq_true, beq_iff_eq, List.all_eq_true] at hl
            obtain ⟨hl1, hwf⟩ := hl
            match ts, hl1 with
            | [t], _ =>
              have hes : es' = [.val (.tensor t)] := by
                cases es' with
                | nil => simp [tensorsOf] at hts
                | cons e rest =>
                  cases e with
                  | lit _ => simp [tensorsOf] at hts
                  | val v =>
                    cases v with
                    | obj _ => simp [tensorsOf] at hts
                    | tensor t0 =>
                      simp only [tensorsOf] at hts
                      cases hr : tensorsOf rest with
                      | none => simp [hr] at hts
                      | some ts' =>
                        simp only [hr, Option.map_some, Option.some.injEq, List.cons.injEq] at hts
                        obtain ⟨rfl, rfl⟩ := hts
                        cases rest with
                        | nil => rfl
                        | cons e2 r2 =>
                          cases e2 with
                          | lit _ => simp [tensorsOf] at hr
                          | val v2 =>
                            cases v2 with
                            | obj _ => simp [tensorsOf] at hr
                            | tensor _ =>
                              simp only [tensorsOf] at hr
                              cases hr2 : tensorsOf r2 with
                              | none => simp [hr2] at hr
                              | some _ => simp [hr2] at hr
              subst hes
              have hw : t.data.length = prod t.shape := by simpa using hwf t (by simp)
              have hax := step_concat1_axis A t k.toNat t' (by simpa using hst)
              have := concat_singleton_step A [t] 0 k.toNat t rfl hw hax
              have hst' : step A [t] (.concat [0] k.toNat) = .ok t' := by simpa using hst
              rw [this] at hst'
              cases hst'
              rfl
          · cases h
        · cases h
      · cases h
    · cases h

end Einx.OptDag
