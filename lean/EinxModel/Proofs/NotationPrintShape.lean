import EinxModel.Proofs.NotationPrintDefs
/-!
# M1 Notation — `shape` lemmas for the re-printing theorem

The normal-form predicates `Q`/`QArgs`/`QRoot` and `canonShape` only depend on the `shape` of a tree; a printable tree is
in normal form; `canonShape (preTree t) = t.shape`.
-/
namespace Einx.Notation

theorem shapeL_eq_map : ∀ cs : List Expr, shapeL cs = cs.map Expr.shape
  | [] => rfl
  | c :: cs => by simp only [shapeL, List.map_cons, shapeL_eq_map cs]

mutual
theorem shape_shape : ∀ x : Expr, x.shape.shape = x.shape
  | .axis n v _ _ => by cases v <;> rfl
  | .flat i _ _ => by simp only [Expr.shape, shape_shape i]
  | .brackets i _ _ => by simp only [Expr.shape, shape_shape i]
  | .ellipsis i _ _ _ => by simp only [Expr.shape, shape_shape i]
  | .concat cs _ _ => by simp only [Expr.shape, shapeL_shapeL cs]
  | .list cs _ _ => by simp only [Expr.shape, shapeL_shapeL cs]
  | .args cs _ _ => by simp only [Expr.shape, shapeL_shapeL cs]
  | .op cs _ _ => by simp only [Expr.shape, shapeL_shapeL cs]
theorem shapeL_shapeL : ∀ cs : List Expr, shapeL (shapeL cs) = shapeL cs
  | [] => rfl
  | c :: cs => by simp only [shapeL, shape_shape c, shapeL_shapeL cs]
end

theorem shapeL_length (cs : List Expr) : (shapeL cs).length = cs.length := by
  rw [shapeL_eq_map, List.length_map]

theorem isFlat_shape (x : Expr) : x.shape.isFlat = x.isFlat := by
  cases x with
  | axis n v b e => cases v <;> rfl
  | _ => rfl
theorem isBrackets_shape (x : Expr) : x.shape.isBrackets = x.isBrackets := by
  cases x with
  | axis n v b e => cases v <;> rfl
  | _ => rfl
theorem isConcat_shape (x : Expr) : x.shape.isConcat = x.isConcat := by
  cases x with
  | axis n v b e => cases v <;> rfl
  | _ => rfl
theorem isEllipsis_shape (x : Expr) : x.shape.isEllipsis = x.isEllipsis := by
  cases x <;> first | rfl | (rename_i n v b e; cases v <;> rfl)

theorem isAxis_shape (x : Expr) : x.shape.isAxis = x.isAxis := by
  cases x with
  | axis n v b e => cases v <;> rfl
  | _ => rfl

mutual
theorem ndim_shape : ∀ x : Expr, x.shape.ndim = x.ndim
  | .axis n v _ _ => by cases v <;> rfl
  | .flat i _ _ => rfl
  | .brackets i _ _ => by simp only [Expr.shape, Expr.ndim, ndim_shape i]
  | .ellipsis i _ _ _ => by simp only [Expr.shape, Expr.ndim, ndim_shape i]
  | .concat cs _ _ => rfl
  | .list cs _ _ => by simp only [Expr.shape, Expr.ndim, ndimSum_shapeL cs]
  | .args cs _ _ => rfl
  | .op cs _ _ => rfl
theorem ndimSum_shapeL : ∀ cs : List Expr, ndimSum (shapeL cs) = ndimSum cs
  | [] => rfl
  | c :: cs => by simp only [shapeL, ndimSum, ndim_shape c, ndimSum_shapeL cs]
end

mutual
theorem Q_shape (inBr al : Bool) : ∀ x : Expr, Q inBr al x.shape = Q inBr al x
  | .axis n v _ _ => by cases v <;> rfl
  | .flat i _ _ => by simp only [Expr.shape, Q, isFlat_shape, Q_shape inBr true i]
  | .brackets i _ _ => by simp only [Expr.shape, Q, isBrackets_shape, ndim_shape, Q_shape true true i]
  | .ellipsis i _ _ _ => by
    simp only [Expr.shape, Q, isAxis_shape, isFlat_shape, isBrackets_shape, isConcat_shape, isEllipsis_shape,
      Q_shape inBr false i]
  | .concat cs _ _ => by simp only [Expr.shape, Q, shapeL_length, QL_shapeL inBr cs]
  | .list cs _ _ => by simp only [Expr.shape, Q, shapeL_length, QL_shapeL inBr cs]
  | .args cs _ _ => rfl
  | .op cs _ _ => rfl
theorem QL_shapeL (inBr : Bool) : ∀ cs : List Expr, QL inBr (shapeL cs) = QL inBr cs
  | [] => rfl
  | c :: cs => by simp only [shapeL, QL, Q_shape inBr false c, QL_shapeL inBr cs]
end

theorem all_Q_shapeL (cs : List Expr) : (shapeL cs).all (Q false true) = cs.all (Q false true) := by
  induction cs with
  | nil => rfl
  | cons c cs ih => simp only [shapeL, List.all_cons, Q_shape, ih]

theorem QArgs_shape (x : Expr) : QArgs x.shape = QArgs x := by
  cases x with
  | args as b e => simp only [Expr.shape, QArgs, all_Q_shapeL]
  | axis n v b e => cases v <;> rfl
  | flat i b e => simp only [Expr.shape, QArgs]; exact Q_shape false true (.flat i b e)
  | brackets i b e => simp only [Expr.shape, QArgs]; exact Q_shape false true (.brackets i b e)
  | ellipsis i d b e => simp only [Expr.shape, QArgs]; exact Q_shape false true (.ellipsis i d b e)
  | concat cs b e => simp only [Expr.shape, QArgs]; exact Q_shape false true (.concat cs b e)
  | list cs b e => simp only [Expr.shape, QArgs]; exact Q_shape false true (.list cs b e)
  | op cs b e => rfl

theorem all_QArgs_shapeL (cs : List Expr) : (shapeL cs).all QArgs = cs.all QArgs := by
  induction cs with
  | nil => rfl
  | cons c cs ih => simp only [shapeL, List.all_cons, QArgs_shape, ih]

theorem QRoot_shape (x : Expr) : QRoot x.shape = QRoot x := by
  cases x with
  | op cs b e => simp only [Expr.shape, QRoot, shapeL_length, all_QArgs_shapeL]
  | args as b e => simp only [Expr.shape, QRoot]; exact QArgs_shape (.args as b e)
  | axis n v b e => cases v <;> rfl
  | flat i b e => simp only [Expr.shape, QRoot]; exact QArgs_shape (.flat i b e)
  | brackets i b e => simp only [Expr.shape, QRoot]; exact QArgs_shape (.brackets i b e)
  | ellipsis i d b e => simp only [Expr.shape, QRoot]; exact QArgs_shape (.ellipsis i d b e)
  | concat cs b e => simp only [Expr.shape, QRoot]; exact QArgs_shape (.concat cs b e)
  | list cs b e => simp only [Expr.shape, QRoot]; exact QArgs_shape (.list cs b e)

/-! ### `canonShape` depends on the shape only -/

theorem wrapArgsS_shape (x : Expr) : wrapArgsS x.shape = wrapArgsS x := by
  cases x with
  | args as b e => simp only [Expr.shape, wrapArgsS, shapeL_shapeL]
  | axis n v b e => cases v <;> rfl
  | flat i b e => simp only [wrapArgsS, Expr.shape, shape_shape]
  | brackets i b e => simp only [wrapArgsS, Expr.shape, shape_shape]
  | ellipsis i d b e => simp only [wrapArgsS, Expr.shape, shape_shape]
  | concat cs b e => simp only [wrapArgsS, Expr.shape, shapeL_shapeL]
  | list cs b e => simp only [wrapArgsS, Expr.shape, shapeL_shapeL]
  | op cs b e => simp only [wrapArgsS, Expr.shape, shapeL_shapeL]

theorem map_wrapArgsS_shapeL (cs : List Expr) : (shapeL cs).map wrapArgsS = cs.map wrapArgsS := by
  induction cs with
  | nil => rfl
  | cons c cs ih => simp only [shapeL, List.map_cons, wrapArgsS_shape, ih]

theorem canonShape_shape (x : Expr) : canonShape x.shape = canonShape x := by
  cases x with
  | op cs b e => simp only [Expr.shape, canonShape, map_wrapArgsS_shapeL]
  | axis n v b e => cases v <;> rfl
  | args as b e => simp only [canonShape, ← wrapArgsS_shape (.args as b e)]; rfl
  | flat i b e => simp only [canonShape, ← wrapArgsS_shape (.flat i b e)]; rfl
  | brackets i b e => simp only [canonShape, ← wrapArgsS_shape (.brackets i b e)]; rfl
  | ellipsis i d b e => simp only [canonShape, ← wrapArgsS_shape (.ellipsis i d b e)]; rfl
  | concat cs b e => simp only [canonShape, ← wrapArgsS_shape (.concat cs b e)]; rfl
  | list cs b e => simp only [canonShape, ← wrapArgsS_shape (.list cs b e)]; rfl

/-! ### Printable trees are in normal form -/

mutual
theorem Q_of_PT (inBr al : Bool) : ∀ a : Expr, PT inBr al a = true → Q inBr al a = true
  | .axis .., _ => rfl
  | .flat i _ _, h => by
    simp only [PT, Bool.and_eq_true] at h
    simp only [Q, Bool.and_eq_true]
    exact ⟨h.1.1, Q_of_PT inBr true i h.2⟩
  | .brackets i _ _, h => by
    simp only [PT, Bool.and_eq_true] at h
    simp only [Q, Bool.and_eq_true]
    exact ⟨h.1, Q_of_PT true true i h.2⟩
  | .ellipsis i _ _ _, h => by
    simp only [PT, Bool.or_eq_true, Bool.and_eq_true] at h
    simp only [Q, Bool.and_eq_true]
    rcases h with h | ⟨⟨_, hop⟩, hi⟩
    · cases i with
      | axis n v b e => exact ⟨rfl, rfl⟩
      | _ => simp [isAnonAxisNone] at h
    · refine ⟨?_, Q_of_PT inBr false i hi⟩
      simp only [ellOperand, Bool.or_eq_true] at hop
      simp only [Bool.or_eq_true]
      rcases hop with hop | hop
      · exact Or.inl hop
      · right
        cases i <;> first | rfl | (simp [isEllAnon] at hop)
  | .concat cs _ _, h => by
    simp only [PT, Bool.and_eq_true] at h
    simp only [Q, Bool.and_eq_true]
    exact ⟨h.1.1, QL_of_PTL inBr cs h.2⟩
  | .list cs _ _, h => by
    simp only [PT, Bool.and_eq_true] at h
    simp only [Q, Bool.and_eq_true]
    exact ⟨h.1, QL_of_PTL inBr cs h.2⟩
  | .args .., h => by simp [PT] at h
  | .op .., h => by simp [PT] at h
theorem QL_of_PTL (inBr : Bool) : ∀ cs : List Expr, PTL inBr cs = true → QL inBr cs = true
  | [], _ => rfl
  | c :: cs, h => by
    simp only [PTL, Bool.and_eq_true] at h
    simp only [QL, Bool.and_eq_true]
    exact ⟨Q_of_PT inBr false c h.1, QL_of_PTL inBr cs h.2⟩
end

/-- A printable expression below `Args` is neither `Args` nor `Op`. -/
theorem PT_not_wrapper {inBr al : Bool} {a : Expr} (h : PT inBr al a = true) :
    QArgs a = Q false true a ∧ QRoot a = Q false true a ∧ wrapArgsS a = .args [a.shape] 0 0 ∧
      canonShape a = .op [.args [a.shape] 0 0] 0 0 ∧ unwrapArgs a = a := by
  cases a with
  | args as b e => simp [PT] at h
  | op cs b e => simp [PT] at h
  | _ => exact ⟨rfl, rfl, rfl, rfl, rfl⟩

theorem QArgs_unwrap {a : Expr} (h : PArgs a = true) :
    QArgs (unwrapArgs a) = true ∧ wrapArgsS (unwrapArgs a) = a.shape := by
  cases a with
  | args as b e =>
    simp only [PArgs, Bool.and_eq_true, List.all_eq_true] at h
    have hq : ∀ c ∈ as, Q false true c = true := fun c hc => Q_of_PT false true c (h.2 c hc)
    match as, h, hq with
    | [], h, _ => simp at h
    | [c], h, hq =>
      have hc := h.2 c (by simp)
      have hw := PT_not_wrapper hc
      simp only [unwrapArgs]
      exact ⟨by rw [hw.1]; exact hq c (by simp), by rw [hw.2.2.1]; simp only [Expr.shape, shapeL]⟩
    | c :: d :: r, h, hq =>
      simp only [unwrapArgs]
      exact ⟨by simpa only [QArgs, List.all_eq_true] using hq, by simp only [wrapArgsS, Expr.shape]⟩
  | _ => simp [PArgs] at h

/-- `preTree t` is what `finish_nf` expects, and its canonical shape is the shape of `t`. -/
theorem preTree_PRoot {t : Expr} (h : PRoot t = true) : QRoot (preTree t) = true ∧ canonShape (preTree t) = t.shape := by
  cases t with
  | op cs b e =>
    simp only [PRoot, Bool.and_eq_true, List.all_eq_true, Bool.or_eq_true, beq_iff_eq] at h
    match cs, h with
    | [], h => simp at h
    | [a], h =>
      have ha := h.2 a (by simp)
      have hu := QArgs_unwrap ha
      simp only [preTree]
      -- `unwrapArgs a` is a single side: not an `Op`
      cases a with
      | args as b' e' =>
        simp only [PArgs, Bool.and_eq_true, List.all_eq_true] at ha
        match as, ha, hu with
        | [], ha, _ => simp at ha
        | [c], ha, hu =>
          have hc := ha.2 c (by simp)
          have hw := PT_not_wrapper hc
          simp only [unwrapArgs] at hu ⊢
          refine ⟨by rw [hw.2.1, ← hw.1]; exact hu.1, ?_⟩
          rw [hw.2.2.2.1]
          simp only [Expr.shape, shapeL]
        | c :: d :: r, ha, hu =>
          simp only [unwrapArgs] at hu ⊢
          exact ⟨hu.1, by simp only [canonShape, wrapArgsS, Expr.shape, shapeL]⟩
      | _ => simp [PArgs] at ha
    | [a1, a2], h =>
      have h1 := QArgs_unwrap (h.2 a1 (by simp))
      have h2 := QArgs_unwrap (h.2 a2 (by simp))
      simp only [preTree, List.map_cons, List.map_nil]
      refine ⟨by simp only [QRoot, List.length_cons, List.length_nil, List.all_cons, List.all_nil, h1.1, h2.1]; rfl, ?_⟩
      simp only [canonShape, List.map_cons, List.map_nil, h1.2, h2.2, Expr.shape, shapeL]
    | a :: b :: c :: r, h => simp at h
  | _ => simp [PRoot] at h

end Einx.Notation
