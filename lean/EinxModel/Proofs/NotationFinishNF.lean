import EinxModel.Proofs.NotationPrintDefs
/-!
# M1 Notation — the passes after `parse` on trees in normal form (`finish_nf`)

On a `QRoot` tree the two `move_up` passes only add the missing `Op`/`Args` wrappers, and the redundant-brackets pass
is the identity.
-/
namespace Einx.Notation

namespace FinNF

/-! ### Wrappers -/

/-- `ch` is `cs` with every element wrapped into a one-child `Op`/`Args` (at any positions). -/
def Wraps (k : Lift) : List Expr → List Expr → Prop
  | [], [] => True
  | c :: cs, o :: os => (∃ b e, o = k.wrap [c] b e) ∧ Wraps k cs os
  | _, _ => False

theorem children_wrap (k : Lift) (cs : List Expr) (b e : Int) : (k.wrap cs b e).children = cs := by
  cases k <;> rfl

theorem b_wrap (k : Lift) (cs : List Expr) (b e : Int) : (k.wrap cs b e).b = b := by
  cases k <;> rfl

theorem e_wrap (k : Lift) (cs : List Expr) (b e : Int) : (k.wrap cs b e).e = e := by
  cases k <;> rfl

theorem pick_wrap (k : Lift) (idx : Nat) (c : Expr) (b e : Int) : pick idx (k.wrap [c] b e) = c := by
  unfold pick
  rw [children_wrap]

theorem wraps_pick {k : Lift} : ∀ {cs ch : List Expr}, Wraps k cs ch → ∀ idx, ch.map (pick idx) = cs
  | [], [], _, _ => rfl
  | c :: cs, o :: os, h, idx => by
    obtain ⟨⟨b, e, rfl⟩, h2⟩ := h
    simp only [List.map_cons, pick_wrap, wraps_pick h2 idx]
  | [], _ :: _, h, _ => h.elim
  | _ :: _, [], h, _ => h.elim

theorem wraps_nums {k : Lift} : ∀ {cs ch : List Expr}, Wraps k cs ch →
    (ch.map (fun c => c.children.length)).filter (· != 1) = []
  | [], [], _ => rfl
  | c :: cs, o :: os, h => by
    obtain ⟨⟨b, e, rfl⟩, h2⟩ := h
    have ih := wraps_nums h2
    simp only [List.map_cons, children_wrap, List.length_singleton]
    rw [List.filter_cons_of_neg (by decide)]
    exact ih
  | [], _ :: _, h => h.elim
  | _ :: _, [], h => h.elim

theorem wraps_flatMap {k : Lift} : ∀ {cs ch : List Expr}, Wraps k cs ch → ch.flatMap Expr.children = cs
  | [], [], _ => rfl
  | c :: cs, o :: os, h => by
    obtain ⟨⟨b, e, rfl⟩, h2⟩ := h
    simp only [List.flatMap_cons, children_wrap, wraps_flatMap h2, List.singleton_append]
  | [], _ :: _, h => h.elim
  | _ :: _, [], h => h.elim

/-- `distribute` on one-child wrappers: exactly one alternative. -/
theorem distribute_wraps (k : Lift) (cls : Cls) {cs ch : List Expr} (b e : Int) (arrows : List Int)
    (h : Wraps k cs ch) : distribute k cls ch b e arrows = .ok (k.wrap [cls.create cs b e] b e) := by
  unfold distribute
  simp only [wraps_nums h, wraps_pick h]
  rfl

/-- If `moveUp` wraps every element, `moveUpL` wraps the list. -/
theorem moveUpL_forall (k : Lift) (arrows : List Int) : ∀ (cs : List Expr),
    (∀ c ∈ cs, ∃ b e, moveUp k arrows c = .ok (k.wrap [c] b e)) → ∃ ch, moveUpL k arrows cs = .ok ch ∧ Wraps k cs ch
  | [], _ => ⟨[], rfl, trivial⟩
  | c :: cs, h => by
    obtain ⟨b, e, hc⟩ := h c (by simp)
    obtain ⟨ch, hch, hw⟩ := moveUpL_forall k arrows cs (fun c' hc' => h c' (by simp [hc']))
    refine ⟨k.wrap [c] b e :: ch, ?_, ⟨b, e, rfl⟩, hw⟩
    simp only [moveUpL, hc, hch]

/-! ### The smart constructors on normal forms -/

theorem mkFlat_nf {i : Expr} (b e : Int) (h : i.isFlat = false) : mkFlat i b e = .flat i b e := by
  simp [mkFlat, h]

theorem mkBrackets_nf {i : Expr} (b e : Int) (h1 : i.isBrackets = false) (h2 : (i.ndim != some 0) = true) :
    mkBrackets i b e = .brackets i b e := by
  have h3 : (i.ndim == some 0) = false := by simpa using h2
  simp [mkBrackets, h1, h3]

theorem mkEllipsis_nf {i : Expr} (b e : Int) (d : Nat) (h2 : (i.ndim != some 0) = true) :
    mkEllipsis i b e d = .ellipsis i d b e := by
  have h3 : (i.ndim == some 0) = false := by simpa using h2
  simp [mkEllipsis, h3]

theorem mkConcat_nf {cs : List Expr} (b e : Int) (h : 2 ≤ cs.length) : mkConcat cs b e = .concat cs b e := by
  match cs, h with
  | [], h => simp at h
  | [_], h => simp at h
  | _ :: _ :: _, _ => rfl

theorem flattenOne_nf {inBr : Bool} {c : Expr} (h : Q inBr false c = true) : flattenOne c = [c] := by
  cases c <;> first | rfl | simp [Q] at h

theorem flattenAll_nf {inBr : Bool} : ∀ {cs : List Expr}, QL inBr cs = true → flattenAll cs = cs
  | [], _ => by simp [flattenAll]
  | c :: cs, h => by
    simp only [QL, Bool.and_eq_true] at h
    simp only [flattenAll, flattenOne_nf h.1, flattenAll_nf h.2, List.singleton_append]

theorem mkList_nf {cs : List Expr} (b e : Int) (h1 : flattenAll cs = cs) (h2 : cs.length ≠ 1) :
    mkList cs b e = .list cs b e := by
  unfold mkList
  rw [h1]
  match cs, h2 with
  | [], _ => rfl
  | [_], h2 => simp at h2
  | _ :: _ :: _, _ => rfl

/-- What `Q` allows under an ellipsis has a non-zero number of dimensions. -/
theorem ndim_operand {inBr : Bool} : ∀ {i : Expr},
    (i.isAxis || i.isFlat || i.isBrackets || i.isConcat || i.isEllipsis) = true → Q inBr false i = true →
      (i.ndim != some 0) = true
  | .axis .., _, _ => by simp [Expr.ndim]
  | .flat .., _, _ => by simp [Expr.ndim]
  | .concat .., _, _ => by simp [Expr.ndim]
  | .brackets j b e, _, h2 => by
    simp only [Q, Bool.and_eq_true] at h2
    simpa [Expr.ndim] using h2.1.2
  | .ellipsis j d b e, _, h2 => by
    simp only [Q, Bool.and_eq_true] at h2
    have := ndim_operand h2.1 h2.2
    have hj : (j.ndim == some 0) = false := by simpa using this
    simp [Expr.ndim, hj]
  | .list .., h1, _ => by simp [Expr.isAxis, Expr.isFlat, Expr.isBrackets, Expr.isConcat, Expr.isEllipsis] at h1
  | .args .., h1, _ => by simp [Expr.isAxis, Expr.isFlat, Expr.isBrackets, Expr.isConcat, Expr.isEllipsis] at h1
  | .op .., h1, _ => by simp [Expr.isAxis, Expr.isFlat, Expr.isBrackets, Expr.isConcat, Expr.isEllipsis] at h1

/-! ### `moveUp` on normal forms -/

mutual
/-- Both `move_up` passes wrap a normal form below `Args` into a one-child `Op`/`Args`. -/
theorem moveUp_nf (k : Lift) (arrows : List Int) : ∀ (x : Expr) (inBr al : Bool), Q inBr al x = true →
    ∃ b' e', moveUp k arrows x = .ok (k.wrap [x] b' e')
  | .axis n v b e, _, _, _ => ⟨-1, -1, by simp only [moveUp]⟩
  | .flat i b e, inBr, _, h => by
    simp only [Q, Bool.and_eq_true, Bool.not_eq_true'] at h
    obtain ⟨b', e', hm⟩ := moveUp_nf k arrows i inBr true h.2
    refine ⟨b', e', ?_⟩
    simp only [moveUp, hm, children_wrap, b_wrap, e_wrap, List.map_cons, List.map_nil, mkFlat_nf b e h.1]
  | .brackets i b e, inBr, _, h => by
    simp only [Q, Bool.and_eq_true, Bool.not_eq_true'] at h
    obtain ⟨b', e', hm⟩ := moveUp_nf k arrows i true true h.2
    refine ⟨b', e', ?_⟩
    simp only [moveUp, hm, children_wrap, b_wrap, e_wrap, List.map_cons, List.map_nil,
      mkBrackets_nf b e h.1.1.2 h.1.2]
  | .ellipsis i d b e, inBr, _, h => by
    simp only [Q, Bool.and_eq_true] at h
    obtain ⟨b', e', hm⟩ := moveUp_nf k arrows i inBr false h.2
    refine ⟨b', e', ?_⟩
    have hn := ndim_operand (by simpa using h.1) h.2
    simp only [moveUp, hm, children_wrap, b_wrap, e_wrap, List.map_cons, List.map_nil, mkEllipsis_nf b e d hn]
  | .list cs b e, inBr, _, h => by
    simp only [Q, Bool.and_eq_true] at h
    obtain ⟨ch, hch, hw⟩ := moveUpL_forall k arrows cs (moveUpL_nf k arrows cs inBr h.2)
    refine ⟨b, e, ?_⟩
    simp only [moveUp, hch, distribute_wraps k .list b e arrows hw, Cls.create]
    rw [mkList_nf b e (flattenAll_nf h.2) (by simpa using h.1.2)]
  | .concat cs b e, inBr, _, h => by
    simp only [Q, Bool.and_eq_true, decide_eq_true_eq] at h
    obtain ⟨ch, hch, hw⟩ := moveUpL_forall k arrows cs (moveUpL_nf k arrows cs inBr h.2)
    refine ⟨b, e, ?_⟩
    simp only [moveUp, hch, distribute_wraps k .concat b e arrows hw, Cls.create]
    rw [mkConcat_nf b e h.1]
  | .args .., _, _, h => by simp [Q] at h
  | .op .., _, _, h => by simp [Q] at h
theorem moveUpL_nf (k : Lift) (arrows : List Int) : ∀ (cs : List Expr) (inBr : Bool), QL inBr cs = true →
    ∀ c ∈ cs, ∃ b e, moveUp k arrows c = .ok (k.wrap [c] b e)
  | [], _, _ => by simp
  | c :: cs, inBr, h => by
    simp only [QL, Bool.and_eq_true] at h
    intro c' hc'
    rcases List.mem_cons.mp hc' with hc' | hc'
    · rw [hc']; exact moveUp_nf k arrows c inBr false h.1
    · exact moveUpL_nf k arrows cs inBr h.2 c' hc'
end

/-! ### `traverse` on normal forms -/

mutual
/-- No redundant brackets in a normal form. -/
theorem traverse_nf : ∀ (x : Expr) (inBr al : Bool), Q inBr al x = true → traverse inBr x = x
  | .axis .., _, _, _ => by simp only [traverse]
  | .flat i b e, inBr, _, h => by
    simp only [Q, Bool.and_eq_true, Bool.not_eq_true'] at h
    simp only [traverse, traverse_nf i inBr true h.2, mkFlat_nf b e h.1]
  | .brackets i b e, inBr, _, h => by
    simp only [Q, Bool.and_eq_true, Bool.not_eq_true'] at h
    simp only [traverse, h.1.1.1, traverse_nf i true true h.2, mkBrackets_nf b e h.1.1.2 h.1.2]
    simp
  | .ellipsis i d b e, inBr, _, h => by
    simp only [Q, Bool.and_eq_true] at h
    have hn := ndim_operand (by simpa using h.1) h.2
    simp only [traverse, traverse_nf i inBr false h.2, mkEllipsis_nf b e d hn]
  | .list cs b e, inBr, _, h => by
    simp only [Q, Bool.and_eq_true] at h
    simp only [traverse, traverseL_nf cs inBr h.2]
    rw [mkList_nf b e (flattenAll_nf h.2) (by simpa using h.1.2)]
  | .concat cs b e, inBr, _, h => by
    simp only [Q, Bool.and_eq_true, decide_eq_true_eq] at h
    simp only [traverse, traverseL_nf cs inBr h.2]
    rw [mkConcat_nf b e h.1]
  | .args .., _, _, h => by simp [Q] at h
  | .op .., _, _, h => by simp [Q] at h
theorem traverseL_nf : ∀ (cs : List Expr) (inBr : Bool), QL inBr cs = true → traverseL inBr cs = cs
  | [], _, _ => by simp only [traverseL]
  | c :: cs, inBr, h => by
    simp only [QL, Bool.and_eq_true] at h
    simp only [traverseL, traverse_nf c inBr false h.1, traverseL_nf cs inBr h.2]
end

theorem traverseL_all : ∀ (cs : List Expr), cs.all (Q false true) = true → traverseL false cs = cs
  | [], _ => by simp only [traverseL]
  | c :: cs, h => by
    simp only [List.all_cons, Bool.and_eq_true] at h
    simp only [traverseL, traverse_nf c false true h.1, traverseL_all cs h.2]

/-! ### One side of `->` -/

/-- First pass on one side: wrapped into a one-child `Op`. -/
theorem moveUp_op_side (arrows : List Int) (a : Expr) (h : QArgs a = true) :
    ∃ b e, moveUp .op arrows a = .ok (.op [a] b e) := by
  cases a with
  | args as b e =>
    simp only [QArgs, List.all_eq_true] at h
    obtain ⟨ch, hch, hw⟩ := moveUpL_forall .op arrows as (fun c hc => moveUp_nf .op arrows c false true (h c hc))
    refine ⟨b, e, ?_⟩
    simp only [moveUp, hch, distribute_wraps .op .args b e arrows hw, Cls.create, Lift.wrap]
  | axis n v b e => exact moveUp_nf .op arrows _ false true h
  | flat i b e => exact moveUp_nf .op arrows _ false true h
  | brackets i b e => exact moveUp_nf .op arrows _ false true h
  | ellipsis i d b e => exact moveUp_nf .op arrows _ false true h
  | concat cs b e => exact moveUp_nf .op arrows _ false true h
  | list cs b e => exact moveUp_nf .op arrows _ false true h
  | op cs b e => simp [QArgs, Q] at h

/-- The properties of the `Args` node that the second pass returns for the side `a`. -/
def SideRes (arrows : List Int) (a : Expr) (sh : Expr) : Prop :=
  ∃ as b e, moveUp .args arrows a = .ok (.args as b e) ∧ traverseL false as = as ∧
    (Expr.args as b e).shape = sh ∧ ∀ br m, occsL br m as = occs br m a

theorem side_single (arrows : List Int) (a : Expr) (h : Q false true a = true) :
    SideRes arrows a (.args [a.shape] 0 0) := by
  obtain ⟨b, e, hm⟩ := moveUp_nf .args arrows a false true h
  refine ⟨[a], b, e, hm, ?_, ?_, ?_⟩
  · simp only [traverseL, traverse_nf a false true h]
  · simp only [Expr.shape, shapeL]
  · intro br m
    simp only [occsL, List.append_nil]

/-- Second pass on one side: an `Args` node with the same arguments. -/
theorem moveUp_args_side (arrows : List Int) (a : Expr) (h : QArgs a = true) : SideRes arrows a (wrapArgsS a) := by
  cases a with
  | args as b e =>
    simp only [QArgs] at h
    have h' := List.all_eq_true.mp h
    obtain ⟨ch, hch, hw⟩ := moveUpL_forall .args arrows as (fun c hc => moveUp_nf .args arrows c false true (h' c hc))
    refine ⟨as, b, e, ?_, traverseL_all as h, ?_, ?_⟩
    · simp only [moveUp, hch, wraps_flatMap hw]
    · simp only [Expr.shape, wrapArgsS]
    · intro br m
      simp only [occs]
  | axis n v b e => exact side_single arrows _ h
  | flat i b e => exact side_single arrows _ h
  | brackets i b e => exact side_single arrows _ h
  | ellipsis i d b e => exact side_single arrows _ h
  | concat cs b e => exact side_single arrows _ h
  | list cs b e => exact side_single arrows _ h
  | op cs b e => simp [QArgs, Q] at h

/-- A root that is a single side (no `->`). -/
theorem finish_single (arrows : List Int) (a : Expr) (h : QArgs a = true) :
    ∃ y, finish arrows a = checkBrackets y ∧ y.shape = .op [wrapArgsS a] 0 0 ∧ occs [] false y = occs [] false a := by
  obtain ⟨b1, e1, hm1⟩ := moveUp_op_side arrows a h
  obtain ⟨as, b, e, hm2, ht, hs, ho⟩ := moveUp_args_side arrows a h
  refine ⟨.op [.args as b e] b1 e1, ?_, ?_, ?_⟩
  · simp only [finish, hm1, moveUpL, hm2, traverse, traverseL, ht, Expr.children, List.length_singleton]
    simp
  · simp only [Expr.shape, shapeL] at hs ⊢
    rw [hs]
  · simp only [occs, occsL, ho, List.append_nil]

end FinNF

open FinNF

/-- On a tree in the normal form that `parse` produces for printed text (`QRoot`), the passes after `parse` only add the
    missing `Op`/`Args` wrappers: the result is `checkBrackets y` for a tree `y` whose shape is `canonShape x` and which has
    the same axis occurrences (names, own positions, enclosing brackets) as `x`. -/
theorem finish_nf (arrows : List Int) (x : Expr) (h : QRoot x = true) :
    ∃ y, finish arrows x = checkBrackets y ∧ y.shape = canonShape x ∧ occs [] false y = occs [] false x := by
  cases x with
  | op cs b e =>
    simp only [QRoot, Bool.and_eq_true, beq_iff_eq] at h
    obtain ⟨hl, hq⟩ := h
    match cs, hl, hq with
    | [a1, a2], _, hq =>
      simp only [List.all_cons, List.all_nil, Bool.and_true, Bool.and_eq_true] at hq
      obtain ⟨c1, d1, ho1⟩ := moveUp_op_side arrows a1 hq.1
      obtain ⟨c2, d2, ho2⟩ := moveUp_op_side arrows a2 hq.2
      obtain ⟨as1, b1, e1, hm1, ht1, hs1, hc1⟩ := moveUp_args_side arrows a1 hq.1
      obtain ⟨as2, b2, e2, hm2, ht2, hs2, hc2⟩ := moveUp_args_side arrows a2 hq.2
      refine ⟨.op [.args as1 b1 e1, .args as2 b2 e2] b e, ?_, ?_, ?_⟩
      · simp only [finish, moveUp, moveUpL, ho1, ho2, List.flatMap_cons, List.flatMap_nil, Expr.children,
          List.append_nil, List.singleton_append, hm1, hm2, traverse, traverseL, ht1, ht2, List.length_cons,
          List.length_nil]
        simp
      · simp only [Expr.shape, shapeL, canonShape, List.map_cons, List.map_nil] at hs1 hs2 ⊢
        rw [hs1, hs2]
      · simp only [occs, occsL, hc1, hc2, List.append_nil]
  | axis n v b e => exact finish_single arrows _ h
  | flat i b e => exact finish_single arrows _ h
  | brackets i b e => exact finish_single arrows _ h
  | ellipsis i d b e => exact finish_single arrows _ h
  | concat cs b e => exact finish_single arrows _ h
  | list cs b e => exact finish_single arrows _ h
  | args cs b e => exact finish_single arrows _ h

end Einx.Notation
