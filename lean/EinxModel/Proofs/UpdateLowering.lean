import EinxModel.Proofs.Update
/-! Soundness of the lowering of indexed updates (C14), core Lean only. -/
namespace Einx.Update

/-- The numpy primitive that realises a mode. -/
def Mode.prim : Mode → Prim
  | .set => .put
  | .add => .addAt
  | .sub => .subAt

/-- Every un-bracketed axis occurs in the coordinate/target expressions or in the update expression, and has positive length. -/
def Op.covered (op : Op) : Prop :=
  (∀ n ∈ op.axes, 0 < n) ∧ ∀ j, j < op.axes.length → j ∈ op.idxAxes ∨ j ∈ op.udims

/-! ### generic helpers -/

theorem mapOpt_map_of {α β γ : Type} {g : α → Option β} {f : α → Option γ} {h : β → γ} {l : List α}
    {cs : List β} (hg : mapOpt g l = some cs) (H : ∀ a ∈ l, ∀ c, g a = some c → f a = some (h c)) :
    mapOpt f l = some (cs.map h) := by
  induction l generalizing cs with
  | nil => simp [mapOpt] at hg; subst hg; rfl
  | cons a as ih =>
    simp only [mapOpt] at hg
    cases hga : g a with
    | none => simp [hga] at hg
    | some b =>
      cases hm : mapOpt g as with
      | none => simp [hga, hm] at hg
      | some bs =>
        simp [hga, hm] at hg; subst hg
        simp only [mapOpt, H a (List.mem_cons_self ..) b hga,
          ih hm (fun x hx => H x (List.mem_cons_of_mem _ hx)), List.map_cons]

theorem valid_iff_getElem? {s σ : List Nat} :
    Valid s σ ↔ σ.length = s.length ∧ ∀ j a i : Nat, s[j]? = some a → σ[j]? = some i → i < a := by
  induction s generalizing σ with
  | nil =>
    constructor
    · intro h; cases h; simp
    · rintro ⟨h, _⟩
      have : σ = [] := List.eq_nil_of_length_eq_zero h
      subst this; exact Valid.nil
  | cons a ss ih =>
    cases σ with
    | nil =>
      constructor
      · intro h; cases h
      · rintro ⟨h, _⟩; simp at h
    | cons i is =>
      constructor
      · intro h
        cases h with
        | cons h1 h2 =>
          obtain ⟨hl, hh⟩ := ih.mp h2
          refine ⟨by simp [hl], ?_⟩
          intro j
          cases j with
          | zero => simp; exact h1
          | succ j => simpa using hh j
      · rintro ⟨hl, hh⟩
        exact Valid.cons (hh 0 a i rfl rfl)
          (ih.mpr ⟨by simpa using hl, fun j => by simpa using hh (j + 1)⟩)

/-! ### masked shapes -/

/-- The index `σ` clamped to a shape with stretched (length 1) dimensions, as `broadcastTo` does. -/
def clamp (σ s : List Nat) : List Nat := List.zipWith (fun i a => if a = 1 then 0 else i) σ s

/-- `axes` with every axis outside `pos` replaced by 1. -/
def mask (axes pos : List Nat) : List Nat := maskShape axes (usedBy axes.length pos)

theorem mask_length (axes pos : List Nat) : (mask axes pos).length = axes.length := by
  simp [mask, maskShape, usedBy]

theorem mask_getElem? (axes pos : List Nat) (j : Nat) :
    (mask axes pos)[j]? = axes[j]?.map (fun n => if pos.contains j then n else 1) := by
  simp only [mask, maskShape, usedBy, List.getElem?_zipWith, List.getElem?_map]
  by_cases hj : j < axes.length
  · simp [List.getElem?_range hj, List.getElem?_eq_getElem hj]
  · have : axes.length ≤ j := by omega
    simp [List.getElem?_eq_none this]

theorem valid_clamp_mask {axes pos σ : List Nat} (h : Valid axes σ) :
    Valid (mask axes pos) (clamp σ (mask axes pos)) := by
  obtain ⟨hl, hh⟩ := valid_iff_getElem?.mp h
  refine valid_iff_getElem?.mpr ⟨by simp [clamp, mask_length, hl], ?_⟩
  intro j a i ha hi
  simp only [clamp, List.getElem?_zipWith, ha] at hi
  rw [mask_getElem?] at ha
  cases hσ : σ[j]? with
  | none => simp [hσ] at hi
  | some x =>
    cases hax : axes[j]? with
    | none => simp [hax] at ha
    | some n =>
      simp [hσ] at hi
      simp [hax] at ha
      have := hh j n x hax hσ
      subst hi
      split
      · omega
      · subst ha
        split at * <;> simp_all

theorem clamp_mask_agree {axes pos σ : List Nat} (h : Valid axes σ) (j : Nat) (hj : j ∈ pos) :
    (clamp σ (mask axes pos))[j]? = σ[j]? := by
  obtain ⟨hl, hh⟩ := valid_iff_getElem?.mp h
  simp only [clamp, List.getElem?_zipWith, mask_getElem?]
  have hc : pos.contains j = true := by simpa using hj
  cases hσ : σ[j]? with
  | none => simp
  | some x =>
    cases hax : axes[j]? with
    | none =>
      have h1 : axes.length ≤ j := by simpa using hax
      have h2 : j < σ.length := by
        rcases Nat.lt_or_ge j σ.length with h | h
        · exact h
        · simp [List.getElem?_eq_none h] at hσ
      omega
    | some n =>
      have := hh j n x hax hσ
      simp [hj]
      intro h1; omega

theorem valid_of_valid_mask {axes pos σ : List Nat} (hpos : ∀ n ∈ axes, 0 < n)
    (h : Valid (mask axes pos) σ) : Valid axes σ := by
  obtain ⟨hl, hh⟩ := valid_iff_getElem?.mp h
  refine valid_iff_getElem?.mpr ⟨by rw [hl, mask_length], ?_⟩
  intro j n i hax hi
  have := hh j (if pos.contains j then n else 1) i (by simp [mask_getElem?, hax]) hi
  have hn := hpos n (List.mem_of_getElem? hax)
  split at this <;> omega

theorem zipWith_max_mask {axes p q : List Nat} (hpos : ∀ n ∈ axes, 0 < n)
    (hc : ∀ j, j < axes.length → j ∈ p ∨ j ∈ q) :
    List.zipWith max (mask axes p) (mask axes q) = axes := by
  apply List.ext_getElem?
  intro j
  simp only [List.getElem?_zipWith, mask_getElem?]
  cases hax : axes[j]? with
  | none => simp
  | some n =>
    have hn := hpos n (List.mem_of_getElem? hax)
    have hj : j < axes.length := by
      rcases Nat.lt_or_ge j axes.length with h | h
      · exact h
      · simp [List.getElem?_eq_none h] at hax
    simp only [Option.map_some, Option.some.injEq]
    rcases hc j hj with h | h
    · have : p.contains j = true := by simpa using h
      simp only [this, ↓reduceIte]
      split <;> omega
    · have : q.contains j = true := by simpa using h
      simp only [this, ↓reduceIte]
      split <;> omega

theorem broadcast_cond_mask (axes pos : List Nat) :
    (List.zipWith (fun a b => decide (a = b ∨ a = 1)) (mask axes pos) axes).all id = true := by
  simp only [List.all_eq_true]
  intro x hx
  simp only [List.mem_iff_getElem?, List.getElem?_zipWith, mask_getElem?] at hx
  obtain ⟨k, hk⟩ := hx
  cases hs : axes[k]? with
  | none => simp [hs] at hk
  | some a =>
    simp [hs] at hk
    subst hk
    by_cases hp : k ∈ pos <;> simp [hp]

/-! ### congruence: what the address and the update value depend on -/

theorem targetIndex_congr {σ σ' : List Nat} (tdims : List TDim) (cs : List Nat)
    (h : ∀ j ∈ tdims.filterMap TDim.axis?, σ[j]? = σ'[j]?) :
    targetIndex σ tdims cs = targetIndex σ' tdims cs := by
  induction tdims generalizing cs with
  | nil => cases cs <;> rfl
  | cons d ds ih =>
    cases d with
    | vec j =>
      have e : (TDim.vec j :: ds).filterMap TDim.axis? = j :: ds.filterMap TDim.axis? := rfl
      rw [e] at h
      have hj : σ[j]? = σ'[j]? := h j (List.mem_cons_self ..)
      have := ih cs (fun k hk => h k (List.mem_cons_of_mem _ hk))
      simp only [targetIndex, hj, this]
    | idx n =>
      cases cs with
      | nil => rfl
      | cons c cs =>
        have e : (TDim.idx n :: ds).filterMap TDim.axis? = ds.filterMap TDim.axis? := rfl
        rw [e] at h
        simp only [targetIndex]
        rw [ih cs h]

theorem coordVector_congr {axes σ σ' : List Nat} (coords : List Coord)
    (h : ∀ j ∈ coords.flatMap (fun c => c.dims.filterMap CDim.axis?), σ[j]? = σ'[j]?) :
    coordVector axes σ coords = coordVector axes σ' coords := by
  simp only [coordVector]
  congr 1
  apply mapOpt_congr
  intro c hc
  apply mapOpt_congr
  intro i _
  simp only [Coord.read]
  have : mapOpt (CDim.index σ i) c.dims = mapOpt (CDim.index σ' i) c.dims := by
    apply mapOpt_congr
    intro d hd
    cases d with
    | ax j =>
      simp only [CDim.index]
      apply h j
      simp only [List.mem_flatMap, List.mem_filterMap]
      exact ⟨c, hc, .ax j, hd, rfl⟩
    | br n => rfl
  rw [this]

theorem tidxAt_congr (op : Op) {σ σ' : List Nat} (h : ∀ j ∈ op.idxAxes, σ[j]? = σ'[j]?) :
    op.tidxAt σ = op.tidxAt σ' := by
  simp only [Op.idxAxes, List.mem_append] at h
  simp only [Op.tidxAt]
  rw [coordVector_congr op.coords (fun j hj => h j (Or.inr hj))]
  cases coordVector op.axes σ' op.coords with
  | none => rfl
  | some cs => exact targetIndex_congr op.tdims cs (fun j hj => h j (Or.inl hj))

theorem addrLowered_congr (kernel : List Nat → List Nat → List Nat) (op : Op) {σ σ' : List Nat}
    (h : ∀ j ∈ op.idxAxes, σ[j]? = σ'[j]?) : addrLowered kernel op σ = addrLowered kernel op σ' := by
  simp only [addrLowered, tidxAt_congr op h]

theorem readUpd_congr (op : Op) {σ σ' : List Nat}
    (h : ∀ j ∈ op.udims, σ[j]? = σ'[j]?) : op.readUpd σ = op.readUpd σ' := by
  have : pick σ op.udims = pick σ' op.udims := mapOpt_congr h
  simp only [Op.readUpd, this]

/-! ### more on `mapOpt` -/

theorem mapOpt_some_of_mem {α β : Type} {f : α → Option β} {l : List α} {r : List β}
    (h : mapOpt f l = some r) {a : α} (ha : a ∈ l) : ∃ b, b ∈ r ∧ f a = some b := by
  obtain ⟨k, hk⟩ := List.mem_iff_getElem?.mp ha
  have hfa := mapOpt_getElem? h k a hk
  have hlt : k < r.length := by
    rw [mapOpt_length h]; exact (List.getElem?_eq_some_iff.mp hk).1
  exact ⟨r[k], List.getElem_mem hlt, by rw [hfa, List.getElem?_eq_getElem hlt]⟩

theorem mapOpt_mem_inv {α β : Type} {f : α → Option β} {l : List α} {r : List β}
    (h : mapOpt f l = some r) {b : β} (hb : b ∈ r) : ∃ a, a ∈ l ∧ f a = some b := by
  obtain ⟨k, hk⟩ := List.mem_iff_getElem?.mp hb
  have hlt : k < l.length := by
    rw [← mapOpt_length h]; exact (List.getElem?_eq_some_iff.mp hk).1
  refine ⟨l[k], List.getElem_mem hlt, ?_⟩
  rw [mapOpt_getElem? h k l[k] (List.getElem?_eq_getElem hlt), hk]

/-! ### broadcasting a tensor that was computed on the masked shape -/

/-- A function of the assignment that only depends on the axes `pos`, tabulated over the masked shape
and then broadcast to the full shape, is the function tabulated over the full shape. -/
theorem broadcast_mask {β : Type} (f : List Nat → Option β) (axes pos : List Nat) {flat : List β}
    (hcongr : ∀ σ σ' : List Nat, (∀ j ∈ pos, σ[j]? = σ'[j]?) → f σ = f σ')
    (hflat : mapOpt f (assignments (mask axes pos)) = some flat) :
    broadcastTo (mask axes pos) axes flat = mapOpt f (assignments axes) := by
  have hlen : flat.length = prod (mask axes pos) := by rw [mapOpt_length hflat, assignments_length]
  simp only [broadcastTo, mask_length, broadcast_cond_mask, hlen, and_self, ↓reduceIte]
  apply mapOpt_congr
  intro σ hσ
  have hv : Valid axes σ := mem_assignments_iff_valid.mp hσ
  have hv' : Valid (mask axes pos) (clamp σ (mask axes pos)) := valid_clamp_mask hv
  show readAt (mask axes pos) flat (clamp σ (mask axes pos)) = f σ
  rw [readAt, validb_iff.mpr hv']
  simp only [↓reduceIte]
  rw [← mapOpt_getElem? hflat _ _ (assignments_getElem? _ _ hv')]
  exact hcongr _ _ (fun j hj => clamp_mask_agree hv j hj)

/-! ### the numpy primitives on a common shape -/

theorem broadcastTo_self (shape : List Nat) (vals : List Int) (hv : vals.length = prod shape) :
    broadcastTo shape shape vals = some vals := by
  have hall : (List.zipWith (fun a b => decide (a = b ∨ a = 1)) shape shape).all id = true := by
    simp only [List.all_eq_true]
    intro x hx
    simp only [List.mem_iff_getElem?, List.getElem?_zipWith] at hx
    obtain ⟨k, hk⟩ := hx
    cases hs : shape[k]? with
    | none => simp [hs] at hk
    | some a => simp [hs] at hk; subst hk; rfl
  simp only [broadcastTo, hall, hv, and_self, ↓reduceIte]
  rw [← mapOpt_read_assignments shape vals hv]
  apply mapOpt_congr
  intro σ hσ
  have hvσ : Valid shape σ := mem_assignments_iff_valid.mp hσ
  have : List.zipWith (fun i a => if a = 1 then 0 else i) σ shape = σ := clampIndex_self hvσ
  rw [this, readAt, validb_iff.mpr hvσ]; rfl

theorem cycle_self (vals : List Int) (n : Nat) (h : n = vals.length) : cycle vals n = some vals := by
  subst h
  simp only [cycle]
  rw [mapOpt_eq_some_iff]
  apply List.ext_getElem?
  intro k
  simp only [List.getElem?_map]
  by_cases hk : k < vals.length
  · simp [List.getElem?_range hk, Nat.mod_eq_of_lt hk, List.getElem?_eq_getElem hk]
  · have h2 : vals.length ≤ k := by omega
    simp [List.getElem?_eq_none h2]
    exact h2

theorem runPrim_sound (m : Mode) (t : List Int) (shape : List Nat) (cs : List (Nat × Int))
    (hl : cs.length = prod shape) (hr : ∀ c ∈ cs, c.1 < t.length) :
    runPrim m.prim t shape (cs.map (·.1)) shape (cs.map (·.2)) = some (applyUpdates m t cs) := by
  have hz : (cs.map (·.1)).zip (cs.map (·.2)) = cs := (List.zip_of_prod rfl rfl).symm
  have hi : (cs.map (·.1)).length = prod shape := by simpa using hl
  have hv : (cs.map (·.2)).length = prod shape := by simpa using hl
  have hb := broadcastTo_self shape (cs.map (·.2)) hv
  cases m with
  | set =>
    simp only [Mode.prim, runPrim, hi, hv, and_self, ↓reduceIte, npPut]
    by_cases he : (cs.map (·.2)).isEmpty
    · have : cs = [] := by simpa using he
      subst this
      simp [applyUpdates]
    · simp only [he, Bool.false_eq_true, ↓reduceIte]
      rw [cycle_self _ _ hv.symm]
      simp only [hz]
      exact scatterGo_eq_applyUpdates .set t _ hr
  | add =>
    simp only [Mode.prim, runPrim, npAddAt, npUfuncAt, hb, hi, ↓reduceIte, hz]
    exact scatterGo_eq_applyUpdates .add t _ hr
  | sub =>
    simp only [Mode.prim, runPrim, npSubtractAt, npUfuncAt, hb, hi, ↓reduceIte, hz]
    exact scatterGo_eq_applyUpdates .sub t _ hr

/-! ### the main theorem -/

theorem contribAt_some {op : Op} {σ : List Nat} {c : Nat × Int} {tshape : List Nat}
    (hts : targetShape op.axes op.tdims = some tshape) (h : op.contribAt σ = some c) :
    ∃ tidx, op.tidxAt σ = some tidx ∧ Valid tshape tidx ∧ c.1 = ravel tshape tidx
      ∧ op.readUpd σ = some c.2 := by
  simp only [Op.contribAt, hts] at h
  cases hti : op.tidxAt σ with
  | none => simp [hti] at h
  | some tidx =>
    cases hu : op.readUpd σ with
    | none => simp [hti, hu] at h
    | some v =>
      simp only [hti, hu] at h
      split at h
      case isFalse => simp at h
      case isTrue hv =>
        obtain rfl := Option.some.inj h
        exact ⟨tidx, rfl, validb_iff.mp hv, rfl, rfl⟩

theorem lowering_sound (L : Lowering) (m : Mode) (op : Op) (t r : List Int)
    (hk : ∀ shape idx : List Nat, idx.length = shape.length → (L.kernel idx shape).sum = ravel shape idx)
    (hb : L.broadcasts m = true) (hp : L.prim m = m.prim) (hc : op.covered)
    (hd : denote m op t = some r) : lower L m op t = some r := by
  obtain ⟨hpos, hcov⟩ := hc
  simp only [denote] at hd
  cases hts : targetShape op.axes op.tdims with
  | none => simp [hts] at hd
  | some tshape =>
  cases hcs : op.contribs with
  | none => simp [hts, hcs] at hd
  | some cs =>
  simp only [hts, hcs] at hd
  split at hd
  case isFalse => simp at hd
  case isTrue hlen =>
  obtain rfl := Option.some.inj hd
  have hcs' : mapOpt op.contribAt (assignments op.axes) = some cs := hcs
  -- the address and the value of every assignment, tabulated over the full iteration space
  have haddr : mapOpt (addrLowered L.kernel op) (assignments op.axes) = some (cs.map (·.1)) := by
    apply mapOpt_map_of hcs'
    intro σ _ c hc
    obtain ⟨tidx, h1, h2, h3, _⟩ := contribAt_some hts hc
    simp only [addrLowered, hts, h1, hk tshape tidx (valid_length h2), h3]
  have hupd : mapOpt op.readUpd (assignments op.axes) = some (cs.map (·.2)) := by
    apply mapOpt_map_of hcs'
    intro σ _ c hc
    obtain ⟨tidx, _, _, _, h4⟩ := contribAt_some hts hc
    exact h4
  -- the tensors the lowering actually computes
  have hsub : ∀ pos σ, σ ∈ assignments (mask op.axes pos) → σ ∈ assignments op.axes := fun pos σ hσ =>
    mem_assignments_iff_valid.mpr (valid_of_valid_mask hpos (mem_assignments_iff_valid.mp hσ))
  obtain ⟨idxFlat, hidx⟩ :
      ∃ r, mapOpt (addrLowered L.kernel op) (assignments (mask op.axes op.idxAxes)) = some r := by
    apply mapOpt_some_of_forall
    intro σ hσ
    obtain ⟨b, _, hb⟩ := mapOpt_some_of_mem haddr (hsub _ σ hσ)
    exact ⟨b, hb⟩
  obtain ⟨updFlat, hupdF⟩ : ∃ r, mapOpt op.readUpd (assignments (mask op.axes op.udims)) = some r := by
    apply mapOpt_some_of_forall
    intro σ hσ
    obtain ⟨b, _, hb⟩ := mapOpt_some_of_mem hupd (hsub _ σ hσ)
    exact ⟨b, hb⟩
  have hbi := broadcast_mask (addrLowered L.kernel op) op.axes op.idxAxes
    (fun σ σ' h => addrLowered_congr L.kernel op h) hidx
  have hbu := broadcast_mask op.readUpd op.axes op.udims (fun σ σ' h => readUpd_congr op h) hupdF
  rw [haddr] at hbi
  rw [hupd] at hbu
  have e1 : op.idxShape = mask op.axes op.idxAxes := rfl
  have e2 : op.updShape = mask op.axes op.udims := rfl
  have hfull : List.zipWith max (mask op.axes op.idxAxes) (mask op.axes op.udims) = op.axes :=
    zipWith_max_mask hpos hcov
  have hrange : ∀ c ∈ cs, c.1 < t.length := by
    intro c hc
    obtain ⟨σ, _, hσ⟩ := mapOpt_mem_inv hcs' hc
    obtain ⟨tidx, _, h2, h3, _⟩ := contribAt_some hts hσ
    rw [h3, hlen.1]; exact ravel_lt h2
  have hcl : cs.length = prod op.axes := by rw [mapOpt_length hcs', assignments_length]
  simp only [lower, hts, e1, e2, hidx, hupdF, if_pos hlen, hb, ↓reduceIte, hfull, hbi, hbu, hp]
  exact runPrim_sound m t op.axes cs hcl hrange

end Einx.Update
