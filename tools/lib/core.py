"""Shared machinery of the einx verification checks.

Every check is `tools/check.py Cxx --tier quick|thorough [--replay file]` (cwd /verif):
  extract  -> regenerate lean/EinxModel/Extracted/*.lean from /repo's working tree
  build    -> lake build (file lock), errors mapped back to theorem names
  audit    -> #print axioms of every property theorem, textual scan for sorry/axiom/...
  correspond -> property module runs the real code and the Lean driver on the same inputs
  decide   -> exit 0 | VIOLATION (exit 1) | machinery failure (exit 2)
  evidence -> evidence/Cxx.json
"""
import contextlib
import fcntl
import hashlib
import json
import os
import random
import re
import subprocess
import sys
import time

ROOT = os.path.dirname(os.path.dirname(os.path.dirname(os.path.abspath(__file__))))
REPO = os.environ.get("EINX_REPO", "/repo")
LEAN = os.path.join(ROOT, "lean")
EVIDENCE = os.path.join(ROOT, "evidence")
REPLAYS = os.path.join(EVIDENCE, "replays")
CORPUS = os.path.join(ROOT, "corpus")
KNOWN = os.path.join(ROOT, "known_findings.json")
DRIVER = os.path.join(LEAN, ".lake", "build", "bin", "driver")
ALLOWED_AXIOMS = {"propext", "Classical.choice", "Quot.sound"}
GUARD = "FFERFLO_EINX_VERIF"

os.environ.setdefault(GUARD, "1")


class MachineryError(Exception):
    """The checking machinery itself failed (exit 2, never a violation)."""


@contextlib.contextmanager
def lean_lock():
    os.makedirs(os.path.join(LEAN, ".lake"), exist_ok=True)
    with open(os.path.join(LEAN, ".lake", "verif.lock"), "w") as f:
        fcntl.flock(f, fcntl.LOCK_EX)
        try:
            yield
        finally:
            fcntl.flock(f, fcntl.LOCK_UN)


def write_if_changed(path, text):
    os.makedirs(os.path.dirname(path), exist_ok=True)
    old = None
    if os.path.exists(path):
        with open(path) as f:
            old = f.read()
    if old != text:
        with open(path, "w") as f:
            f.write(text)
        return True
    return False


def run(cmd, cwd=None, timeout=3600, env=None, input=None):
    p = subprocess.run(cmd, cwd=cwd, timeout=timeout, env=env, input=input, capture_output=True, text=True)
    return p.returncode, p.stdout + p.stderr


_ERR_RE = re.compile(r"^error: (\S+?\.lean):(\d+):(\d+): (.*)$")


def theorem_spans(path):
    """[(name, first_line, last_line)] for theorem/lemma/def/example/instance declarations of a Lean file."""
    spans = []
    with open(path) as f:
        lines = f.read().split("\n")
    cur = None
    n_ex = 0
    for i, line in enumerate(lines, 1):
        m = re.match(r"^(?:@\[[^\]]*\]\s*)?(?:private |protected |noncomputable )*(theorem|lemma|def|example|instance|abbrev|structure|inductive)\b\s*([^\s:(\[{]*)", line)
        if m:
            if cur is not None:
                spans.append((cur[0], cur[1], i - 1, cur[2]))
            name = m.group(2)
            if m.group(1) == "example":
                n_ex += 1
                name = f"example#{n_ex}"
            cur = (name, i, m.group(1))
    if cur is not None:
        spans.append((cur[0], cur[1], len(lines), cur[2]))
    return spans


def strip_comments(text):
    text = re.sub(r"/-.*?-/", " ", text, flags=re.S)
    text = re.sub(r"--[^\n]*", " ", text)
    return text


FORBIDDEN = re.compile(r"\b(sorry|admit|native_decide|bv_decide|implemented_by|unsafe)\b|^\s*axiom\s|maxHeartbeats\s+0\b", re.M)


def scan_forbidden(paths):
    hits = []
    for p in paths:
        with open(p) as f:
            text = strip_comments(f.read())
        for m in FORBIDDEN.finditer(text):
            hits.append((p, m.group(0).strip()))
    return hits


def lean_sources():
    out = []
    for d, _, fs in os.walk(os.path.join(LEAN, "EinxModel")):
        for f in fs:
            if f.endswith(".lean"):
                out.append(os.path.join(d, f))
    out.append(os.path.join(LEAN, "Main.lean"))
    return sorted(out)


def lake_build(targets, timeout=3000):
    """Returns (ok, log, failing) where failing = [(file, line, theorem-name, message)]."""
    rc, log = run(["lake", "build"] + list(targets), cwd=LEAN, timeout=timeout)
    failing = []
    if rc != 0:
        for line in log.split("\n"):
            m = _ERR_RE.match(line.strip())
            if m:
                path = m.group(1)
                if not os.path.isabs(path):
                    path = os.path.join(LEAN, path)
                ln = int(m.group(2))
                name = "?"
                try:
                    for (n, a, b, _k) in theorem_spans(path):
                        if a <= ln <= b:
                            name = n
                except OSError:
                    pass
                failing.append((os.path.relpath(path, LEAN), ln, name, m.group(4)))
    return rc == 0, log, failing


def props_file(prop):
    return os.path.join(LEAN, "EinxModel", "Props", f"{prop}.lean")


def property_theorems(prop):
    """Names (with namespace) of the theorems stated in Props/Cxx.lean."""
    path = props_file(prop)
    with open(path) as f:
        text = f.read()
    names = []
    ns = []
    for line in text.split("\n"):
        m = re.match(r"^namespace\s+(\S+)", line)
        if m:
            ns.append(m.group(1))
            continue
        m = re.match(r"^end\s+(\S+)", line)
        if m and ns and ns[-1] == m.group(1):
            ns.pop()
            continue
        m = re.match(r"^(?:@\[[^\]]*\]\s*)?(?:protected )?theorem\s+([^\s:(\[{]+)", line)
        if m:
            names.append(".".join(ns + [m.group(1)]))
    n_examples = len(re.findall(r"^example\b", strip_comments(text), flags=re.M))
    return names, n_examples


def audit(prop, extra_modules=()):
    """#print axioms for every theorem of Props/Cxx.lean.  Returns (ok, {thm: [axioms]}, problems)."""
    names, _ = property_theorems(prop)
    problems = []
    src = [f"import EinxModel.Props.{prop}"] + [f"import {m}" for m in extra_modules]
    src += [f"#print axioms {n}" for n in names]
    tmp = os.path.join(LEAN, ".lake", f"Audit_{prop}_{os.getpid()}.lean")
    with open(tmp, "w") as f:
        f.write("\n".join(src) + "\n")
    try:
        rc, out = run(["lake", "env", "lean", tmp], cwd=LEAN, timeout=1200)
    finally:
        with contextlib.suppress(OSError):
            os.remove(tmp)
    axioms = {}
    # output: "'name' depends on axioms: [a, b]" possibly wrapped over lines, or "'name' does not depend on any axioms"
    flat = re.sub(r"\s+", " ", out)
    for m in re.finditer(r"'([^']+)' depends on axioms: \[([^\]]*)\]", flat):
        axioms[m.group(1)] = [a.strip() for a in m.group(2).split(",") if a.strip()]
    for m in re.finditer(r"'([^']+)' does not depend on any axioms", flat):
        axioms[m.group(1)] = []
    if rc != 0:
        problems.append(f"audit run failed: {out[-2000:]}")
    for n in names:
        if n not in axioms:
            problems.append(f"no axiom report for {n}")
        else:
            bad = [a for a in axioms[n] if a not in ALLOWED_AXIOMS]
            if bad:
                problems.append(f"{n} depends on non-standard axioms {bad}")
    hits = scan_forbidden(lean_sources())
    for p, w in hits:
        problems.append(f"forbidden token {w!r} in {os.path.relpath(p, LEAN)}")
    return not problems, axioms, problems


class Driver:
    """Line protocol to the compiled Lean driver: one JSON object per line each way."""

    def __init__(self):
        if not os.path.exists(DRIVER):
            raise MachineryError(f"driver not built: {DRIVER}")
        self.p = subprocess.Popen([DRIVER], stdin=subprocess.PIPE, stdout=subprocess.PIPE, text=True, bufsize=1 << 20)
        self.n = 0

    def ask(self, obj):
        return self.ask_many([obj])[0]

    def ask_many(self, objs, chunk=2000):
        res = []
        for k in range(0, len(objs), chunk):
            part = objs[k:k + chunk]
            # write and read in lock-step per chunk; the driver flushes after every line
            data = "".join(json.dumps(o, separators=(",", ":")) + "\n" for o in part)
            import threading
            t = threading.Thread(target=lambda: (self.p.stdin.write(data), self.p.stdin.flush()))
            t.start()
            for _ in part:
                line = self.p.stdout.readline()
                if not line:
                    raise MachineryError("driver terminated unexpectedly")
                r = json.loads(line)
                if isinstance(r, dict) and r.get("error") == "bad-request":
                    raise MachineryError(f"driver rejected request: {line.strip()[:500]}")
                res.append(r)
            t.join()
            self.n += len(part)
        return res

    def close(self):
        with contextlib.suppress(Exception):
            self.p.stdin.close()
            self.p.wait(timeout=10)


def load_known(prop):
    if not os.path.exists(KNOWN):
        return []
    with open(KNOWN) as f:
        data = json.load(f)
    return [e for e in data.get("findings", []) if e.get("property") == prop]


def digest(obj):
    return hashlib.sha256(json.dumps(obj, sort_keys=True, default=str).encode()).hexdigest()[:12]


class Ctx:
    def __init__(self, prop, tier, seed):
        self.prop = prop
        self.tier = tier
        self.seed = seed
        self.rng = random.Random(seed)
        self.t0 = time.time()
        self.evaluations = 0
        self.nontrivial = set()
        self.samples = []
        self.hist = {}
        self.violations = []        # list of (signature, replay dict, no_failing_input)
        self.known_hits = []
        self.obligations = 0
        self.discharged = 0
        self.axioms = {}
        self.notes = []
        self.extra = {}
        self.assumptions = []
        self.known = load_known(prop)
        self.extract_diff = []
        self.broken = []            # names of theorems / ties that no longer check
        self._driver = None

    @property
    def quick(self):
        return self.tier == "quick"

    def driver(self):
        if self._driver is None:
            self._driver = Driver()
        return self._driver

    def count(self, key, n=1):
        self.hist[key] = self.hist.get(key, 0) + n

    def case(self, sig=None, nontrivial=True):
        self.evaluations += 1
        if nontrivial and sig is not None:
            self.nontrivial.add(sig if isinstance(sig, str) else digest(sig))

    def sample(self, obj, cap=8):
        if len(self.samples) < cap:
            self.samples.append(obj)

    def violation(self, signature, replay, no_failing_input=False):
        """Record a violation.  `signature` identifies the concrete failing input/history."""
        for e in self.known:
            if e.get("status") == "known" and e.get("signature") == signature:
                if signature not in [k[0] for k in self.known_hits]:
                    self.known_hits.append((signature, e.get("what", "")))
                return False
        if signature in [v[0] for v in self.violations]:
            return True
        self.violations.append((signature, replay, no_failing_input))
        return True

    def tie_broken(self, name, detail):
        # keep at most three details per broken obligation/tie (the first ones are the most useful)
        if sum(1 for b in self.broken if b["name"] == name) < 3:
            self.broken.append({"name": name, "detail": detail})
        else:
            self.hist["broken-more:" + name] = self.hist.get("broken-more:" + name, 0) + 1

    def finish(self):
        if self._driver is not None:
            self._driver.close()
        os.makedirs(REPLAYS, exist_ok=True)
        # a broken proof obligation or tie without a concrete failing input is still a violation
        if self.broken and not self.violations:
            self.violation("broken:" + ",".join(sorted({b["name"] for b in self.broken})[:12]),
                           {"kind": "no-failing-input-found", "broken": self.broken,
                            "explanation": "a proof obligation or correspondence no longer checks and the search on the real code found no failing input; the property is no longer shown to hold"},
                           no_failing_input=True)
        lines = []
        for sig, what in self.known_hits:
            lines.append(f"KNOWN-FINDING: property={self.prop} {sig} {what}")
        for sig, replay, nofail in self.violations:
            path = os.path.join(REPLAYS, f"{self.prop}-{digest(sig)}.json")
            with open(path, "w") as f:
                json.dump({"property": self.prop, "signature": sig, "seed": self.seed, "tier": self.tier,
                           "broken": self.broken, "replay": replay}, f, indent=1, default=str)
            rel = os.path.relpath(path, ROOT)
            lines.append(f"VIOLATION property={self.prop} replay={rel}" + (" no-failing-input-found" if nofail else ""))
        ev = {
            "property_id": self.prop,
            "tier": self.tier,
            "seed": self.seed,
            "level": "proof",
            "coverage": {
                "obligations": self.obligations,
                "discharged": self.discharged,
                "checker_cmd": f"cd lean && lake build EinxModel.Props.{self.prop} && lake env lean <audit: #print axioms of every theorem in Props/{self.prop}.lean>",
                "trusted_base": [
                    "Lean 4.33 kernel; axioms propext, Classical.choice, Quot.sound only (audited on this run)",
                    "Lean compiler/runtime for the driver executable (correspondence runs are compiled code)",
                    "tools/extract (regenerates EinxModel/Extracted from /repo on every run)",
                    "harness generators, canonicalisation and comparison in tools/props",
                ] + self.assumptions,
                "evaluations": self.evaluations,
                "distinct_nontrivial": len(self.nontrivial),
                "rule": self.extra.pop("rule", "see DESIGN.md section 5"),
                "samples": self.samples or ["(no correspondence cases on this run)"],
                "traces_validated_against_impl": self.extra.pop("traces_validated_against_impl", self.evaluations),
                "histogram": self.hist,
                "axioms": self.axioms,
                "broken": self.broken,
                "extract_diff": self.extract_diff,
                "known_findings_reported": [s for s, _ in self.known_hits],
                **self.extra,
            },
            "assumptions": self.assumptions + self.notes,
            "wall_s": round(time.time() - self.t0, 2),
            "violations": len(self.violations),
        }
        os.makedirs(EVIDENCE, exist_ok=True)
        with open(os.path.join(EVIDENCE, f"{self.prop}.json"), "w") as f:
            json.dump(ev, f, indent=1, default=str)
        for l in lines:
            print(l)
        sys.stdout.flush()
        return 1 if self.violations else 0
