"""Grammar-directed generator of (mostly) valid einx calls, shared by the correspondence runs.

A call is a dict: {"op", "family", "desc", "shapes", "kwargs", "note"}.  All random choices come from
the `rng` passed in.  Sizes are biased towards 1 and towards equal lengths on different axes, because
those are the cases that blind shape assertions.
"""
import numpy as np

NAMES = ["a", "b", "c", "d", "e", "f"]
SIZES = [1, 2, 2, 3, 3, 4, 5]

REDUCE = ["sum", "mean", "var", "std", "prod", "count_nonzero", "all", "any", "min", "max", "logsumexp"]
ELEMENTWISE2 = ["add", "subtract", "multiply", "true_divide", "floor_divide", "divide", "logical_and", "logical_or", "maximum", "minimum",
                "less", "less_equal", "greater", "greater_equal", "equal", "not_equal", "logaddexp"]
NARY = ["add", "multiply", "logical_and", "logical_or", "maximum", "minimum", "logaddexp"]
PRESERVE = ["flip", "roll", "sort", "argsort", "softmax", "log_softmax"]


def pick_axes(rng, n):
    names = rng.sample(NAMES, n)
    base = rng.choice(SIZES)
    sizes = {}
    for nm in names:
        sizes[nm] = base if rng.random() < 0.35 else rng.choice(SIZES)
    return names, sizes


def group(rng, items, p_group=0.35, brackets=None):
    """Randomly wrap runs of items in parentheses.  items: list of str tokens.  Returns list of str dims."""
    out = []
    i = 0
    while i < len(items):
        if rng.random() < p_group and i + 1 < len(items):
            n = rng.randint(2, min(3, len(items) - i))
            inner = items[i:i + n]
            if rng.random() < 0.25 and n >= 2:
                # nested group
                inner = [f"({' '.join(inner[:2])})"] + inner[2:]
            out.append("(" + " ".join(inner) + ")")
            i += n
        else:
            out.append(items[i])
            i += 1
    return out


def dim_size(tok_sizes):
    p = 1
    for s in tok_sizes:
        p *= s
    return p


def shape_of_expr(expr, sizes):
    """Shape of a concat-free, ellipsis-free expression string given axis sizes (numbers are themselves)."""
    toks = expr.replace("(", " ( ").replace(")", " ) ").replace("[", " ").replace("]", " ").split()
    shape = []
    depth = 0
    cur = 1
    for t in toks:
        if t == "(":
            if depth == 0:
                cur = 1
            depth += 1
        elif t == ")":
            depth -= 1
            if depth == 0:
                shape.append(cur)
        else:
            v = int(t) if t.isdigit() else sizes[t]
            if depth == 0:
                shape.append(v)
            else:
                cur *= v
    return tuple(shape)


def gen_id(rng):
    n = rng.randint(1, 4)
    names, sizes = pick_axes(rng, n)
    kwargs = {}
    in_items = list(names)
    note = []
    # diagonal: repeat a name in the input
    if n >= 1 and rng.random() < 0.2:
        rep = rng.choice(names)
        in_items.insert(rng.randrange(len(in_items) + 1), rep)
        note.append("diagonal")
    # squeezable 1 in the input
    if rng.random() < 0.2:
        in_items.insert(rng.randrange(len(in_items) + 1), "1")
        note.append("one-in")
    out_items = list(names)
    rng.shuffle(out_items)
    # drop length-1 axes from the output sometimes
    for nm in list(out_items):
        if sizes[nm] == 1 and rng.random() < 0.5 and in_items.count(nm) == 1:
            out_items.remove(nm)
            note.append("squeeze")
    # broadcast axis in the output
    if rng.random() < 0.25:
        free = [x for x in NAMES if x not in names]
        if free:
            nm = rng.choice(free)
            sizes[nm] = rng.choice(SIZES)
            kwargs[nm] = sizes[nm]
            out_items.insert(rng.randrange(len(out_items) + 1), nm)
            note.append("broadcast")
    if rng.random() < 0.15:
        out_items.insert(rng.randrange(len(out_items) + 1), "1")
        note.append("one-out")
    in_dims = group(rng, in_items)
    out_dims = group(rng, out_items)
    e_in = " ".join(in_dims)
    e_out = " ".join(out_dims)
    shape = shape_of_expr(e_in, sizes)
    # flattened inputs need the sizes of all but one member
    for d in in_dims:
        if d.startswith("("):
            members = [t for t in d.replace("(", " ").replace(")", " ").split() if not t.isdigit()]
            members = list(dict.fromkeys(members))
            known = [m for m in members if m in kwargs or any(m == x for x in in_dims)]
            unknown = [m for m in members if m not in known]
            for m in unknown[:-1] if rng.random() < 0.7 else unknown:
                kwargs[m] = sizes[m]
            # a repeated name inside one group cannot be solved from the product alone
            if unknown and sum(1 for t in d.replace("(", " ").replace(")", " ").split() if t == unknown[-1]) > 1:
                kwargs[unknown[-1]] = sizes[unknown[-1]]
    return {"op": "id", "family": "id", "desc": f"{e_in} -> {e_out}", "shapes": [shape], "kwargs": kwargs, "note": note}


def gen_id_concat(rng):
    names, sizes = pick_axes(rng, 3)
    a, b, c = names
    form = rng.randrange(5)
    if form == 0:
        return {"op": "id", "family": "id", "desc": f"{a} {c}, {b} {c} -> ({a} + {b}) {c}", "shapes": [(sizes[a], sizes[c]), (sizes[b], sizes[c])], "kwargs": {}, "note": ["concat"]}
    if form == 1:
        return {"op": "id", "family": "id", "desc": f"({a} + {b}) {c} -> {a} {c}, {b} {c}", "shapes": [(sizes[a] + sizes[b], sizes[c])], "kwargs": {a: sizes[a]}, "note": ["split"]}
    if form == 2:
        return {"op": "id", "family": "id", "desc": f"{c}, {a} {b} {c} -> (1 + ({a} {b})) {c}", "shapes": [(sizes[c],), (sizes[a], sizes[b], sizes[c])], "kwargs": {}, "note": ["concat", "flat"]}
    if form == 3:
        return {"op": "id", "family": "id", "desc": f"{c} ({a} + {b}) -> ({a} + {b}) {c}", "shapes": [(sizes[c], sizes[a] + sizes[b])], "kwargs": {a: sizes[a]}, "note": ["split", "concat"]}
    return {"op": "id", "family": "id", "desc": f"({a} + {b}) {c}, {c} -> {c} ({a} + {b} + 1)", "shapes": [(sizes[a] + sizes[b], sizes[c]), (sizes[c],)], "kwargs": {a: sizes[a]}, "note": ["split", "concat", "three"]}


def gen_id_ellipsis(rng):
    names, sizes = pick_axes(rng, 3)
    a, b, c = names
    k = rng.randint(0, 3)
    ell = tuple(rng.choice(SIZES) for _ in range(k))
    form = rng.randrange(4)
    if form == 0:
        return {"op": "id", "family": "id", "desc": f"{a}... {b} -> {b} {a}...", "shapes": [ell + (sizes[b],)], "kwargs": {}, "note": ["ellipsis"]}
    if form == 1:
        return {"op": "id", "family": "id", "desc": f"{b} ... -> ... {b}", "shapes": [(sizes[b],) + ell], "kwargs": {}, "note": ["anon-ellipsis"]}
    if form == 2:
        return {"op": "id", "family": "id", "desc": f"{b} {a}... -> {b} ({a}...)", "shapes": [(sizes[b],) + ell], "kwargs": {}, "note": ["ellipsis", "flat"]}
    return {"op": "id", "family": "id", "desc": f"({a} {c})... -> {a}... {c}...", "shapes": [tuple(s * 2 for s in ell)], "kwargs": {c: 2}, "note": ["ellipsis", "group"]}


def gen_reduce(rng):
    n = rng.randint(1, 4)
    names, sizes = pick_axes(rng, n)
    op = rng.choice(REDUCE)
    red = [nm for nm in names if rng.random() < 0.5] or [names[0]]
    style = rng.choice(["brackets", "brackets-implicit", "auto"])
    kwargs = {}
    note = [style]
    if style == "auto":
        items = list(names)
        in_dims = group(rng, items)
        out_items = [nm for nm in names if nm not in red]
        rng.shuffle(out_items)
        e_in = " ".join(in_dims)
        desc = f"{e_in} -> {' '.join(out_items)}"
    else:
        items = [f"[{nm}]" if nm in red else nm for nm in names]
        in_dims = group(rng, items)
        e_in = " ".join(in_dims)
        if style == "brackets":
            out_items = [nm for nm in names if nm not in red]
            if rng.random() < 0.5:
                rng.shuffle(out_items)
            desc = f"{e_in} -> {' '.join(out_items)}"
        else:
            desc = e_in
    shape = shape_of_expr(e_in, sizes)
    for d in in_dims:
        if d.startswith("("):
            members = [t for t in d.replace("(", " ").replace(")", " ").replace("[", " ").replace("]", " ").split()]
            for m in members[:-1]:
                kwargs[m] = sizes[m]
    if rng.random() < 0.1 and style != "auto":
        kwargs["keepdims"] = True
        note.append("keepdims")
        if "->" in desc:
            desc = desc.split("->")[0].strip()
    return {"op": op, "family": "reduce", "desc": desc, "shapes": [shape], "kwargs": kwargs, "note": note}


def gen_elementwise(rng):
    n = rng.randint(1, 4)
    names, sizes = pick_axes(rng, n)
    op = rng.choice(ELEMENTWISE2)
    sub1 = [nm for nm in names if rng.random() < 0.7] or [names[0]]
    sub2 = [nm for nm in names if rng.random() < 0.7 or nm not in sub1]
    rng.shuffle(sub1)
    rng.shuffle(sub2)
    out = list(names)
    rng.shuffle(out)
    note = []
    d1 = group(rng, sub1, 0.2)
    d2 = group(rng, sub2, 0.2)
    e1, e2 = " ".join(d1), " ".join(d2)
    kwargs = {}
    for dims in (d1, d2):
        for d in dims:
            if d.startswith("("):
                members = d.replace("(", " ").replace(")", " ").split()
                for m in members[:-1]:
                    kwargs[m] = sizes[m]
    if rng.random() < 0.3 and (set(sub1) >= set(names) or set(sub2) >= set(names)) and not any(d.startswith("(") for d in d1 + d2):
        desc = f"{e1}, {e2}"
        note.append("implicit-output")
        if set(sub1) >= set(names) and set(sub2) >= set(names) and sub1 != sub2 and set(sub1) == set(sub2):
            # both are valid parents -> ambiguous; keep explicit instead
            desc = f"{e1}, {e2} -> {' '.join(out)}"
            note = []
    else:
        desc = f"{e1}, {e2} -> {' '.join(group(rng, out, 0.2))}"
    shapes = [shape_of_expr(e1, sizes), shape_of_expr(e2, sizes)]
    if rng.random() < 0.2 and "->" in desc:
        # a third operand: valid for the n-ary operations, an argument-count error for the binary ones (their third
        # positional argument would be numpy's `out=`)
        sub3 = [nm for nm in names if rng.random() < 0.7] or [names[0]]
        rng.shuffle(sub3)
        e3 = " ".join(sub3)
        ins, out_e = desc.split("->")
        desc = f"{ins.strip()}, {e3} -> {out_e.strip()}"
        shapes.append(shape_of_expr(e3, sizes))
        note = note + ["three-operands" if op in NARY else "invalid-arity"]
    return {"op": op, "family": "elementwise", "desc": desc, "shapes": shapes, "kwargs": kwargs, "note": note}


def gen_dot(rng):
    n = rng.randint(2, 5)
    names, sizes = pick_axes(rng, n)
    contracted = [names[0]] + [nm for nm in names[1:-1] if rng.random() < 0.3]
    rest = [nm for nm in names if nm not in contracted]
    s1 = contracted + [nm for nm in rest if rng.random() < 0.6]
    s2 = contracted + [nm for nm in rest if rng.random() < 0.6 or nm not in s1]
    rng.shuffle(s1)
    rng.shuffle(s2)
    out = list(rest)
    rng.shuffle(out)
    style = rng.choice(["auto", "brackets"])
    if style == "brackets":
        f = lambda l: " ".join(f"[{x}]" if x in contracted else x for x in l)
    else:
        f = lambda l: " ".join(l)
    desc = f"{f(s1)}, {f(s2)} -> {' '.join(out)}"
    backend = rng.choice([None, None, "numpy.einsum", "numpy.numpylike"])
    return {"op": "dot", "family": "dot", "desc": desc, "shapes": [tuple(sizes[x] for x in s1), tuple(sizes[x] for x in s2)], "kwargs": {}, "note": [style], "backend": backend}


def gen_get_at(rng):
    nb = rng.randint(1, 2)
    names, sizes = pick_axes(rng, nb + rng.randint(0, 2) + 1)
    idx_axes = names[:nb]
    vec = names[nb:-1]
    p = names[-1]
    for nm in idx_axes:
        sizes[nm] = max(sizes[nm], 2)
    t_items = [f"[{x}]" for x in idx_axes] + vec
    rng.shuffle(t_items)
    tvec = [x for x in vec]
    # coordinates: one tensor with a bracketed coordinate axis of length nb (or absent when nb == 1)
    cvec = [x for x in vec if rng.random() < 0.6] + [p]
    rng.shuffle(cvec)
    if nb == 1 and rng.random() < 0.5:
        c_items = list(cvec)
        cshape = tuple(sizes[x] for x in cvec)
        note = ["no-coord-axis"]
    else:
        pos = rng.randrange(len(cvec) + 1)
        c_items = cvec[:pos] + [f"[{nb}]"] + cvec[pos:]
        cshape = tuple(sizes[x] for x in cvec[:pos]) + (nb,) + tuple(sizes[x] for x in cvec[pos:])
        note = ["coord-axis"]
    out = list(dict.fromkeys(tvec + cvec))
    rng.shuffle(out)
    desc = f"{' '.join(t_items)}, {' '.join(c_items)} -> {' '.join(out)}"
    tshape = tuple(sizes[x.strip('[]')] for x in t_items)
    return {"op": "get_at", "family": "get_at", "desc": desc, "shapes": [tshape, cshape], "kwargs": {}, "note": note,
            "coord_bounds": [sizes[x.strip("[]")] for x in t_items if x.startswith("[")], "coord_axis_pos": (None if note == ["no-coord-axis"] else c_items.index(f"[{nb}]"))}


def gen_argfind(rng):
    n = rng.randint(1, 4)
    names, sizes = pick_axes(rng, n)
    op = rng.choice(["argmax", "argmin"])
    # several bracketed axes, adjacent and non-adjacent (gaps of one and more), at either end and in the middle
    k = rng.choice([1, 1, 2, 2, 2, 3]) if n > 1 else 1
    red = sorted(rng.sample(range(n), min(k, n)))
    red = [names[i] for i in red]
    items = [f"[{nm}]" if nm in red else nm for nm in names]
    if len(red) >= 2 and rng.random() < 0.3:
        # a multi-axis bracket group
        i = names.index(red[0])
        if names[i + 1:i + 2] == red[1:2]:
            items[i:i + 2] = [f"[{red[0]} {red[1]}]"]
    keep = [nm for nm in names if nm not in red]
    rng.shuffle(keep)
    if len(red) == 1 and rng.random() < 0.5:
        desc = f"{' '.join(items)} -> {' '.join(keep)}"
    else:
        pos = rng.randrange(len(keep) + 1)
        o = keep[:pos] + [f"[{len(red)}]"] + keep[pos:]
        desc = f"{' '.join(items)} -> {' '.join(o)}"
    return {"op": op, "family": "argfind", "desc": desc, "shapes": [tuple(sizes[x] for x in names)], "kwargs": {}, "note": [f"brackets={len(red)}"]}


def gen_preserve(rng):
    n = rng.randint(1, 3)
    names, sizes = pick_axes(rng, n)
    op = rng.choice(PRESERVE)
    if op in ("sort", "argsort"):
        red = [rng.choice(names)]
    else:
        red = [nm for nm in names if rng.random() < 0.5] or [names[0]]
    items = [f"[{nm}]" if nm in red else nm for nm in names]
    kwargs = {}
    if op == "roll":
        kwargs["shift"] = tuple(rng.randint(-2, 3) for _ in red) if len(red) > 1 or rng.random() < 0.5 else rng.randint(-2, 3)
    desc = " ".join(items)
    if rng.random() < 0.4:
        keep = [x for x in items]
        # un-bracketed axes may move, bracketed ones keep their relative order
        desc = f"{desc} -> {' '.join(keep)}"
    return {"op": op, "family": "preserve_shape", "desc": desc, "shapes": [tuple(sizes[x] for x in names)], "kwargs": kwargs, "note": []}


GENS = [(gen_id, 5), (gen_id_concat, 1), (gen_id_ellipsis, 1), (gen_reduce, 3), (gen_elementwise, 3), (gen_dot, 2), (gen_get_at, 1), (gen_argfind, 2), (gen_preserve, 1)]


def gen_call(rng, families=None):
    pool = [(g, w) for g, w in GENS if families is None or g.__name__[4:].split("_")[0] in families or g.__name__[4:] in families]
    tot = sum(w for _, w in pool)
    r = rng.random() * tot
    for g, w in pool:
        r -= w
        if r <= 0:
            return g(rng)
    return pool[-1][0](rng)


def make_args(call, rng, mode="iota"):
    """Integer tensor arguments for a call.  iota data separates any two different index maps."""
    args = []
    for i, shape in enumerate(call["shapes"]):
        n = int(np.prod(shape)) if len(shape) else 1
        if call["family"] == "get_at" and i >= 1:
            b = call["coord_bounds"]
            pos = call["coord_axis_pos"]
            if pos is None:
                x = np.asarray([rng.randrange(b[0]) for _ in range(n)], dtype=np.int64).reshape(shape)
            else:
                x = np.zeros(shape, dtype=np.int64)
                it = np.nditer(x, flags=["multi_index"])
                for _ in it:
                    mi = it.multi_index
                    x[mi] = rng.randrange(b[mi[pos]])
            args.append(x)
            continue
        if mode == "iota" or call["op"] in ("sort", "argsort", "argmax", "argmin"):
            # distinct values: no ties (any order of equal elements would be a correct sort)
            vals = list(range(1 + 1000 * i, n + 1 + 1000 * i))
            if mode != "iota":
                rng.shuffle(vals)
            x = np.asarray(vals, dtype=np.int64).reshape(shape)
        else:
            x = np.asarray([rng.randint(-9, 9) for _ in range(n)], dtype=np.int64).reshape(shape)
        args.append(x)
    return args
