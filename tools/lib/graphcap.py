"""Capture of real einx artefacts from outside (no hooks in /repo):
  * the solved stage-3 expression trees of a call (wrap `einx_from_namedtensor.solve`),
  * the traced graph before and after `tracer.optimize`,
  * the emitted text and the compiled function (`tracer.compiler.python.compile`),
and their canonical JSON serialisation."""
import contextlib

import numpy as np


def expr_to_json(e):
    import einx._src.namedtensor.stage3 as s3
    if isinstance(e, s3.Axis):
        return {"k": "axis", "name": e.name, "value": int(e.value)}
    if isinstance(e, s3.List):
        return {"k": "list", "c": [expr_to_json(c) for c in e.children]}
    if isinstance(e, s3.FlattenedAxis):
        return {"k": "flat", "c": expr_to_json(e.inner)}
    if isinstance(e, s3.ConcatenatedAxis):
        return {"k": "concat", "c": [expr_to_json(c) for c in e.children]}
    if isinstance(e, s3.Brackets):
        return {"k": "br", "c": expr_to_json(e.inner)}
    raise TypeError(type(e))


def canon_names(exprs):
    """Rename axes by first occurrence (a0, a1, ...) so that uuid-based names do not matter."""
    table = {}

    def go(e):
        if e["k"] == "axis":
            if e["name"] not in table:
                table[e["name"]] = f"x{len(table)}"
            return {"k": "axis", "name": table[e["name"]], "value": e["value"]}
        if e["k"] in ("list", "concat"):
            return {"k": e["k"], "c": [go(c) for c in e["c"]]}
        return {"k": e["k"], "c": go(e["c"])}
    return [go(e) for e in exprs], table


class Capture:
    def __init__(self):
        self.records = []      # one per traced call: dict(solved=..., pre=Graph, post=Graph, code=str, function=callable)
        self._cur = None


@contextlib.contextmanager
def capture():
    import einx._src.tracer as tracer
    import einx._src.adapter.einx_from_namedtensor as efn
    cap = Capture()
    orig_solve = efn.solve
    orig_opt = tracer.optimize
    orig_compile = tracer.compiler.python.compile
    state = {"solved": []}

    def solve(*a, **k):
        r = orig_solve(*a, **k)
        state["solved"].append(([expr_to_json(e) for e in r[0]], [expr_to_json(e) for e in r[1]]))
        return r

    def optimize(graph, *a, **k):
        out = orig_opt(graph, *a, **k)
        state["pre"], state["post"] = graph, out
        return out

    def compile(graph, *a, **k):
        r = orig_compile(graph, *a, **k)
        rec = {"solved": state.get("solved", []), "pre": state.get("pre"), "post": state.get("post"), "compiled_graph": graph}
        if isinstance(r, tuple):
            rec["function"], rec["code"] = r
        else:
            rec["function"], rec["code"] = r, None
        cap.records.append(rec)
        state.clear()
        state["solved"] = []
        return r

    efn.solve = solve
    tracer.optimize = optimize
    tracer.compiler.python.compile = compile
    try:
        yield cap
    finally:
        efn.solve = orig_solve
        tracer.optimize = orig_opt
        tracer.compiler.python.compile = orig_compile


_WRAPPERS = None


def _is_einx_cache(o):
    """Is this functools cache wrapper one of einx's?  Follows __wrapped__ / partial.func and looks at module names and
    code file names (functools.wraps over a functools.partial copies the partial's metadata, whose module is 'functools')."""
    import os
    w = o
    for _ in range(8):
        w = getattr(w, "__wrapped__", None)
        if w is None:
            return False
        for cand in (w, getattr(w, "func", None)):
            m = getattr(cand, "__module__", None)
            if isinstance(m, str) and m.startswith("einx"):
                return True
            code = getattr(cand, "__code__", None)
            if code is not None and (os.sep + "einx" + os.sep) in code.co_filename:
                return True
    return False


def clear_caches(rescan=False):
    """Drop einx's compiled-function caches so that the next call traces again (functools cache objects created by
    einx; adapters create new ones later, so callers that need those pass rescan=True)."""
    import gc
    import functools
    global _WRAPPERS
    if _WRAPPERS is None or rescan:
        _WRAPPERS = []
        for o in gc.get_objects():
            try:
                if isinstance(o, functools._lru_cache_wrapper) and _is_einx_cache(o):
                    _WRAPPERS.append(o)
            except Exception:
                pass
    for o in _WRAPPERS:
        o.cache_clear()
    return len(_WRAPPERS)


# ------------------------------------------------------------------ graph -> JSON

def _type_json(t):
    import einx._src.tracer as tracer
    C = tracer.signature.classical
    if isinstance(t, C.Tensor):
        return {"ty": "tensor", "shape": [int(s) for s in t.shape]}
    if isinstance(t, C.ConvertibleTensor):
        return {"ty": "convertible", "shape": None if t.shape is None else [int(s) for s in t.shape],
                "concrete": getattr(getattr(t.concrete, "type", None), "__name__", str(getattr(t.concrete, "type", None)))}
    return {"ty": "value"}


class GraphSerializer:
    def __init__(self):
        self.tid = {}          # id(tracer) -> int
        self.tracers = []      # [{"id", "type", "origin": app index | None}]
        self.apps = []
        self.appid = {}
        self.consts = []       # python objects referenced by Constant nodes / opaque values
        self._keep = []

    def value(self, v):
        import einx._src.tracer as tracer
        if isinstance(v, tracer.Tracer):
            return {"t": "ref", "id": self.tracer(v)}
        if isinstance(v, tracer.Graph):
            return {"t": "graph", "g": self.graph(v)}
        if v is None:
            return {"t": "none"}
        if isinstance(v, (bool, np.bool_)):
            return {"t": "bool", "v": bool(v)}
        if isinstance(v, (int, np.integer)):
            return {"t": "int", "v": int(v)}
        if isinstance(v, (float, np.floating)):
            return {"t": "float", "v": repr(float(v))}
        if isinstance(v, str):
            return {"t": "str", "v": v}
        if isinstance(v, tuple):
            return {"t": "tuple", "v": [self.value(x) for x in v]}
        if isinstance(v, list):
            return {"t": "list", "v": [self.value(x) for x in v]}
        if isinstance(v, dict):
            return {"t": "dict", "k": [self.value(k) for k in v.keys()], "v": [self.value(x) for x in v.values()]}
        if isinstance(v, slice):
            return {"t": "slice", "v": [self.value(v.start), self.value(v.stop), self.value(v.step)]}
        if v is Ellipsis:
            return {"t": "ellipsis"}
        self.consts.append(v)
        return {"t": "obj", "idx": len(self.consts) - 1, "repr": getattr(v, "__name__", type(v).__name__)}

    def tracer(self, t):
        if id(t) in self.tid:
            return self.tid[id(t)]
        self._keep.append(t)
        if t.origin is not None:
            self.app(t.origin)
            if id(t) in self.tid:
                return self.tid[id(t)]
            # a tracer whose origin's output pytree does not contain it (should not happen)
        n = len(self.tracers)
        self.tid[id(t)] = n
        self.tracers.append({"id": n, "type": _type_json(t), "origin": None if t.origin is None else self.appid[id(t.origin)]})
        return n

    def _register_outputs(self, app, idx):
        from einx._src.util import pytree

        def reg(x):
            import einx._src.tracer as tracer
            if isinstance(x, tracer.Tracer) and id(x) not in self.tid:
                n = len(self.tracers)
                self.tid[id(x)] = n
                self._keep.append(x)
                self.tracers.append({"id": n, "type": _type_json(x), "origin": idx})
            return x
        pytree.map(reg, app.output)

    def app(self, a):
        import einx._src.tracer as tracer
        P = tracer.signature.python
        if id(a) in self.appid:
            return self.appid[id(a)]
        self._keep.append(a)
        if isinstance(a, P.Call):
            d = {"kind": "call", "function": self.value(a.function), "args": [self.value(x) for x in a.args],
                 "kwargs": [[k, self.value(v)] for k, v in a.kwargs.items()], "deps": [self.value(x) for x in a.additional_dependencies]}
        elif isinstance(a, P.CallInplace):
            d = {"kind": "call_inplace", "xs": self.value(a.xs), "function": self.value(a.function), "args": [self.value(x) for x in a.args],
                 "kwargs": [[k, self.value(v)] for k, v in a.kwargs.items()], "deps": [self.value(x) for x in a.additional_dependencies]}
        elif isinstance(a, P.GetAttr):
            d = {"kind": "getattr", "obj": self.value(a.obj), "key": a.key}
        elif isinstance(a, P.GetItem):
            d = {"kind": "getitem", "obj": self.value(a.obj), "key": self.value(a.key)}
        elif isinstance(a, P.UpdateItem):
            d = {"kind": "updateitem", "obj": self.value(a.obj), "key": self.value(a.key), "value": self.value(a.value), "op": a.op}
        elif isinstance(a, P.Import):
            d = {"kind": "import", "import": a.import_, "from": a.from_, "as": a.as_}
        elif isinstance(a, P.OperatorApplication):
            d = {"kind": "operator", "operator": a.operator, "operands": [self.value(x) for x in a.operands]}
        elif isinstance(a, P.Builtin):
            d = {"kind": "builtin", "name": a.name}
        elif isinstance(a, P.Assert):
            d = {"kind": "assert", "xs": self.value(a.xs), "condition": self.value(a.condition), "message": a.message}
        elif isinstance(a, P.Constant):
            d = {"kind": "constant", "value": self.value(a.value)}
        elif isinstance(a, tracer.Cast):
            d = {"kind": "cast", "input": self.value(a.input)}
        else:
            raise TypeError(f"unknown application {type(a)}")
        idx = len(self.apps)
        self.appid[id(a)] = idx
        self.apps.append(d)
        self._register_outputs(a, idx)
        d["out"] = self.value(a.output)
        return idx

    def graph(self, g):
        inputs = [self.tracer(t) for t in g.inputs]
        out = self.value(g.output)
        return {"inputs": inputs, "output": out, "name": g.name}


def graph_to_json(g):
    """`g` is a tracer.Graph, or -- when InlineGraph collapsed the whole graph into the function it wraps --
    a plain tracer (e.g. `np.take`); the latter is serialised as {"inlined": <value>}."""
    import einx._src.tracer as tracer
    s = GraphSerializer()
    if not isinstance(g, tracer.Graph):
        top = {"inlined": s.value(g)}
        return {"top": top, "apps": s.apps, "tracers": s.tracers}, s.consts
    top = s.graph(g)
    return {"top": top, "apps": s.apps, "tracers": s.tracers}, s.consts
