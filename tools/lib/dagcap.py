"""Real tracer graphs as DAG stores for the Lean model of the optimiser traversal (lean/EinxModel/Optimize/Dag.lean).

`to_dag(graph_json)` turns the canonical serialisation of lib.graphcap (tracers numbered in creation order, applications
with their operand pytrees) into the store the model reads: one node per tracer (node index = tracer id), operand pytrees
as token lists in prefix notation.  `canon(prog)` renumbers a store by a depth-first walk from its top object (graph inputs
first, then operands before consumers, nested graphs inlined) so that two stores are isomorphic as rooted ordered DAGs with
sharing iff their canonical forms are equal -- this is the structural comparison between the model's output and the real
optimised graph.  `patterns_json(patterns)` describes the REAL pattern objects of a backend (class + the tracer it is bound to).
"""
import json


class Unsupported(Exception):
    pass


def _tok(v, graphs, conv):
    t = v["t"]
    if t == "ref":
        return [["r", v["id"]]]
    if t == "graph":
        g = v["g"]
        k = len(graphs)
        graphs.append(None)
        graphs[k] = {"inputs": list(g["inputs"]), "output": _tok(g["output"], graphs, conv), "name": g.get("name")}
        return [["g", k]]
    if t == "none":
        return [["a", "none"]]
    if t == "bool":
        return [["a", "bool", bool(v["v"])]]
    if t == "int":
        return [["a", "int", int(v["v"])]]
    if t == "float":
        return [["a", "float", str(v["v"])]]
    if t == "str":
        return [["a", "str", v["v"]]]
    if t in ("tuple", "list"):
        out = [["o", t, len(v["v"])]]
        for x in v["v"]:
            out += _tok(x, graphs, conv)
        return out
    if t == "dict":
        out = [["o", "dict", len(v["v"])]]
        for k, x in zip(v["k"], v["v"]):
            out += _tok(k, graphs, conv) + _tok(x, graphs, conv)
        return out
    if t == "slice":
        out = [["o", "slice", 3]]
        for x in v["v"]:
            out += _tok(x, graphs, conv)
        return out
    if t == "ellipsis":
        return [["a", "other", "ellipsis"]]
    if t == "obj":
        return [["a", "other", "obj:" + str(v.get("repr"))]]
    raise Unsupported(f"value kind {t}")


def _ty(t, cids):
    if t["ty"] == "tensor":
        return ["tensor", [int(s) for s in t["shape"]]]
    if t["ty"] == "convertible":
        key = str(t.get("concrete"))
        if key not in cids:
            cids[key] = len(cids)
        return ["conv", None if t["shape"] is None else [int(s) for s in t["shape"]], cids[key]]
    return ["value"]


def _const_repr(v):
    """A Constant's value is never traversed by the optimiser; it is compared as text (object identities dropped)."""
    def strip(x):
        if isinstance(x, dict):
            return {k: strip(y) for k, y in x.items() if k != "idx"}
        if isinstance(x, list):
            return [strip(y) for y in x]
        return x
    return json.dumps(strip(v), sort_keys=True)


def _app(a, graphs):
    k = a["kind"]
    T = lambda v: _tok(v, graphs, None)
    pre, args, kwargs, deps = [], [], [], []
    if k == "call":
        head, pre = ["call"], [T(a["function"])]
        args, kwargs, deps = [T(x) for x in a["args"]], [[n, T(x)] for n, x in a["kwargs"]], [T(x) for x in a["deps"]]
    elif k == "call_inplace":
        head, pre = ["call_inplace"], [T(a["xs"]), T(a["function"])]
        args, kwargs, deps = [T(x) for x in a["args"]], [[n, T(x)] for n, x in a["kwargs"]], [T(x) for x in a["deps"]]
    elif k == "getattr":
        head, pre = ["getattr", a["key"]], [T(a["obj"])]
    elif k == "getitem":
        head, pre = ["getitem"], [T(a["obj"]), T(a["key"])]
    elif k == "updateitem":
        head, pre = ["updateitem", a["op"]], [T(a["obj"]), T(a["key"]), T(a["value"])]
    elif k == "import":
        head = ["import", a["import"], a["from"], a["as"]]
    elif k == "operator":
        head, pre = ["operator", a["operator"]], [T(x) for x in a["operands"]]
    elif k == "builtin":
        head = ["builtin", a["name"]]
    elif k == "assert":
        head, pre = ["assert", a["message"]], [T(a["xs"]), T(a["condition"])]
    elif k == "constant":
        head = ["constant", _const_repr(a["value"])]
    elif k == "cast":
        head, pre = ["cast"], [T(a["input"])]
    else:
        raise Unsupported(f"application kind {k}")
    return {"head": head, "pre": pre, "args": args, "kwargs": kwargs, "deps": deps}


def to_dag(gj):
    """graphcap JSON -> {"nodes", "graphs", "top"}."""
    graphs, cids = [], {}
    tracers, apps = gj["tracers"], gj["apps"]
    conv_apps = {}
    nodes = []
    for i, t in enumerate(tracers):
        if t["id"] != i:
            raise Unsupported("tracer ids are not consecutive")
        ty = _ty(t["type"], cids)
        if t["origin"] is None:
            nodes.append({"ty": ty, "origin": None})
            continue
        ai = t["origin"]
        if ai not in conv_apps:
            a = apps[ai]
            out = _tok(a["out"], graphs, None)
            refs = [x[1] for x in out if x[0] == "r"]
            if not refs or refs != list(range(refs[0], refs[0] + len(refs))) or any(x[0] == "g" for x in out):
                raise Unsupported("outputs of an application are not consecutive tracers")
            base = refs[0]
            app = _app(a, graphs)
            app["out"] = [["r", x[1] - base] if x[0] == "r" else x for x in out]
            conv_apps[ai] = (base, app, len(refs))
        base, app, n = conv_apps[ai]
        if i == base:
            nodes.append({"ty": ty, "origin": {"app": app}})
        elif base < i < base + n:
            nodes.append({"ty": ty, "origin": {"proj": [base, i - base]}})
        else:
            raise Unsupported("a tracer is not among the outputs of its origin")
    top = gj["top"]
    if "inlined" in top:
        toks = _tok(top["inlined"], graphs, None)
    else:
        k = len(graphs)
        graphs.append(None)
        graphs[k] = {"inputs": list(top["inputs"]), "output": _tok(top["output"], graphs, None), "name": top.get("name")}
        toks = [["g", k]]
    return {"nodes": nodes, "graphs": graphs, "top": toks}


def canon(prog):
    """Canonical form: nodes renumbered in depth-first order from the top object; nested graphs inlined."""
    nodes, graphs = prog["nodes"], prog["graphs"]
    ids = {}
    out = []

    def toks(v):
        r = []
        for t in v:
            if t[0] == "r":
                r.append(["r", node(t[1])])
            elif t[0] == "g":
                g = graphs[t[1]]
                ins = [node(i) for i in g["inputs"]]
                r.append(["G", ins, toks(g["output"]), g["name"]])
            else:
                r.append(t)
        return r

    def node(i):
        if i in ids:
            return ids[i]
        n = nodes[i]
        o = n["origin"]
        if o is None:
            rec = {"ty": n["ty"], "origin": None}
        elif "app" in o:
            a = o["app"]
            rec = {"ty": n["ty"], "origin": {"app": {"head": a["head"], "pre": [toks(v) for v in a["pre"]], "args": [toks(v) for v in a["args"]],
                                                      "kwargs": [[k, toks(v)] for k, v in a["kwargs"]], "deps": [toks(v) for v in a["deps"]], "out": a["out"]}}}
        else:
            rec = {"ty": n["ty"], "origin": {"proj": [node(o["proj"][0]), o["proj"][1]]}}
        if i in ids:          # (cannot happen in an acyclic store)
            return ids[i]
        ids[i] = len(out)
        out.append(rec)
        return ids[i]

    top = toks(prog["top"])
    return {"nodes": out, "top": top}


def first_difference(a, b, path="$"):
    """Path of the first difference between two JSON values (None when equal)."""
    if type(a) != type(b):
        return f"{path}: {json.dumps(a)[:200]} vs {json.dumps(b)[:200]}"
    if isinstance(a, dict):
        for k in sorted(set(a) | set(b)):
            if k not in a or k not in b:
                return f"{path}.{k}: present on one side only"
            d = first_difference(a[k], b[k], f"{path}.{k}")
            if d:
                return d
        return None
    if isinstance(a, list):
        if len(a) != len(b):
            return f"{path}: lengths {len(a)} vs {len(b)}: {json.dumps(a)[:200]} vs {json.dumps(b)[:200]}"
        for i, (x, y) in enumerate(zip(a, b)):
            d = first_difference(x, y, f"{path}[{i}]")
            if d:
                return d
        return None
    return None if a == b else f"{path}: {a!r} vs {b!r}"


_PATTERN_ATTR = {"SkipReshape": "reshape", "SkipTranspose": "transpose", "SkipBroadcastTo": "broadcast_to", "SkipConcatenate": "concatenate"}


def _fn_pat(t):
    """A pattern's tracer as Import + attribute path (what the model compares structurally)."""
    import einx._src.tracer as tracer
    P = tracer.signature.python
    path = []
    while True:
        if not isinstance(t, P.Value) or t.origin is None:
            raise Unsupported("pattern function is not a Value tracer built from an import")
        o = t.origin
        if isinstance(o, P.GetAttr):
            path.append(o.key)
            t = o.obj
        elif isinstance(o, P.Import):
            return {"import": o.import_, "from": o.from_, "as": o.as_, "path": list(reversed(path))}
        else:
            raise Unsupported(f"pattern function built from {type(o).__name__}")


def patterns_json(patterns):
    out = []
    for p in patterns:
        name = type(p).__name__
        if name in _PATTERN_ATTR:
            out.append({"name": name, "fn": _fn_pat(getattr(p, _PATTERN_ATTR[name]))})
        elif name in ("InlineGraph", "SkipCast"):
            out.append({"name": name})
        else:
            raise Unsupported(f"pattern class {name}")
    return out
