"""Tie of the work package "exec" (C13/C15 with C04): `Props/C13Exec.lean` / `Props/C15Exec.lean` prove that the program the
code generator emits for a supported, well-formed graph evaluates every reachable node exactly once (`exec_from_compile`) and
produces exactly one event for the node that calls a tensor factory / an adapted user function.  For every captured graph
this module asks the driver (kind `exec_check`) to

  * decode the graph as the C04 graph, translate it (`Exec/View.lean:toFactory` / `toAdapt`) and run the proved checker on the
    *translated* graph; the translated graph must equal the directly decoded one (`same_graph`),
  * compile it with the model of the code generator – the emitted text must be the real emitted text,
  * evaluate the premises of the theorems (`wf_graph`, `supported`, `fwf`) and the instance of their conclusions on this graph
    (`exec_ok`; calls / statements / events per factory position or user constant).

A failed premise or instance is a broken tie (never a violation by itself)."""
from lib import graphcap


def graph_doc(g):
    """graphcap JSON of a graph plus str(value) of every Constant (what `Driver/Compile.lean:decodeGraphDoc` expects)."""
    import einx._src.tracer as tracer
    s = graphcap.GraphSerializer()
    top = s.graph(g) if isinstance(g, tracer.Graph) else {"inlined": s.value(g)}
    for a in s._keep:
        if isinstance(a, tracer.signature.python.Constant):
            s.apps[s.appid[id(a)]]["str"] = str(a.value)
    return {"top": top, "apps": s.apps, "tracers": s.tracers}, s


def _premises(ctx, r, label, code, checker_key):
    """Common part: translation, text, premises, instance of exec_from_compile.  Returns True when the per-node part applies."""
    if not r.get("translated"):
        ctx.count("exec-thm:not-a-graph")
        return False
    ctx.count("exec-thm:graphs")
    if not r["same_graph"]:
        ctx.tie_broken("exec:translation", f"{label}: the graph translated from the C04 graph differs from the directly decoded one")
        return False
    if r[checker_key] != r[checker_key + "_direct"]:
        ctx.tie_broken("exec:translation", f"{label}: the checker's verdict differs between translated and directly decoded graph")
        return False
    if "compile_err" in r:
        ctx.tie_broken("exec:compile", f"{label}: the model of the code generator fails on a graph the real one compiles: {r['compile_err']}")
        return False
    if code is not None and r["text"] != code:
        ctx.tie_broken("exec:text", f"{label}: real text\n{code}\nmodel text\n{r['text']}")
        return False
    prem = [k for k in ("wf_graph", "supported", "fwf") if not r[k]]
    if prem:
        # the theorems do not speak about this graph: `Exec` is not established for it
        ctx.count("exec-thm:premise-fails:" + ",".join(prem))
        ctx.tie_broken("exec:premise", f"{label}: premise(s) {prem} of exec_from_compile do not hold for the captured graph")
        return False
    ctx.count("exec-thm:premises-hold")
    if not r["exec_ok"]:
        ctx.tie_broken("exec:instance", f"{label}: premises hold but the schedule of the emitted program (length {r['sched_len']}) is not "
                                        f"the reachable set (size {r['reachable_len']}) exactly once: the driver contradicts exec_from_compile")
        return False
    if not r["trace_is_ref"]:
        ctx.tie_broken("exec:instance", f"{label}: tagged trace of the emitted program differs from the reference evaluation (compile_correct_wf)")
        return False
    ctx.count("exec-thm:instance-ok")
    return True


def exec_factory(ctx, g, code, op_name, argsd, label):
    """C13: `factory_called_once_compiled` on one captured compiled graph.  `argsd` as for `factory_check`."""
    doc, _ = graph_doc(g)
    r = ctx.driver().ask({"kind": "exec_check", "mode": "factory", "graph": doc, "op_name": op_name, "args": argsd})
    if not _premises(ctx, r, label, code, "factory_ok"):
        return r
    if not r["factory_ok"]:
        ctx.tie_broken("checker:translated-graph", f"{label}: {r['reason']}")
        return r
    want = [i for i, a in enumerate(argsd) if a["factory"] is not None]
    got = [f["pos"] for f in r["factories"]]
    if want != got:
        ctx.tie_broken("exec:once", f"{label}: factory positions {want} vs positions reported by the driver {got}")
        return r
    for f in r["factories"]:
        ev = f["events"]
        ok = (len(f["calls"]) == 1 and f["stmt_counts"] == [1] and len(ev) == 1 and ev[0]["tag"] == f["calls"][0]
              and ev[0]["event"].get("call") and ev[0]["event"]["npos"] == 1 and ev[0]["event"]["kwnames"] == f["passed_names"])
        if not ok:
            ctx.tie_broken("exec:once", f"{label}: factory at position {f['pos']}: calling nodes {f['calls']}, statements {f['stmt_counts']}, "
                                        f"events {ev}, model keywords {f['passed_names']} (factory_called_once_compiled)")
            continue
        ctx.count("exec-thm:factory-called-once")
        # value level (factory_call_value_compiled): further premises, then exactly one call event whose function term is the input's object
        vprem = [k for k, v in (("root_stable", r["root_stable"]), ("casts_plain", f["casts_plain"])) if not v]
        if vprem:
            ctx.count("exec-thm:value-premise-fails:" + ",".join(vprem))
            ctx.tie_broken("exec:premise", f"{label}: premise(s) {vprem} of factory_call_value_compiled do not hold for the captured graph")
            continue
        vev = f["value_events"]
        if not (len(vev) == 1 and vev[0]["tag"] == f["calls"][0] and vev[0]["event"]["npos"] == 1 and vev[0]["event"]["kwnames"] == f["passed_names"]):
            ctx.tie_broken("exec:once", f"{label}: factory at position {f['pos']}: call events whose function is the factory object: {vev} "
                                        f"(factory_call_value_compiled)")
        else:
            ctx.count("exec-thm:factory-object-called-once")
    return r


def exec_adapt(ctx, g, code, arg_shapes, axis, options, out_shape, label):
    """C15: `adapter_called_once_compiled` on one captured compiled graph.  Arguments as for `adapt_check`."""
    doc, _ = graph_doc(g)
    r = ctx.driver().ask({"kind": "exec_check", "mode": "adapt", "graph": doc, "arg_shapes": arg_shapes, "axis": axis,
                          "options": options, "out_shape": out_shape})
    if not _premises(ctx, r, label, code, "adapt_ok"):
        return r
    if not r["adapt_ok"]:
        ctx.tie_broken("correspondence:adapt-graph", f"{label}: the proved checker rejects the translated graph: {r['reason']}")
        return r
    if len(r["users"]) != 1:
        ctx.tie_broken("exec:once", f"{label}: {len(r['users'])} constants in an accepted graph")
        return r
    u = r["users"][0]
    ev = u["events"]
    ok = (u["reachable"] and len(u["calls"]) == 1 and u["calls"] == u["all_calls"] and u["stmt_counts"] == [1] and len(ev) == 1
          and ev[0]["tag"] == u["calls"][0] and ev[0]["event"].get("call") and ev[0]["event"]["npos"] == r["spec_npos"]
          and ev[0]["event"]["kwnames"] == r["spec_kwnames"])
    if not ok:
        ctx.tie_broken("exec:once", f"{label}: user constant {u['const']}: calling nodes {u['calls']} (all {u['all_calls']}, reachable {u['reachable']}), "
                                    f"statements {u['stmt_counts']}, events {ev}, expected {r['spec_npos']} positional and keywords {r['spec_kwnames']}")
        return r
    ctx.count("exec-thm:user-called-once")
    # value level (adapter_call_value_compiled): exactly one call event whose function term is a constant object
    cev = r["const_events"]
    if not (len(cev) == 1 and cev[0]["tag"] == u["calls"][0] and cev[0]["event"]["npos"] == r["spec_npos"] and cev[0]["event"]["kwnames"] == r["spec_kwnames"]):
        ctx.tie_broken("exec:once", f"{label}: call events whose function is a constant object: {cev} (adapter_call_value_compiled)")
    else:
        ctx.count("exec-thm:user-object-called-once")
    return r
