"""Reference interpreter over REAL tracer graphs (node by node, on real numpy), independent of einx's code generator
and of the Lean model; used by the C05 search oracle.

Unlike `einx/_src/tracer/compiler/run.py` it supports the in-place nodes (`CallInplace`, `UpdateItem`), nested graphs
used as callables, and multi-result casts.  Evaluation is demand driven from the graph output; the inputs of an
application are evaluated in the order of `Application.inputs` (the order in which the code generator visits them).

Also: structural measures of a graph (number of application nodes of the DAG, and of the graph unfolded into a tree,
i.e. counted once per path from the output) and a monitor that records every pass of the real `optimize` loop.
"""
import builtins
import contextlib
import importlib
import operator

import numpy as np

OPERATORS = {"+": operator.add, "*": operator.mul, "-": operator.sub, "==": operator.eq, "!=": operator.ne,
             "<": operator.lt, "<=": operator.le, ">": operator.gt, ">=": operator.ge, "/": operator.truediv,
             "//": operator.floordiv, "%": operator.mod}
UPDATE = {"=": None, "+=": operator.iadd, "-=": operator.isub}


class EvalError(Exception):
    pass


class Evaluator:
    def __init__(self):
        self.memo = {}
        self.keep = []

    def bind(self, t, value):
        self.memo[id(t)] = value
        self.keep.append(t)

    def bind_tree(self, out, value):
        import einx._src.tracer as tracer
        if isinstance(out, tracer.Tracer):
            self.bind(out, value)
        elif isinstance(out, (tuple, list)):
            value = list(value)
            if len(value) != len(out):
                raise EvalError(f"cast of {len(value)} results to {len(out)} tracers")
            for o, v in zip(out, value):
                self.bind_tree(o, v)
        elif isinstance(out, dict):
            for k in out:
                self.bind_tree(out[k], value[k])
        else:
            raise EvalError(f"unsupported output structure {type(out)}")

    def val(self, x):
        import einx._src.tracer as tracer
        if isinstance(x, tracer.Graph):
            return lambda *args: run_graph(x, args, outer=self)
        if isinstance(x, tracer.Tracer):
            if id(x) not in self.memo:
                if x.origin is None:
                    raise EvalError("unbound graph input")
                self.app(x.origin)
                if id(x) not in self.memo:
                    raise EvalError("application did not bind its output")
            return self.memo[id(x)]
        if isinstance(x, list):
            return [self.val(i) for i in x]
        if isinstance(x, tuple):
            return tuple(self.val(i) for i in x)
        if isinstance(x, dict):
            return {self.val(k): self.val(v) for k, v in x.items()}
        if isinstance(x, slice):
            return slice(self.val(x.start), self.val(x.stop), self.val(x.step))
        return x

    def app(self, a):
        import einx._src.tracer as tracer
        P = tracer.signature.python
        for i in a.inputs:
            self.val(i)
        if isinstance(a, P.Call):
            f = self.val(a.function)
            r = f(*[self.val(x) for x in a.args], **{k: self.val(v) for k, v in a.kwargs.items()})
            self.bind_tree(a.output, r)
        elif isinstance(a, P.CallInplace):
            xs = self.val(a.xs)
            f = self.val(a.function)
            f(*[self.val(x) for x in a.args], **{k: self.val(v) for k, v in a.kwargs.items()})
            self.bind_tree(a.output, xs)
        elif isinstance(a, P.UpdateItem):
            obj = self.val(a.obj)
            key = self.val(a.key)
            value = self.val(a.value)
            if a.op == "=":
                obj[key] = value
            elif a.op == "+=":
                obj[key] += value
            elif a.op == "-=":
                obj[key] -= value
            else:
                raise EvalError(f"update operator {a.op}")
            self.bind_tree(a.output, obj)
        elif isinstance(a, P.GetAttr):
            self.bind_tree(a.output, getattr(self.val(a.obj), a.key))
        elif isinstance(a, P.GetItem):
            self.bind_tree(a.output, self.val(a.obj)[self.val(a.key)])
        elif isinstance(a, P.Import):
            if a.from_ is None:
                self.bind_tree(a.output, importlib.import_module(a.import_))
            else:
                self.bind_tree(a.output, getattr(importlib.import_module(a.from_), a.import_))
        elif isinstance(a, P.OperatorApplication):
            self.bind_tree(a.output, OPERATORS[a.operator](*[self.val(o) for o in a.operands]))
        elif isinstance(a, P.Builtin):
            self.bind_tree(a.output, getattr(builtins, a.name))
        elif isinstance(a, P.Assert):
            if not self.val(a.condition):
                raise AssertionError(a.message)
            self.bind_tree(a.output, self.val(a.xs))
        elif isinstance(a, P.Constant):
            self.bind_tree(a.output, a.value)
        elif isinstance(a, tracer.Cast):
            self.bind_tree(a.output, self.val(a.input))
        else:
            raise EvalError(f"unsupported application {type(a).__name__}")


def run_graph(g, args, outer=None):
    """Evaluate the real graph `g` (or, when InlineGraph collapsed it, the function tracer it became) on `args`."""
    import einx._src.tracer as tracer
    ev = Evaluator()
    if outer is not None:
        ev.memo.update(outer.memo)     # values of the enclosing graph that a nested graph may close over
        ev.keep = outer.keep
    if not isinstance(g, tracer.Graph):
        f = ev.val(g)
        return f(*args)
    if len(args) != len(g.inputs):
        raise EvalError(f"graph expects {len(g.inputs)} inputs, got {len(args)}")
    for t, v in zip(g.inputs, args):
        ev.bind(t, v)
    return ev.val(g.output)


# ------------------------------------------------------------------------------------------------- measures

def _flat_tracers(x, out):
    import einx._src.tracer as tracer
    if isinstance(x, (tracer.Tracer, tracer.Graph)):
        out.append(x)
    elif isinstance(x, (list, tuple)):
        for i in x:
            _flat_tracers(i, out)
    elif isinstance(x, dict):
        for k, v in x.items():
            _flat_tracers(k, out)
            _flat_tracers(v, out)
    elif isinstance(x, slice):
        _flat_tracers([x.start, x.stop, x.step], out)
    return out


def measures(g):
    """(dag, tree, kinds): number of application nodes (nested graphs count as one node each) reachable from `g`,
    the same number in the tree unfolding (each node counted once per path from the output; a Python int, can be
    large), and a histogram of node kinds."""
    import einx._src.tracer as tracer
    tree = {}
    seen_apps = {}
    kinds = {}
    keep = []

    def app_inputs(a):
        return _flat_tracers(list(a.inputs), [])

    def size(x):
        # iterative post-order to stay clear of the recursion limit
        stack = [(x, False)]
        while stack:
            n, done = stack.pop()
            key = id(n)
            if key in tree:
                continue
            if isinstance(n, tracer.Graph):
                ch = _flat_tracers(n.output, [])
                if done:
                    tree[key] = 1 + sum(tree[id(c)] for c in ch)
                    seen_apps[key] = "graph"
                    keep.append(n)
                else:
                    stack.append((n, True))
                    stack.extend((c, False) for c in ch if id(c) not in tree)
            else:
                if n.origin is None:
                    tree[key] = 0
                    keep.append(n)
                    continue
                ch = app_inputs(n.origin)
                if done:
                    tree[key] = 1 + sum(tree[id(c)] for c in ch)
                    seen_apps[id(n.origin)] = type(n.origin).__name__
                    keep.append(n)
                else:
                    stack.append((n, True))
                    stack.extend((c, False) for c in ch if id(c) not in tree)
        return tree[id(x)]

    roots = [g] if isinstance(g, (tracer.Graph, tracer.Tracer)) else _flat_tracers(g, [])
    total = sum(size(r) for r in roots)
    for k in seen_apps.values():
        kinds[k] = kinds.get(k, 0) + 1
    return len(seen_apps), total, kinds


# ------------------------------------------------------------------------------------------------- pass monitor

class TooManyPasses(Exception):
    pass


class PassLog:
    def __init__(self):
        self.runs = []        # one list per call of optimize(): [{"changed", "dag_in", "tree_in", "dag_out", "tree_out"}]
        self._cur = None
        self._first_dag = None

    def reset(self):
        """Forget an aborted run (after TooManyPasses) so that the next optimize() starts a new record."""
        self._cur = None


@contextlib.contextmanager
def monitor_passes():
    """Wrap `Optimizer` (from outside) so that every pass of the real `optimize` loop is recorded with the node
    measures of the graph it was given and of the graph it returned.  A run of more than (dag nodes of the first
    graph + 2) passes is aborted with TooManyPasses (the loop would otherwise not be observable if it diverged)."""
    import einx._src.tracer.optimizer.optimizer as om
    log = PassLog()
    Real = om.Optimizer

    class Monitored(Real):
        def __init__(self, optimizations):
            super().__init__(optimizations)
            self._depth = 0

        def _optimize(self, x):
            if self._depth > 0:
                return super()._optimize(x)
            # top-level call of a pass
            dag_in, tree_in, _ = measures(x)
            if log._cur is None:
                log._cur = []
                log._first_dag = dag_in
                log.runs.append(log._cur)
            cur = log._cur
            if len(cur) > log._first_dag + 2:
                raise TooManyPasses(f"{len(cur)} passes on a graph of {log._first_dag} nodes")
            self._depth += 1
            try:
                y = super()._optimize(x)
            finally:
                self._depth -= 1
            dag_out, tree_out, _ = measures(y)
            cur.append({"changed": bool(self.changed), "dag_in": dag_in, "tree_in": tree_in, "dag_out": dag_out, "tree_out": tree_out})
            if not self.changed:
                log._cur = None
            return y

    om.Optimizer = Monitored
    try:
        yield log
    finally:
        om.Optimizer = Real
