"""End-to-end oracle: what a call must return according to the loop notation (lib.denote), given the solved
stage-3 expression trees captured from the call (front-trusted: einx's own parser/solver; tied separately by
C02/C07/C12)."""
import warnings

import numpy as np

from . import denote, graphcap


def _logsumexp(x):
    x = np.asarray(x, dtype=np.float64)
    m = np.max(x)
    return m + np.log(np.sum(np.exp(x - m)))


REDUCE_F = {
    "sum": np.sum, "mean": np.mean, "var": np.var, "std": np.std, "prod": np.prod, "count_nonzero": np.count_nonzero,
    "all": np.all, "any": np.any, "min": np.min, "max": np.max, "logsumexp": _logsumexp,
}


def _softmax(x):
    x = np.asarray(x, dtype=np.float64)
    e = np.exp(x - np.max(x))
    return e / np.sum(e)


def _log_softmax(x):
    x = np.asarray(x, dtype=np.float64)
    return x - _logsumexp(x)


def run_einx(call, args, backend=None, graph=False):
    import einx
    f = getattr(einx, call["op"])
    kw = dict(call["kwargs"])
    b = call.get("backend", None) if backend is None else backend
    if b is not None:
        kw["backend"] = b
    if graph:
        kw["graph"] = True
    with warnings.catch_warnings():
        warnings.simplefilter("ignore")
        return f(call["desc"], *args, **kw)


def run_captured(call, args, backend=None):
    """Run the call with capture; returns (result, record | None).  The compiled-function cache is bypassed by
    clearing it first, so that a record is always produced."""
    graphcap.clear_caches()
    with graphcap.capture() as cap:
        res = run_einx(call, args, backend)
    if not cap.records:
        # a cache that was created after the first scan served the call: rescan once and trace again
        graphcap.clear_caches(rescan=True)
        with graphcap.capture() as cap:
            res = run_einx(call, args, backend)
    rec = cap.records[-1] if cap.records else None
    return res, rec


def expected(call, args, solved):
    """Expected outputs (list of arrays) from the loop-notation denotation."""
    exprs_in, exprs_out = solved
    fam = call["family"]
    op = call["op"]
    with warnings.catch_warnings():
        warnings.simplefilter("ignore")
        if fam == "id":
            return denote.denote_id(exprs_in, exprs_out, args)
        if fam == "elementwise":
            f2 = getattr(np, op)
            if len(args) > 2 and op in ("add", "multiply", "logical_and", "logical_or", "maximum", "minimum", "logaddexp"):
                import functools
                f = lambda *xs: functools.reduce(f2, xs)   # "takes any number of scalars"
            elif len(args) != (3 if op == "where" else 1 if op in ("exp", "log", "negative") else 2):
                raise denote.Unsupported("wrong number of operands for a fixed-arity elementary operation")
            else:
                f = f2
            return [denote.denote_elementwise(f, exprs_in, exprs_out[0], args)]
        if fam == "reduce":
            return [denote.denote_reduce(REDUCE_F[op], exprs_in[0], exprs_out[0], args[0])]
        if fam == "dot":
            return [denote.denote_dot(exprs_in, exprs_out[0], args)]
        if fam == "get_at":
            return [denote.denote_get_at(exprs_in, exprs_out[0], args)]
        if fam == "argfind":
            return [denote.denote_argfind(op, exprs_in[0], exprs_out[0], args[0])]
        if fam == "preserve_shape":
            kw = call["kwargs"]
            if op == "flip":
                f = lambda s: np.flip(s)
            elif op == "roll":
                sh = kw["shift"]
                f = lambda s: np.roll(s, sh, axis=tuple(range(s.ndim))) if isinstance(sh, tuple) else np.roll(s, sh, axis=0 if s.ndim == 1 else None)
                if not isinstance(sh, tuple):
                    # a scalar shift with several bracketed axes: einx's documented meaning is per-axis shift; only generated for one axis
                    f = lambda s: np.roll(s, sh, axis=tuple(range(s.ndim)))
            elif op == "sort":
                f = lambda s: np.sort(s, axis=0, kind="stable")
            elif op == "argsort":
                f = lambda s: np.argsort(s, axis=0, kind="stable")
            elif op == "softmax":
                f = _softmax
            elif op == "log_softmax":
                f = _log_softmax
            else:
                raise denote.Unsupported(op)
            return [denote.denote_preserve_shape(f, exprs_in[0], exprs_out[0], args[0])]
    raise denote.Unsupported(fam)


def same(a, b):
    a = np.asarray(a)
    b = np.asarray(b)
    if a.shape != b.shape:
        return False
    if a.dtype.kind in "iub" and b.dtype.kind in "iub":
        return bool(np.array_equal(a, b))
    return bool(np.allclose(a.astype(np.float64), b.astype(np.float64), rtol=1e-9, atol=1e-9, equal_nan=True))


def compare(res, exp):
    res = list(res) if isinstance(res, (tuple, list)) else [res]
    if len(res) != len(exp):
        return False
    return all(same(r, e) for r, e in zip(res, exp))
