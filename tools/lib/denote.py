"""Loop-notation denotation of solved einx operations, written directly from the documentation
(one loop per un-bracketed axis; row-major index arithmetic for parenthesised axes; block offsets
for '+'; equal names in one input mean the diagonal; output-only axes repeat the value).

This is the *independent oracle* used by the failing-input searches (C01, C07, C08, C15, ...). It is
deliberately naive: explicit Python loops over assignments, numpy only for storage and for applying the
elementary operation to an explicitly gathered sub-tensor.

Expressions are the JSON trees produced by lib.graphcap.expr_to_json from einx's stage-3 trees:
  {"k":"axis","name":str,"value":int} | {"k":"list","c":[..]} | {"k":"flat","c":e} | {"k":"concat","c":[..]} | {"k":"br","c":e}
"""
import itertools

import numpy as np


# ------------------------------------------------------------------ views (concatenation-free virtual tensors)

class Leaf:
    def __init__(self, name, size, marked):
        self.name, self.size, self.marked = name, size, marked


def _dims(e, marked=False):
    """Root-level dimensions of an expression: list of dim trees
    ('axis', Leaf) | ('flat', [dims]) | ('concat', [dim], sizes) ; brackets are pushed to the leaves."""
    k = e["k"]
    if k == "list":
        out = []
        for c in e["c"]:
            out.extend(_dims(c, marked))
        return out
    if k == "br":
        return _dims(e["c"], True)
    if k == "axis":
        return [("axis", Leaf(e["name"], int(e["value"]), marked))]
    if k == "flat":
        return [("flat", _dims(e["c"], marked))]
    if k == "concat":
        children = []
        for c in e["c"]:
            d = _dims(c, marked)
            assert len(d) == 1, "concatenated children have exactly one dimension"
            children.append(d[0])
        return [("concat", children)]
    raise ValueError(k)


def _realsize(d):
    if d[0] == "axis":
        return d[1].size
    if d[0] == "flat":
        p = 1
        for c in d[1]:
            p *= _realsize(c)
        return p
    if d[0] == "concat":
        return sum(_realsize(c) for c in d[1])
    if d[0] == "off":
        return d[3]
    raise ValueError(d[0])


def _first_concat(dims, path=()):
    """Leftmost concatenation that is not nested inside another concatenation (the order in which
    einx enumerates virtual tensors: Decomposer._decompose_single / _compose_next)."""
    for i, d in enumerate(dims):
        if d[0] == "concat":
            return path + (i,)
        if d[0] == "flat":
            r = _first_concat(d[1], path + (i,))
            if r is not None:
                return r
        if d[0] == "off":
            r = _first_concat([d[2]], path + (i, "off"))
            if r is not None:
                return r
    return None


def _replace(dims, path, new):
    i = path[0]
    dims = list(dims)
    if len(path) == 1:
        dims[i] = new
    else:
        d = dims[i]
        if path[1] == "off":
            inner = _replace([d[2]], (0,) + tuple(path[2:]), new) if len(path) > 2 else [new]
            dims[i] = ("off", d[1], inner[0], d[3])
        else:
            dims[i] = ("flat", _replace(d[1], path[1:], new))
    return dims


def _get(dims, path):
    d = dims[path[0]]
    for p in path[1:]:
        if p == "off":
            d = d[2]
        else:
            d = d[1][p]
    return d


def views(e):
    """All concatenation-free virtual tensors of an expression, in einx's enumeration order (leftmost
    top-level concatenation first, depth first).  A view is a list of root dims over
    ('axis' leaf | 'flat' [dims] | 'off' offset child total)."""
    return views_of_dims(_dims(e))


def views_of_dims(dims):
    p = _first_concat(dims)
    if p is None:
        return [dims]
    node = _get(dims, p)
    total = _realsize(node)
    out = []
    off = 0
    for c in node[1]:
        out.extend(views_of_dims(_replace(dims, p, ("off", off, c, total))))
        off += _realsize(c)
    return out


def leaves(dims):
    out = []
    for d in dims:
        if d[0] == "axis":
            out.append(d[1])
        elif d[0] == "flat":
            out.extend(leaves(d[1]))
        elif d[0] == "off":
            out.extend(leaves([d[2]]))
    return out


def pos1(d, sigma):
    if d[0] == "axis":
        return sigma[d[1].name]
    if d[0] == "flat":
        r = 0
        for c in d[1]:
            r = r * _realsize(c) + pos1(c, sigma)
        return r
    if d[0] == "off":
        return d[1] + pos1(d[2], sigma)
    raise ValueError(d[0])


def position(dims, sigma):
    return tuple(pos1(d, sigma) for d in dims)


def shape_of(e):
    return tuple(_realsize(d) for d in _dims(e))


def axis_sizes(view_list, only=None):
    """name -> size over the given views (consistency asserted)."""
    sizes = {}
    order = []
    for v in view_list:
        for l in leaves(v):
            if only is not None and not only(l):
                continue
            if l.name in sizes:
                assert sizes[l.name] == l.size, f"axis {l.name} has two sizes"
            else:
                sizes[l.name] = l.size
                order.append(l.name)
    return sizes, order


def assignments(names, sizes):
    for idx in itertools.product(*[range(sizes[n]) for n in names]):
        yield dict(zip(names, idx))


# ------------------------------------------------------------------ families

class Unsupported(Exception):
    pass


def denote_id(exprs_in, exprs_out, xs):
    vin = [(v, x) for e, x in zip(exprs_in, xs) for v in views(e)]
    outs = [np.zeros(shape_of(e), dtype=xs[0].dtype if xs else np.int64) for e in exprs_out]
    filled = [np.zeros(shape_of(e), dtype=bool) for e in exprs_out]
    vout = [(v, k) for k, e in enumerate(exprs_out) for v in views(e)]
    if len(vin) != len(vout):
        raise Unsupported("number of virtual inputs and outputs differs")
    for (vi, x), (vo, k) in zip(vin, vout):
        sizes, names = axis_sizes([vo])
        in_sizes, in_names = axis_sizes([vi])
        for n in in_names:
            if n not in sizes:
                if in_sizes[n] != 1:
                    raise Unsupported("input axis missing from output")
        for sigma in assignments(names, sizes):
            s2 = dict(sigma)
            for n in in_names:
                if n not in s2:
                    s2[n] = 0
                elif in_sizes[n] == 1 and sizes[n] != 1:
                    raise Unsupported("size mismatch")
            outs[k][position(vo, sigma)] = x[position(vi, s2)]
            filled[k][position(vo, sigma)] = True
    assert all(f.all() for f in filled), "output not fully defined by the views"
    return outs


def _single_view(e):
    v = views(e)
    if len(v) != 1:
        raise Unsupported("concatenation not allowed here")
    return v[0]


def denote_elementwise(f, exprs_in, expr_out, xs, dtype=None):
    vis = [_single_view(e) for e in exprs_in]
    vo = _single_view(expr_out)
    sizes, names = axis_sizes([vo])
    probe = f(*[np.asarray(x).reshape(-1)[:1] for x in xs])
    out = np.zeros(shape_of(expr_out), dtype=probe.dtype if dtype is None else dtype)
    for sigma in assignments(names, sizes):
        args = []
        for v, x in zip(vis, xs):
            s2 = {l.name: (sigma[l.name] if l.name in sigma else 0) for l in leaves(v)}
            for l in leaves(v):
                if l.name not in sigma and l.size != 1:
                    raise Unsupported("input axis missing from output")
            args.append(np.asarray(x)[position(v, s2)])
        out[position(vo, sigma)] = f(*args)
    return out


def denote_reduce(f, expr_in, expr_out, x):
    """f(sub, axis=None) reduces a whole sub-tensor; the sub-tensor has one dimension per bracketed axis
    occurrence, in expression order."""
    vi = _single_view(expr_in)
    vo = _single_view(expr_out)
    sizes_o, names_o = axis_sizes([vo])
    marked = [l for l in leaves(vi) if l.marked]
    mnames = []
    for l in marked:
        if l.name not in mnames:
            mnames.append(l.name)
    msizes = {l.name: l.size for l in marked}
    first = True
    out = None
    for sigma in assignments(names_o, sizes_o):
        sub = np.zeros([msizes[n] for n in mnames], dtype=x.dtype)
        for tau in assignments(mnames, msizes):
            s2 = {}
            for l in leaves(vi):
                if l.marked:
                    s2[l.name] = tau[l.name]
                elif l.name in sigma:
                    s2[l.name] = sigma[l.name]
                elif l.size == 1:
                    s2[l.name] = 0
                else:
                    raise Unsupported("un-bracketed input axis missing from output")
            sub[tuple(tau[n] for n in mnames)] = x[position(vi, s2)]
        val = f(sub)
        if first:
            out = np.zeros(shape_of(expr_out), dtype=np.asarray(val).dtype)
            first = False
        out[position(vo, sigma)] = val
    if out is None:
        out = np.zeros(shape_of(expr_out), dtype=x.dtype)
    return out


def denote_dot(exprs_in, expr_out, xs):
    vis = [_single_view(e) for e in exprs_in]
    vo = _single_view(expr_out)
    sizes_o, names_o = axis_sizes([vo])
    sizes_m, names_m = axis_sizes(vis, only=lambda l: l.marked)
    dt = np.result_type(*[np.asarray(x).dtype for x in xs])
    out = np.zeros(shape_of(expr_out), dtype=dt)
    for sigma in assignments(names_o, sizes_o):
        acc = dt.type(0)
        for tau in assignments(names_m, sizes_m):
            p = dt.type(1)
            for v, x in zip(vis, xs):
                s2 = {}
                for l in leaves(v):
                    if l.name in tau:
                        s2[l.name] = tau[l.name]
                    elif l.name in sigma:
                        s2[l.name] = sigma[l.name]
                    elif l.size == 1:
                        s2[l.name] = 0
                    else:
                        raise Unsupported("axis neither contracted nor in output")
                p = p * x[position(v, s2)]
            acc = acc + p
        out[position(vo, sigma)] = acc
    return out


def denote_get_at(exprs_in, expr_out, xs):
    """exprs_in[0]: tensor with bracketed (indexed) axes; exprs_in[1:]: coordinate tensors, each with at most
    one bracketed coordinate axis; the concatenation of the coordinate components addresses the bracketed
    tensor axes in order."""
    vt = _single_view(exprs_in[0])
    vcs = [_single_view(e) for e in exprs_in[1:]]
    vo = _single_view(expr_out)
    sizes_o, names_o = axis_sizes([vo])
    tmarked = [l for l in leaves(vt) if l.marked]
    out = np.zeros(shape_of(expr_out), dtype=xs[0].dtype)
    for sigma in assignments(names_o, sizes_o):
        coords = []
        for v, c in zip(vcs, xs[1:]):
            ml = [l for l in leaves(v) if l.marked]
            rng = range(ml[0].size) if ml else [None]
            for j in rng:
                s2 = {}
                for l in leaves(v):
                    if l.marked:
                        s2[l.name] = j
                    elif l.name in sigma:
                        s2[l.name] = sigma[l.name]
                    elif l.size == 1:
                        s2[l.name] = 0
                    else:
                        raise Unsupported("coordinate axis missing from output")
                coords.append(int(np.asarray(c)[position(v, s2)]))
        if len(coords) != len(tmarked):
            raise Unsupported("coordinate count mismatch")
        k = 0
        s3 = {}
        for l in leaves(vt):
            if l.marked:
                ck = coords[k]
                k += 1
                if ck < 0:
                    ck += l.size
                if not (0 <= ck < l.size):
                    raise Unsupported("coordinate out of range")
                s3[l.name] = ck
            elif l.name in sigma:
                s3[l.name] = sigma[l.name]
            elif l.size == 1:
                s3[l.name] = 0
            else:
                raise Unsupported("tensor axis missing from output")
        out[position(vo, sigma)] = xs[0][position(vt, s3)]
    return out


def denote_argfind(kind, expr_in, expr_out, x):
    """argmax/argmin: first extremum in row-major order of the bracketed axes (expression order), returned as
    coordinates along the bracketed output axis (or a single index when there is one bracketed input axis and
    no bracketed output axis)."""
    vi = _single_view(expr_in)
    vo = _single_view(expr_out)
    marked = [l for l in leaves(vi) if l.marked]
    mnames = [l.name for l in marked]
    msizes = {l.name: l.size for l in marked}
    omarked = [l for l in leaves(vo) if l.marked]
    sizes_o, names_o = axis_sizes([vo], only=lambda l: not l.marked)
    out = np.zeros(shape_of(expr_out), dtype=np.int64)
    for sigma in assignments(names_o, sizes_o):
        best = None
        besttau = None
        for tau in assignments(mnames, msizes):
            s2 = {}
            for l in leaves(vi):
                if l.marked:
                    s2[l.name] = tau[l.name]
                elif l.name in sigma:
                    s2[l.name] = sigma[l.name]
                elif l.size == 1:
                    s2[l.name] = 0
                else:
                    raise Unsupported("axis missing from output")
            v = x[position(vi, s2)]
            if best is None or (v > best if kind == "argmax" else v < best):
                best = v
                besttau = tau
        if omarked:
            for j in range(omarked[0].size):
                s3 = dict(sigma)
                s3[omarked[0].name] = j
                out[position(vo, s3)] = besttau[mnames[j]]
        else:
            out[position(vo, sigma)] = besttau[mnames[0]]
    return out


def denote_preserve_shape(f, expr_in, expr_out, x):
    """f maps the gathered sub-tensor over the bracketed axes to a sub-tensor of the same shape."""
    vi = _single_view(expr_in)
    vo = _single_view(expr_out)
    mi = [l for l in leaves(vi) if l.marked]
    mo = [l for l in leaves(vo) if l.marked]
    mnames = [l.name for l in mi]
    if [l.name for l in mo] != mnames:
        raise Unsupported("bracketed axes must keep their order")
    msizes = {l.name: l.size for l in mi}
    sizes_o, names_o = axis_sizes([vo], only=lambda l: not l.marked)
    out = None
    for sigma in assignments(names_o, sizes_o):
        sub = np.zeros([msizes[n] for n in mnames], dtype=x.dtype)
        for tau in assignments(mnames, msizes):
            s2 = {}
            for l in leaves(vi):
                if l.marked:
                    s2[l.name] = tau[l.name]
                elif l.name in sigma:
                    s2[l.name] = sigma[l.name]
                elif l.size == 1:
                    s2[l.name] = 0
                else:
                    raise Unsupported("axis missing from output")
            sub[tuple(tau[n] for n in mnames)] = x[position(vi, s2)]
        res = np.asarray(f(sub))
        if out is None:
            out = np.zeros(shape_of(expr_out), dtype=res.dtype)
        for tau in assignments(mnames, msizes):
            s3 = dict(sigma)
            s3.update(tau)
            out[position(vo, s3)] = res[tuple(tau[n] for n in mnames)]
    if out is None:
        out = np.zeros(shape_of(expr_out), dtype=x.dtype)
    return out
