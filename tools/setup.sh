#!/bin/sh
# Build the Lean library (models, proofs, property theorems) and the driver from the files on disk.
set -e
cd "$(dirname "$0")/.."
# regenerate Extracted/*.lean from /repo first so that the build sees the current source
/venv/bin/python tools/extract_all.py
cd lean
lake build EinxModel driver
