#!/venv/bin/python
"""Regenerate every Extracted/*.lean (used by setup; each check re-runs the extractors it needs)."""
import os
import sys
sys.path.insert(0, os.path.dirname(os.path.abspath(__file__)))
sys.dont_write_bytecode = True
from lib import core
import extract

ctx = core.Ctx("SETUP", "quick", 0)
extract.run_all(ctx, ["Registry"] + [n for n in ("Kernels", "Notation", "Facts") if os.path.exists(os.path.join(os.path.dirname(os.path.abspath(__file__)), "extract", n.lower() + ".py"))])
for b in ctx.broken:
    print("extract: lost anchor", b)
