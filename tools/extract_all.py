#!/venv/bin/python
"""Regenerate every Extracted/*.lean and the library root EinxModel.lean (used by setup; each check re-runs
the extractors it needs)."""
import os
import sys
sys.path.insert(0, os.path.dirname(os.path.abspath(__file__)))
sys.dont_write_bytecode = True
from lib import core
import extract

ctx = core.Ctx("SETUP", "quick", 0)
extract.run_all(ctx, extract.available())
for b in ctx.broken:
    print("extract: lost anchor", b)
# library root: import every module under EinxModel/
mods = []
for d, _, fs in os.walk(os.path.join(core.LEAN, "EinxModel")):
    for f in fs:
        if f.endswith(".lean"):
            rel = os.path.relpath(os.path.join(d, f), core.LEAN)[:-5]
            mods.append(rel.replace(os.sep, "."))
core.write_if_changed(os.path.join(core.LEAN, "EinxModel.lean"), "".join(f"import {m}\n" for m in sorted(mods)))
