#!/bin/sh
# Robustness sweep: every claimed check, several seeds, given tier.  Usage: tools/sweep.sh quick "0 1 2 3" | tools/sweep.sh thorough "0"
cd "$(dirname "$0")/.."
sh tools/setup.sh >/dev/null 2>&1
tier=${1:-quick}; seeds=${2:-"0 1 2"}
for p in $(/venv/bin/python -c "import json; print(' '.join(c['property_id'] for c in json.load(open('MANIFEST.json'))['checks']))"); do
  for s in $seeds; do
    st=$(date +%s)
    out=$(VERIF_SEED=$s /venv/bin/python tools/check.py $p --tier $tier 2>&1); rc=$?
    en=$(date +%s)
    echo "$p seed=$s tier=$tier rc=$rc $((en-st))s violations=$(echo "$out" | grep -c '^VIOLATION') known=$(echo "$out" | grep -c '^KNOWN-FINDING')"
    echo "$out" | grep -E '^(VIOLATION|MACHINERY)' | head -4
    if [ $rc -ne 0 ]; then for f in $(echo "$out" | grep '^VIOLATION' | sed 's/.*replay=\([^ ]*\).*/\1/' | head -2); do /venv/bin/python -c "
import json,sys; r=json.load(open('$f')); print('   SIG', r['signature'][:300]); print('   BROKEN', json.dumps(r['broken'])[:600])"; done; fi
  done
done
