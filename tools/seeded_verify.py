#!/venv/bin/python
"""Verify a seeded change and run the checks against it, without touching /repo.

  tools/seeded_verify.py <dir with patch.diff, demo.py, meta.json> [--checks C01,C05] [--skip-tests] [--keep <name>]

Steps (all in a scratch worktree of /repo's HEAD under /tmp, removed afterwards):
  1. the patch applies;  2. the pinned test-suite still passes with it;  3. demo.py fails with the change and
  passes without it;  4. each named check (default: the property in meta.json) is run with EINX_REPO/PYTHONPATH
  pointing at the worktree and must print a VIOLATION line.
Afterwards the Extracted/*.lean files are regenerated from /repo (the checks rewrote them from the worktree).
With --keep the directory is copied to /verif/seeded/<name>/ with the verification record added to meta.json.
"""
import argparse
import json
import os
import shutil
import subprocess
import sys
import time

ROOT = os.path.dirname(os.path.dirname(os.path.abspath(__file__)))
PY = "/venv/bin/python"


def sh(cmd, cwd=None, env=None, timeout=3600):
    p = subprocess.run(cmd, cwd=cwd, env=env, shell=isinstance(cmd, str), capture_output=True, text=True, timeout=timeout)
    return p.returncode, p.stdout + p.stderr


def main():
    ap = argparse.ArgumentParser()
    ap.add_argument("dir")
    ap.add_argument("--checks", default=None)
    ap.add_argument("--skip-tests", action="store_true")
    ap.add_argument("--keep", default=None)
    ap.add_argument("--tier", default="quick")
    a = ap.parse_args()
    d = os.path.abspath(a.dir)
    meta = json.load(open(os.path.join(d, "meta.json")))
    prop = meta["property"]
    checks = a.checks.split(",") if a.checks else [prop]
    wt = f"/tmp/sv_{os.getpid()}"
    record = {"verified_at": time.strftime("%Y-%m-%d %H:%M:%S"), "repo_head": sh("git -C /repo rev-parse HEAD")[1].strip()}
    rc, out = sh(f"git -C /repo worktree add --detach {wt} HEAD")
    if rc != 0:
        print(out)
        sys.exit(2)
    try:
        env = dict(os.environ, PYTHONPATH=wt, EINX_REPO=wt, PYTHONDONTWRITEBYTECODE="1")
        # 3a. demo on the unmodified code
        rc0, out0 = sh([PY, os.path.join(d, "demo.py")], cwd=wt, env=env, timeout=900)
        record["demo_passes_without_change"] = rc0 == 0
        rc, out = sh(f"git apply {os.path.join(d, 'patch.diff')}", cwd=wt)
        record["patch_applies"] = rc == 0
        if rc != 0:
            print("patch does not apply:\n" + out)
        else:
            if not a.skip_tests:
                rc, out = sh([PY, "-m", "pytest", "-q", "-p", "no:cacheprovider", "-n", "8"], cwd=wt, env=env, timeout=1800)
                tail = out.strip().split("\n")[-1]
                record["tests"] = tail
                record["tests_pass_with_change"] = rc == 0 and "85 passed" in tail
            rc1, out1 = sh([PY, os.path.join(d, "demo.py")], cwd=wt, env=env, timeout=900)
            record["demo_fails_with_change"] = rc1 != 0
            record["demo_output_with_change"] = out1[-600:]
            record["checks"] = {}
            for c in checks:
                t0 = time.time()
                rc, out = sh([PY, os.path.join(ROOT, "tools", "check.py"), c, "--tier", a.tier], cwd=ROOT, env=env, timeout=3000)
                vio = [l for l in out.split("\n") if l.startswith("VIOLATION")]
                rep = None
                if vio:
                    path = vio[0].split("replay=")[1].split()[0]
                    try:
                        r = json.load(open(os.path.join(ROOT, path)))
                        rep = {"signature": r.get("signature"), "broken": [b["name"] for b in r.get("broken", [])][:6]}
                    except Exception:
                        pass
                record["checks"][c] = {"exit": rc, "violations": len(vio), "first": vio[:2], "replay": rep, "wall_s": round(time.time() - t0, 1),
                                       "no_failing_input_found": any("no-failing-input-found" in v for v in vio)}
    finally:
        sh(f"git -C /repo worktree remove --force {wt}")
        sh([PY, os.path.join(ROOT, "tools", "extract_all.py")], cwd=ROOT)
        sh("lake build EinxModel driver", cwd=os.path.join(ROOT, "lean"))
    print(json.dumps(record, indent=1))
    if a.keep:
        dst = os.path.join(ROOT, "seeded", a.keep)
        os.makedirs(dst, exist_ok=True)
        for f in os.listdir(d):
            if os.path.isfile(os.path.join(d, f)) and os.path.abspath(d) != os.path.abspath(dst):
                shutil.copy(os.path.join(d, f), os.path.join(dst, f))
        prev = meta.get("verification", {})
        for k in ("tests", "tests_pass_with_change"):
            if k not in record and k in prev:
                record[k] = prev[k]          # carried over from the first verification (re-runs use --skip-tests)
        first = prev.get("first_result") or {c: {kk: r.get(kk) for kk in ("exit", "violations", "no_failing_input_found")} for c, r in prev.get("checks", {}).items()}
        if first:
            record["first_result"] = first  # what the checks reported before they were strengthened (if different)
        meta["verification"] = record
        json.dump(meta, open(os.path.join(dst, "meta.json"), "w"), indent=1)


if __name__ == "__main__":
    main()
