"""Normalisation of Python function ASTs, so that the source ties survive HARMLESS rewrites of /repo.

The extractors of this directory recognise pieces of einx by structure and (historically) by the spelling of local names
(`unparse(stmt) == "names = [v.name for …]"`).  A refactoring that keeps the meaning - renaming a local variable or a private
function's parameter, swapping two independent statements, adding a docstring / comment / logging call, writing a
comprehension as a loop, an `elif` chain as early returns, `xs += [e]` as `xs.append(e)` - made them lose their anchor, and
the check then reported `VIOLATION … no-failing-input-found` although nothing was wrong.

This module offers three tools:

`canon_like(fn, template_src)`
    `template_src` is the source text of the function as the extractor knows it (the current /repo text).  If `fn` is
    *alpha-equivalent* to it - equal after `clean` + `normalize` up to a scope-respecting bijective renaming of bound names
    and up to a dependency-respecting permutation of the statements of each block - the TEMPLATE's AST is returned (line
    numbers moved to the position of `fn`), so that everything downstream (name-based recognition, translation to Lean)
    produces byte-identical output.  Otherwise `fn` is returned untouched and the extractor proceeds exactly as before:
    a semantic change is never hidden, because only a proof of alpha-equivalence makes `canon_like` substitute anything.

`alpha_equal(a, b)`    the equivalence test itself, for two function ASTs.

`inline_locals(expr, fn)`   def-use resolution: every local name of `fn` that is assigned exactly once, by a plain
    `name = <expression>`, is replaced in `expr` by that expression (recursively).  The result mentions only parameters and
    multiply-assigned names: "the value that flows into the call/return", independent of how intermediate results are called.

Soundness of the equivalence (what is assumed): two statements are independent if neither writes a location the other
reads or writes, where a location is a name or an attribute/subscript path rooted at a name; different attribute names of
one object are different locations (no aliasing between `self.a` and `self.b`); attribute reads and the builtins / methods
in `PURE_CALLS` / `PURE_METHODS` have no side effect; a statement containing any other call ("opaque") is never moved across
another opaque statement or across a write to a non-local location; statements containing `return`/`raise`/`assert`/`break`/
`continue`/`yield`/`with`/`try` are never moved.  Logging calls (`logging.*`, `logger.*`, `logging.getLogger(..).*`) are
treated as absent.
"""
import ast
import copy

PURE_CALLS = {"len", "tuple", "list", "set", "frozenset", "dict", "sum", "max", "min", "isinstance", "issubclass", "range", "sorted",
              "reversed", "any", "all", "enumerate", "zip", "id", "type", "str", "int", "bool", "float", "repr", "abs", "callable",
              "hasattr", "getattr", "map", "filter", "math.prod", "np.prod", "vars"}
PURE_METHODS = {"index", "count", "get", "items", "keys", "values", "join", "startswith", "endswith", "split", "strip", "copy",
                "nodes", "format", "union", "intersection", "difference", "issubset", "issuperset"}
MUTATORS = {"append", "extend", "insert", "add", "update", "pop", "clear", "remove", "discard", "setdefault", "sort", "reverse",
            "popitem"}
LOG_ROOTS = {"logging", "logger", "_logger", "log", "_log", "LOGGER"}
LOG_METHODS = {"debug", "info", "warning", "warn", "error", "critical", "exception", "log"}


def dotted(n):
    """'a.b.c' for an attribute chain rooted at a name, else None."""
    parts = []
    while isinstance(n, ast.Attribute):
        parts.append(n.attr)
        n = n.value
    if isinstance(n, ast.Name):
        return ".".join([n.id] + parts[::-1])
    return None


def is_logging_call(e):
    if not (isinstance(e, ast.Call) and isinstance(e.func, ast.Attribute) and e.func.attr in LOG_METHODS):
        return False
    recv = e.func.value
    d = dotted(recv)
    if d is not None:
        return d.split(".")[0] in LOG_ROOTS
    return isinstance(recv, ast.Call) and dotted(recv.func) in ("logging.getLogger", "getLogger")


# --------------------------------------------------------------------------------------------------------- clean

def _clean_block(stmts):
    out = []
    for s in stmts:
        if isinstance(s, ast.Expr) and isinstance(s.value, ast.Constant) and isinstance(s.value.value, str):
            continue                                     # docstring / string statement
        if isinstance(s, ast.Pass):
            continue
        if isinstance(s, ast.Expr) and is_logging_call(s.value):
            continue
        if isinstance(s, ast.Assign) and len(s.targets) == 1 and isinstance(s.targets[0], ast.Name) and s.targets[0].id == "_" \
                and isinstance(s.value, ast.Constant):
            continue                                     # `_ = 0` style no-op
        for field in ("body", "orelse", "finalbody"):
            if isinstance(getattr(s, field, None), list) and getattr(s, field) and isinstance(getattr(s, field)[0], ast.stmt):
                setattr(s, field, _clean_block(getattr(s, field)))
        if isinstance(s, ast.Try):
            for h in s.handlers:
                h.body = _clean_block(h.body)
        out.append(s)
    return out


def clean(fn):
    """Deep copy of a function (or any statement-bearing node) without docstrings, `pass`, logging calls."""
    fn = copy.deepcopy(fn)
    if hasattr(fn, "body") and isinstance(fn.body, list):
        fn.body = _clean_block(fn.body)
    return fn


# --------------------------------------------------------------------------------------------------------- normalize

def _ends_in_jump(stmts):
    """Does every path through the block end in return/raise?"""
    if not stmts:
        return False
    last = stmts[-1]
    if isinstance(last, (ast.Return, ast.Raise)):
        return True
    return isinstance(last, ast.If) and _ends_in_jump(last.body) and _ends_in_jump(last.orelse)


def _mentions(node, name):
    return any(isinstance(n, ast.Name) and n.id == name for n in ast.walk(node))


def _loop_as_comprehension(init, loop):
    """`x = []` + `for … : [for/if …:] x.append(e)`  ->  `x = [e for … if …]`, else None."""
    if not (isinstance(init, ast.Assign) and len(init.targets) == 1 and isinstance(init.targets[0], ast.Name)
            and isinstance(loop, ast.For) and not loop.orelse):
        return None
    is_dict = isinstance(init.value, ast.Dict) and not init.value.keys
    if not (is_dict or (isinstance(init.value, ast.List) and not init.value.elts)):
        return None
    x = init.targets[0].id
    gens = []
    cur = loop
    while True:
        if isinstance(cur, ast.For) and not cur.orelse and len(cur.body) == 1:
            if _mentions(cur.iter, x) or _mentions(cur.target, x):
                return None
            gens.append(ast.comprehension(target=cur.target, iter=cur.iter, ifs=[], is_async=0))
            cur = cur.body[0]
        elif isinstance(cur, ast.If) and not cur.orelse and len(cur.body) == 1 and gens:
            if _mentions(cur.test, x):
                return None
            gens[-1].ifs.append(cur.test)
            cur = cur.body[0]
        else:
            break
    if (is_dict and isinstance(cur, ast.Assign) and len(cur.targets) == 1 and isinstance(cur.targets[0], ast.Subscript)
            and isinstance(cur.targets[0].value, ast.Name) and cur.targets[0].value.id == x
            and not _mentions(cur.targets[0].slice, x) and not _mentions(cur.value, x)):
        new = ast.Assign(targets=[ast.Name(id=x, ctx=ast.Store())],
                         value=ast.DictComp(key=cur.targets[0].slice, value=cur.value, generators=gens), lineno=init.lineno)
        return ast.fix_missing_locations(ast.copy_location(new, init))
    if is_dict:
        return None
    if not (isinstance(cur, ast.Expr) and isinstance(cur.value, ast.Call) and isinstance(cur.value.func, ast.Attribute)
            and cur.value.func.attr == "append" and isinstance(cur.value.func.value, ast.Name) and cur.value.func.value.id == x
            and len(cur.value.args) == 1 and not cur.value.keywords and not _mentions(cur.value.args[0], x)):
        return None
    new = ast.Assign(targets=[ast.Name(id=x, ctx=ast.Store())], value=ast.ListComp(elt=cur.value.args[0], generators=gens), lineno=init.lineno)
    return ast.fix_missing_locations(ast.copy_location(new, init))


def _norm_block(stmts):
    stmts = [_norm_stmt(s) for s in stmts]
    # x = []; for …: x.append(e)   ->   x = [e for …]
    out = []
    i = 0
    while i < len(stmts):
        if i + 1 < len(stmts):
            c = _loop_as_comprehension(stmts[i], stmts[i + 1])
            if c is not None:
                out.append(c)
                i += 2
                continue
        out.append(stmts[i])
        i += 1
    stmts = out
    # if c: …; return/raise   <rest>    ->   if c: … else: <rest>
    for i, s in enumerate(stmts):
        if isinstance(s, ast.If) and i + 1 < len(stmts):
            # the innermost `elif` without `else`, all branches before it ending in return/raise
            cur = s
            while _ends_in_jump(cur.body) and len(cur.orelse) == 1 and isinstance(cur.orelse[0], ast.If):
                cur = cur.orelse[0]
            if not cur.orelse and _ends_in_jump(cur.body):
                cur.orelse = _norm_block(stmts[i + 1:])
                return stmts[:i + 1]
    return stmts


def _norm_stmt(s):
    # x += [e]  ->  x.append(e)
    if (isinstance(s, ast.AugAssign) and isinstance(s.op, ast.Add) and isinstance(s.target, ast.Name)
            and isinstance(s.value, ast.List) and len(s.value.elts) == 1 and not isinstance(s.value.elts[0], ast.Starred)):
        call = ast.Call(func=ast.Attribute(value=ast.Name(id=s.target.id, ctx=ast.Load()), attr="append", ctx=ast.Load()),
                        args=[s.value.elts[0]], keywords=[])
        return ast.fix_missing_locations(ast.copy_location(ast.Expr(value=call), s))
    # return a if c else b  ->  if c: return a else: return b
    if isinstance(s, ast.Return) and isinstance(s.value, ast.IfExp):
        e = s.value
        new = ast.If(test=e.test, body=[_norm_stmt(ast.copy_location(ast.Return(value=e.body), s))],
                     orelse=[_norm_stmt(ast.copy_location(ast.Return(value=e.orelse), s))])
        return ast.fix_missing_locations(ast.copy_location(new, s))
    for field in ("body", "orelse", "finalbody"):
        v = getattr(s, field, None)
        if isinstance(v, list) and v and isinstance(v[0], ast.stmt):
            setattr(s, field, _norm_block(v))
    if isinstance(s, ast.Try):
        for h in s.handlers:
            h.body = _norm_block(h.body)
    return s


def normalize(fn):
    """`clean` + canonical control flow (early returns as else-chains, append-loops as comprehensions, `+= [e]` as append)."""
    fn = clean(fn)
    if hasattr(fn, "body") and isinstance(fn.body, list):
        fn.body = _norm_block(fn.body)
        if isinstance(fn, (ast.FunctionDef, ast.AsyncFunctionDef)):
            _fuse_single_use_temps(fn)
            _inline_pure_locals(fn)
            fn.body = _norm_block(fn.body)
    return fn


def _fuse_single_use_temps(fn):
    """`v = E` immediately followed by `T = v`, `v` occurring nowhere else in the function  ->  `T = E`
    (sound for any E: nothing is evaluated in between).  In place."""
    counts = {}
    for n in ast.walk(fn):
        if isinstance(n, ast.Name):
            counts[n.id] = counts.get(n.id, 0) + 1

    def go(stmts):
        out = []
        i = 0
        while i < len(stmts):
            a = stmts[i]
            b = stmts[i + 1] if i + 1 < len(stmts) else None
            if (isinstance(a, ast.Assign) and len(a.targets) == 1 and isinstance(a.targets[0], ast.Name)
                    and isinstance(b, ast.Assign) and len(b.targets) == 1 and isinstance(b.value, ast.Name)
                    and b.value.id == a.targets[0].id and counts.get(a.targets[0].id, 0) == 2
                    and not _mentions(b.targets[0], a.targets[0].id)):
                out.append(ast.copy_location(ast.Assign(targets=b.targets, value=a.value, lineno=a.lineno), a))
                i += 2
                continue
            for field in ("body", "orelse", "finalbody"):
                val = getattr(a, field, None)
                if isinstance(val, list) and val and isinstance(val[0], ast.stmt):
                    setattr(a, field, go(val))
            if isinstance(a, ast.Try):
                for h in a.handlers:
                    h.body = go(h.body)
            out.append(a)
            i += 1
        return out
    fn.body = go(fn.body)
    ast.fix_missing_locations(fn)


def _subst(node, mapping, shadow=frozenset()):
    """Scope-aware substitution of Load-names by expressions (comprehension / lambda / nested-def variables shadow)."""
    if isinstance(node, ast.Name):
        if isinstance(node.ctx, ast.Load) and node.id in mapping and node.id not in shadow:
            return copy.deepcopy(mapping[node.id])
        return node
    if isinstance(node, (ast.ListComp, ast.SetComp, ast.GeneratorExp, ast.DictComp)):
        node.generators[0].iter = _subst(node.generators[0].iter, mapping, shadow)
        inner = shadow | _comp_targets(node.generators)
        for k, g in enumerate(node.generators):
            if k > 0:
                g.iter = _subst(g.iter, mapping, inner)
            g.ifs = [_subst(c, mapping, inner) for c in g.ifs]
        for f in ("elt", "key", "value"):
            if hasattr(node, f):
                setattr(node, f, _subst(getattr(node, f), mapping, inner))
        return node
    if isinstance(node, ast.Lambda):
        node.body = _subst(node.body, mapping, shadow | _bound_names(node))
        return node
    if isinstance(node, (ast.FunctionDef, ast.AsyncFunctionDef)):
        inner = shadow | _bound_names(node)
        node.body = [_subst(c, mapping, inner) for c in node.body]
        node.decorator_list = [_subst(c, mapping, shadow) for c in node.decorator_list]
        return node
    for field, val in ast.iter_fields(node):
        if isinstance(val, list):
            setattr(node, field, [_subst(v, mapping, shadow) if isinstance(v, ast.AST) else v for v in val])
        elif isinstance(val, ast.AST):
            setattr(node, field, _subst(val, mapping, shadow))
    return node


def _def_dominates_uses(fn, v):
    """Is the (single) plain assignment `v = …` a statement of some block such that every other occurrence of `v` lies in the
    statements after it in that same block (so the definition has been executed whenever `v` is read)?"""
    def occ(node):
        """occurrences of the function-level name `v` (not those of a comprehension / lambda variable of the same spelling)"""
        if isinstance(node, ast.Name):
            return 1 if node.id == v else 0
        if isinstance(node, (ast.ListComp, ast.SetComp, ast.GeneratorExp, ast.DictComp)):
            k = occ(node.generators[0].iter)
            if v in _comp_targets(node.generators):
                return k
            for i, g in enumerate(node.generators):
                k += (occ(g.iter) if i > 0 else 0) + sum(occ(c) for c in g.ifs)
            return k + sum(occ(getattr(node, f)) for f in ("elt", "key", "value") if hasattr(node, f))
        if isinstance(node, ast.Lambda):
            return 0 if v in _bound_names(node) else occ(node.body)
        if isinstance(node, (ast.FunctionDef, ast.AsyncFunctionDef)) and node is not fn:
            return 0 if v in _bound_names(node) else sum(occ(c) for c in node.body)
        return sum(occ(c) for c in ast.iter_child_nodes(node))
    total = occ(fn)

    def find(stmts):
        for i, st in enumerate(stmts):
            if isinstance(st, ast.Assign) and len(st.targets) == 1 and isinstance(st.targets[0], ast.Name) and st.targets[0].id == v:
                after = sum(occ(r) for r in stmts[i + 1:])
                inside = occ(st.value)
                return inside == 0 and after + 1 == total
            for field in ("body", "orelse", "finalbody"):
                val = getattr(st, field, None)
                if isinstance(val, list) and val and isinstance(val[0], ast.stmt) and not isinstance(st, (ast.FunctionDef, ast.AsyncFunctionDef, ast.ClassDef)):
                    r = find(val)
                    if r is not None:
                        return r
            if isinstance(st, ast.Try):
                for h in st.handlers:
                    r = find(h.body)
                    if r is not None:
                        return r
        return None
    return bool(find(fn.body))


def _inline_pure_locals(fn):
    """Replace every local that is assigned exactly once, by a side-effect-free expression over names that never change
    (parameters never stored to, other singly-assigned locals, globals) and that is never mutated, by its definition, and
    delete the assignment: `perm2 = perm`, `new_perm = tuple(perm1[p] for p in perm2)` ... .  In place."""
    for _ in range(8):
        defs = single_assignments(fn)
        if not defs:
            return
        bound = _bound_names(fn)
        # everything stored more than once / by a non-plain store, and every mutated or partially written root
        multi = {n for n in bound if n not in defs}
        params = {x.arg for x in fn.args.posonlyargs + fn.args.args + fn.args.kwonlyargs}
        stored = set()
        for n in ast.walk(fn):
            if isinstance(n, ast.Name) and isinstance(n.ctx, (ast.Store, ast.Del)):
                stored.add(n.id)
        unstable = (multi - params) | (params & stored)
        mutated = set()
        for st in fn.body:
            ef = effects(st)
            mutated |= ef.mutated
            for w in ef.writes:
                if len(w) > 1:
                    mutated.add(w[0])
        # nested functions' own writes count as well (effects() descends into them)
        chosen = {}
        for v, e in defs.items():
            ef = effects(ast.Expr(value=e))
            if ef.opaque or ef.pinned or ef.writes or v in mutated:
                continue
            roots = {p[0] for p in ef.reads}
            if roots & unstable or roots & mutated or v in roots:
                continue
            if any(isinstance(n, (ast.Lambda, ast.Await, ast.Yield, ast.YieldFrom, ast.NamedExpr)) for n in ast.walk(e)):
                continue
            if not _def_dominates_uses(fn, v):
                continue
            # the singly-assigned locals the definition reads must be assigned textually before it
            line = {k: d.lineno for k, d in defs.items()}
            if any(r in line and line[r] >= e.lineno for r in roots):
                continue
            chosen[v] = e
        if not chosen:
            return
        # one at a time keeps the substitution simple (definitions may mention each other)
        v = sorted(chosen)[0]
        e = chosen[v]

        def drop(stmts):
            out = []
            for s2 in stmts:
                if isinstance(s2, ast.Assign) and len(s2.targets) == 1 and isinstance(s2.targets[0], ast.Name) and s2.targets[0].id == v:
                    continue
                for field in ("body", "orelse", "finalbody"):
                    val = getattr(s2, field, None)
                    if isinstance(val, list) and val and isinstance(val[0], ast.stmt) and not isinstance(s2, (ast.FunctionDef, ast.AsyncFunctionDef, ast.ClassDef)):
                        setattr(s2, field, drop(val) or [ast.copy_location(ast.Pass(), s2)])
                if isinstance(s2, ast.Try):
                    for h in s2.handlers:
                        h.body = drop(h.body) or [ast.copy_location(ast.Pass(), s2)]
                out.append(s2)
            return out
        fn.body = drop(fn.body) or [ast.copy_location(ast.Pass(), fn)]
        fn.body = [_subst(s2, {v: e}) for s2 in fn.body]
        ast.fix_missing_locations(fn)


# --------------------------------------------------------------------------------------------------------- effects

class Effects:
    def __init__(self):
        self.reads, self.writes = set(), set()
        self.opaque = False
        self.pinned = False          # never moved
        self.mutated = set()         # root names whose object is changed in place (mutator call, attribute / item store)


def _path(n):
    parts = []
    while True:
        if isinstance(n, ast.Attribute):
            parts.append(n.attr)
            n = n.value
        elif isinstance(n, ast.Subscript):
            parts.append("[]")
            n = n.value
        elif isinstance(n, ast.Name):
            return tuple([n.id] + parts[::-1])
        else:
            return None


def effects(stmt):
    ef = Effects()

    def rooted(p, shadow):
        return p is not None and p[0] not in shadow

    def go(n, shadow):
        if isinstance(n, (ast.Return, ast.Raise, ast.Assert, ast.Break, ast.Continue, ast.Yield, ast.YieldFrom, ast.With, ast.Try,
                          ast.Global, ast.Nonlocal, ast.Delete, ast.Await, ast.Import, ast.ImportFrom, ast.ClassDef)):
            ef.pinned = True
        if isinstance(n, (ast.ListComp, ast.SetComp, ast.GeneratorExp, ast.DictComp)):
            go(n.generators[0].iter, shadow)
            inner = shadow | _comp_targets(n.generators)
            for k, g in enumerate(n.generators):
                if k > 0:
                    go(g.iter, inner)
                for c in g.ifs:
                    go(c, inner)
            for f in ("elt", "key", "value"):
                if hasattr(n, f):
                    go(getattr(n, f), inner)
            return
        if isinstance(n, ast.Lambda):
            go(n.body, shadow | _bound_names(n))
            return
        if isinstance(n, (ast.FunctionDef, ast.AsyncFunctionDef)):
            ef.writes.add((n.name,))
            inner = shadow | _bound_names(n)
            for c in n.body:
                go(c, inner)
            return
        if isinstance(n, (ast.Name, ast.Attribute, ast.Subscript)):
            p = _path(n)
            if p is not None:
                if p[0] not in shadow:
                    if isinstance(getattr(n, "ctx", None), ast.Store):
                        ef.writes.add(p)
                        if len(p) > 1:
                            ef.mutated.add(p[0])
                    else:
                        ef.reads.add(p)
                # only the maximal path counts (`self.a.append(x)` does not read all of `self`); index expressions are visited
                m = n
                while isinstance(m, (ast.Attribute, ast.Subscript)):
                    if isinstance(m, ast.Subscript):
                        go(m.slice, shadow)
                    m = m.value
                return
        if isinstance(n, ast.AugAssign):
            p = _path(n.target)
            if rooted(p, shadow):
                ef.reads.add(p)
                ef.writes.add(p)
        if isinstance(n, ast.Call) and not is_logging_call(n):
            d = dotted(n.func)
            if d in PURE_CALLS:
                pass
            elif isinstance(n.func, ast.Attribute) and n.func.attr in MUTATORS:
                p = _path(n.func.value)
                if p is None:
                    ef.opaque = True
                elif p[0] not in shadow:
                    ef.writes.add(p)
                    ef.reads.add(p)
                    ef.mutated.add(p[0])
            elif isinstance(n.func, ast.Attribute) and n.func.attr in PURE_METHODS:
                pass
            else:
                ef.opaque = True
        for c in ast.iter_child_nodes(n):
            go(c, shadow)
    go(stmt, frozenset())
    return ef


def _related(p, q):
    k = min(len(p), len(q))
    return p[:k] == q[:k]


def commute(s1, s2):
    """Conservative: may the two statements be executed in either order with the same result?"""
    a, b = effects(s1), effects(s2)
    if a.pinned or b.pinned:
        return False
    for w in a.writes:
        if any(_related(w, q) for q in b.reads | b.writes):
            return False
    for w in b.writes:
        if any(_related(w, q) for q in a.reads | a.writes):
            return False
    nonlocal_w = lambda e: any(len(w) > 1 for w in e.writes)    # noqa: E731
    if a.opaque and (b.opaque or nonlocal_w(b)):
        return False
    if b.opaque and nonlocal_w(a):
        return False
    return True


# --------------------------------------------------------------------------------------------------------- alpha equivalence

def _bound_names(fn):
    """Names bound in the scope of a function/lambda (parameters, stores, nested defs), not those of nested scopes."""
    names = set()
    a = fn.args
    for x in a.posonlyargs + a.args + a.kwonlyargs + ([a.vararg] if a.vararg else []) + ([a.kwarg] if a.kwarg else []):
        names.add(x.arg)
    free = set()

    def visit(n):
        for c in ast.iter_child_nodes(n):
            if isinstance(c, (ast.FunctionDef, ast.AsyncFunctionDef)):
                names.add(c.name)
                for d in c.decorator_list:
                    visit(d)
                continue
            if isinstance(c, ast.ClassDef):
                names.add(c.name)
                continue
            if isinstance(c, ast.Lambda):
                continue
            if isinstance(c, (ast.ListComp, ast.SetComp, ast.GeneratorExp, ast.DictComp)):
                visit(ast.Expr(value=c.generators[0].iter))     # evaluated in the enclosing scope (walrus targets ignored)
                continue
            if isinstance(c, (ast.Global, ast.Nonlocal)):
                free.update(c.names)
            if isinstance(c, ast.Name) and isinstance(c.ctx, (ast.Store, ast.Del)):
                names.add(c.id)
            if isinstance(c, ast.ExceptHandler) and c.name:
                names.add(c.name)
            visit(c)
    if isinstance(fn, ast.Lambda):
        return names
    for s in fn.body:
        visit(ast.Module(body=[s], type_ignores=[]))
    return names - free


def _comp_targets(gens):
    out = set()
    for g in gens:
        for n in ast.walk(g.target):
            if isinstance(n, ast.Name):
                out.add(n.id)
    return out


def _message_only(r):
    """`raise Cls(<string literals / f-strings>)`"""
    e = r.exc
    return (isinstance(e, ast.Call) and not e.keywords and len(e.args) >= 1 and dotted(e.func) is not None
            and all(isinstance(x, ast.JoinedStr) or (isinstance(x, ast.Constant) and isinstance(x.value, str)) for x in e.args))


class _Matcher:
    def __init__(self, reorder=True):
        self.frames = []      # dicts: t2a, a2t, tl (template locals), al (actual locals)
        self.reorder = reorder

    # -- scopes
    def push(self, tl, al):
        self.frames.append({"t2a": {}, "a2t": {}, "tl": set(tl), "al": set(al)})

    def pop(self):
        self.frames.pop()

    def snapshot(self):
        return [(dict(f["t2a"]), dict(f["a2t"])) for f in self.frames]

    def restore(self, snap):
        for f, (x, y) in zip(self.frames, snap):
            f["t2a"], f["a2t"] = dict(x), dict(y)

    def name(self, t, a):
        for f in reversed(self.frames):
            if t in f["tl"] or a in f["al"]:
                if not (t in f["tl"] and a in f["al"]):
                    return False
                if t in f["t2a"]:
                    return f["t2a"][t] == a
                if a in f["a2t"]:
                    return False
                f["t2a"][t], f["a2t"][a] = a, t
                return True
        return t == a

    # -- nodes
    def node(self, t, a):
        if type(t) is not type(a):
            return False
        if isinstance(t, ast.Name):
            return self.name(t.id, a.id)
        if isinstance(t, ast.arg):
            return self.name(t.arg, a.arg)          # annotations of einx's private functions are not compared
        if isinstance(t, (ast.FunctionDef, ast.AsyncFunctionDef)):
            if not self.name(t.name, a.name):
                return False
            if not self.seq(t.decorator_list, a.decorator_list):
                return False
            if not self.defaults(t.args, a.args):
                return False
            self.push(_bound_names(t), _bound_names(a))
            try:
                return self.arguments(t.args, a.args) and self.block(t.body, a.body)
            finally:
                self.pop()
        if isinstance(t, ast.Lambda):
            if not self.defaults(t.args, a.args):
                return False
            self.push(_bound_names(t), _bound_names(a))
            try:
                return self.arguments(t.args, a.args) and self.node(t.body, a.body)
            finally:
                self.pop()
        if isinstance(t, (ast.ListComp, ast.SetComp, ast.GeneratorExp, ast.DictComp)):
            if len(t.generators) != len(a.generators):
                return False
            if not self.node(t.generators[0].iter, a.generators[0].iter):
                return False
            self.push(_comp_targets(t.generators), _comp_targets(a.generators))
            try:
                for k, (g, h) in enumerate(zip(t.generators, a.generators)):
                    if k > 0 and not self.node(g.iter, h.iter):
                        return False
                    if g.is_async != h.is_async or not self.node(g.target, h.target) or not self.seq(g.ifs, h.ifs):
                        return False
                if isinstance(t, ast.DictComp):
                    return self.node(t.key, a.key) and self.node(t.value, a.value)
                return self.node(t.elt, a.elt)
            finally:
                self.pop()
        if isinstance(t, ast.ExceptHandler):
            if (t.name is None) != (a.name is None) or (t.name is not None and not self.name(t.name, a.name)):
                return False
            return self.opt(t.type, a.type) and self.block(t.body, a.body)
        if isinstance(t, ast.keyword):
            return t.arg == a.arg and self.node(t.value, a.value)
        if isinstance(t, ast.Raise) and _message_only(t) and _message_only(a):
            # `raise X("text")`: the exception class and the raise site are compared, the wording of the message is not
            return self.node(t.exc.func, a.exc.func) and self.opt(t.cause, a.cause)
        for field in t._fields:
            x, y = getattr(t, field, None), getattr(a, field, None)
            if field in ("ctx", "type_comment", "kind"):
                continue
            if isinstance(x, list):
                if not isinstance(y, list):
                    return False
                if x and isinstance(x[0], ast.stmt) or y and isinstance(y[0], ast.stmt):
                    if not self.block(x, y):
                        return False
                elif not self.seq(x, y):
                    return False
            elif isinstance(x, ast.AST):
                if not isinstance(y, ast.AST) or not self.node(x, y):
                    return False
            elif x != y or type(x) is not type(y):
                return False
        return True

    def opt(self, x, y):
        if x is None or y is None:
            return x is None and y is None
        return self.node(x, y)

    def seq(self, xs, ys):
        if len(xs) != len(ys):
            return False
        for x, y in zip(xs, ys):
            if isinstance(x, ast.AST) and isinstance(y, ast.AST):
                if not self.node(x, y):
                    return False
            elif x is None or y is None:
                if not (x is None and y is None):
                    return False
            elif x != y:
                return False
        return True

    def defaults(self, t, a):
        return self.seq(t.defaults, a.defaults) and self.seq(t.kw_defaults, a.kw_defaults)

    def arguments(self, t, a):
        return (self.seq(t.posonlyargs, a.posonlyargs) and self.seq(t.args, a.args) and self.seq(t.kwonlyargs, a.kwonlyargs)
                and self.opt(t.vararg, a.vararg) and self.opt(t.kwarg, a.kwarg))

    def block(self, ts, as_):
        if len(ts) != len(as_):
            return False
        rest = list(as_)
        for t in ts:
            found = False
            for j, a in enumerate(rest):
                if j > 0 and not self.reorder:
                    break
                if j > 0 and not all(commute(a, e) for e in rest[:j]):
                    continue        # this statement cannot be moved to the front; a later one may
                snap = self.snapshot()
                if self.node(t, a):
                    del rest[j]
                    found = True
                    break
                self.restore(snap)
            if not found:
                return False
        return True


def alpha_equal(template_fn, fn, reorder=True, same_name=True):
    """Are the two functions equal up to harmless rewrites (see module docstring)?  -> (bool, renaming actual->template)"""
    t, a = normalize(template_fn), normalize(fn)
    if same_name and t.name != a.name:
        return False, {}
    m = _Matcher(reorder)
    m.push({t.name}, {a.name})
    ok = m.node(t, a)
    ren = {}
    return ok, ren


def canon_like(fn, template):
    """The template's AST if `fn` is alpha-equivalent to it, else `fn` itself (see module docstring).
    `template` is source text (of one function) or a function node."""
    if fn is None:
        return fn
    if isinstance(template, str):
        try:
            tmod = ast.parse(_dedent(template))
        except SyntaxError:
            return fn
        t = next((n for n in tmod.body if isinstance(n, (ast.FunctionDef, ast.AsyncFunctionDef))), None)
    else:
        t = copy.deepcopy(template)
    if t is None:
        return fn
    if ast.dump(clean(t)) == ast.dump(clean(fn)):
        return fn                                        # the known text itself: keep the real node (real line numbers)
    try:
        ok, _ = alpha_equal(t, fn)
    except RecursionError:
        ok = False
    if not ok:
        return fn
    ast.increment_lineno(t, fn.lineno - t.lineno)
    return t


def _dedent(src):
    import textwrap
    return textwrap.dedent(src).strip("\n") + "\n"


def functions_by_qualname(tree):
    """{qualname: (container list, index, node)} for the functions of a module: `f`, `Class.method`, `outer.inner`."""
    out = {}

    def walk(node, prefix):
        for field in ("body", "orelse", "finalbody"):
            lst = getattr(node, field, None)
            if not isinstance(lst, list):
                continue
            for i, s in enumerate(lst):
                if isinstance(s, (ast.FunctionDef, ast.AsyncFunctionDef)):
                    out.setdefault(prefix + s.name, (lst, i, s))
                    # nested defs are part of the enclosing function; they are matched together with it
                elif isinstance(s, ast.ClassDef):
                    walk(s, prefix + s.name + ".")
                elif isinstance(s, ast.stmt):
                    walk(s, prefix)
    walk(tree, "")
    return out


def canon_tree(tree, template_tree):
    """Replace, inside the parsed module `tree`, every top-level function / method that differs textually from the function
    of the same qualified name in `template_tree` but is alpha-equivalent to it by the template's AST (in place).
    Returns the qualnames that were replaced."""
    changed = []
    tf = functions_by_qualname(template_tree)
    for q, (lst, i, node) in functions_by_qualname(tree).items():
        if q in tf:
            new = canon_like(node, tf[q][2])
            if new is not node:
                lst[i] = new
                changed.append(q)
    return changed


# --------------------------------------------------------------------------------------------------------- def-use

def single_assignments(fn):
    """{name: value expression} for the local names of `fn` assigned exactly once, by a plain `name = expr`
    (no augmented assignment, no loop/with/comprehension target, not a parameter), anywhere in the function's own scope."""
    stores = {}
    params = {x.arg for x in fn.args.posonlyargs + fn.args.args + fn.args.kwonlyargs}
    if fn.args.vararg:
        params.add(fn.args.vararg.arg)
    if fn.args.kwarg:
        params.add(fn.args.kwarg.arg)

    def visit(n):
        for c in ast.iter_child_nodes(n):
            if isinstance(c, (ast.FunctionDef, ast.AsyncFunctionDef, ast.Lambda, ast.ClassDef)):
                if hasattr(c, "name"):
                    stores.setdefault(c.name, []).append(None)
                continue
            if isinstance(c, ast.Assign) and len(c.targets) == 1 and isinstance(c.targets[0], ast.Name):
                stores.setdefault(c.targets[0].id, []).append(c.value)
                visit(ast.Expr(value=c.value))      # (wrapped, so that a comprehension on the right-hand side is seen as one)
                continue
            if isinstance(c, ast.Name) and isinstance(c.ctx, (ast.Store, ast.Del)):
                stores.setdefault(c.id, []).append(None)
            if isinstance(c, ast.AugAssign) and isinstance(c.target, ast.Name):
                stores.setdefault(c.target.id, []).append(None)
            if isinstance(c, (ast.ListComp, ast.SetComp, ast.GeneratorExp, ast.DictComp)):
                visit(ast.Expr(value=c.generators[0].iter))
                continue
            visit(c)
    for s in fn.body:
        visit(ast.Module(body=[s], type_ignores=[]))
    return {k: v[0] for k, v in stores.items() if len(v) == 1 and v[0] is not None and k not in params}


def inline_locals(expr, fn, keep=(), depth=12):
    """`expr` with every singly-assigned local of `fn` (except `keep`) replaced by its defining expression, recursively.
    Names bound inside `expr` itself (comprehension / lambda variables) are left alone."""
    defs = single_assignments(fn)
    inner = set()
    for n in ast.walk(expr):
        if isinstance(n, (ast.ListComp, ast.SetComp, ast.GeneratorExp, ast.DictComp)):
            inner |= _comp_targets(n.generators)
        if isinstance(n, ast.Lambda):
            inner |= _bound_names(n)

    class Sub(ast.NodeTransformer):
        def visit_Name(self, n):
            if isinstance(n.ctx, ast.Load) and n.id in defs and n.id not in keep and n.id not in inner:
                return copy.deepcopy(defs[n.id])
            return n
    cur = copy.deepcopy(expr)
    for _ in range(depth):
        before = ast.dump(cur)
        cur = Sub().visit(cur)
        if ast.dump(cur) == before:
            break
    return ast.fix_missing_locations(cur)


def rename_bound(node, mapping):
    """Copy of `node` with Name/arg identifiers renamed by `mapping` (used to print an expression with canonical names)."""
    node = copy.deepcopy(node)
    for n in ast.walk(node):
        if isinstance(n, ast.Name) and n.id in mapping:
            n.id = mapping[n.id]
        if isinstance(n, ast.arg) and n.arg in mapping:
            n.arg = mapping[n.arg]
    return node


def canonical_comp_vars(expr, prefix="v"):
    """Rename the comprehension / lambda variables of an expression to v0, v1, … in order of binding, so that the text of
    `tuple(perm1[p] for p in perm2)` does not depend on the spelling of `p`."""
    expr = copy.deepcopy(expr)
    k = [0]

    def go(n, env):
        if isinstance(n, (ast.ListComp, ast.SetComp, ast.GeneratorExp, ast.DictComp)):
            go(n.generators[0].iter, env)
            env = dict(env)
            for i, g in enumerate(n.generators):
                if i > 0:
                    go(g.iter, env)
                for t in ast.walk(g.target):
                    if isinstance(t, ast.Name):
                        env[t.id] = f"{prefix}{k[0]}"
                        k[0] += 1
                go(g.target, env)
                for c in g.ifs:
                    go(c, env)
            for f in ("elt", "key", "value"):
                if hasattr(n, f):
                    go(getattr(n, f), env)
            return
        if isinstance(n, ast.Lambda):
            env = dict(env)
            for a in n.args.posonlyargs + n.args.args + n.args.kwonlyargs:
                env[a.arg] = f"{prefix}{k[0]}"
                a.arg = env[a.arg]
                k[0] += 1
            go(n.body, env)
            return
        if isinstance(n, ast.Name) and n.id in env:
            n.id = env[n.id]
        for c in ast.iter_child_nodes(n):
            go(c, env)
    go(expr, {})
    return expr
