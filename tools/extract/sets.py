"""T-src for C16: inventory of the places where einx's result could depend on an enumeration order or a random draw.

The scan is purely syntactic (Python `ast`) over the modules on the call path of an einx operation with the numpy
backend.  Two inventories are written to `lean/EinxModel/Extracted/Sets.lean`:

* **set-consumption sites**: an expression that is syntactically a set (set literal / comprehension, `set(...)`,
  `frozenset(...)`, set operators and `union/intersection/difference/symmetric_difference`, a name or `self.<attr>` bound to
  one of these earlier in the same function/class, an element of a dict/list of sets built in the same function, e.g.
  `defaultdict(set)`) is *consumed in an order-revealing way*: iterated by `for` or a comprehension, converted with
  `list`/`tuple`/`enumerate`/`zip`/`iter`, `.pop()`ed, `next(iter(...))`ed, joined / formatted into a string, starred,
  or passed on to a function of einx (the callee's parameter is no longer known to be a set: recorded as kind `arg`).
  Classification computed here from the syntactic context:
    - `order_safe`   the consumer cannot reveal the order (`sorted`, `min/max/sum/any/all/len/set/frozenset` around a
                     comprehension, a set comprehension (the result is again a set and is tracked further));
    - `message_only` the site is inside a `raise` statement, a `print(...)` statement, or the value of a `message=`/`pos=`
                     keyword (error text and caret positions; the exception class does not depend on it);
    - `candidate`    everything else.  `Props/C16.lean` holds the fixed list of candidate sites that are MODELLED (with the
                     theorem that shows order independence); the obligation `extracted_sites_all_classified` fails for
                     a candidate site that is not in that list.
  A site is identified by (file, enclosing function, kind, unparsed source of the consuming expression) -- not by its
  line number, so unrelated edits do not disturb the tie, while any change of the consuming expression does.

* **random-draw sites**: calls of `uuid.uuid4`/`uuid1`, anything from `random`/`secrets`/`os.urandom`/`time.*`, and the
  builtins `id(...)` / `hash(...)`; classification: `name_only` (the drawn value is used only inside an f-string / as
  `ellipsis_id=` / as a dict key of an identity map `id(x)`), `identity_test` (`id(a) == id(b)`, `id(x) in s`,
  `s.add(id(x))`), else `candidate`.

* the guard of the implicit-output choice: the `valid_parents.pop()` of `_parse_op` must be dominated by
  `if len(valid_parents) != 1: raise`.

A file that cannot be parsed, or an anchor that is not found, yields the conservative value (an extra `candidate`
site named `<lost>` / `popGuarded := false`) and a lost anchor.
"""
import ast
import os
from lib import core
from . import lean_str, lean_bool, parse_text

ROOT = "einx/_src"
SCAN = [
    "namedtensor", "adapter/*.py", "adapter/numpy", "util", "frontend/*.py", "frontend/impl/numpy.py", "tracer",
]
SET_METHODS = {"union", "intersection", "difference", "symmetric_difference"}
SAFE_AGG = {"sorted", "min", "max", "sum", "any", "all", "len", "set", "frozenset"}
ORDERING = {"list", "tuple", "enumerate", "zip", "iter", "reversed", "map", "filter"}
SAFE_SET_ARG_METHODS = {"update", "issubset", "issuperset", "isdisjoint", "intersection_update", "difference_update",
                        "symmetric_difference_update", "add", "discard", "remove", "union", "intersection", "difference",
                        "symmetric_difference"}
SAFE_CALLEES = {"isinstance", "type", "bool", "print", "repr", "id"}


def files():
    out = []
    base = os.path.join(core.REPO, ROOT)
    for pat in SCAN:
        if pat.endswith(".py") and "*" not in pat:
            out.append(os.path.join(base, pat))
        elif pat.endswith("*.py"):
            d = os.path.join(base, os.path.dirname(pat))
            out += [os.path.join(d, f) for f in os.listdir(d) if f.endswith(".py")]
        else:
            for d, _, fs in os.walk(os.path.join(base, pat)):
                out += [os.path.join(d, f) for f in fs if f.endswith(".py")]
    return sorted(set(out))


def set_parents(tree):
    for n in ast.walk(tree):
        for c in ast.iter_child_nodes(n):
            c._parent = n
    tree._parent = None


def callee_name(call):
    f = call.func
    if isinstance(f, ast.Name):
        return f.id
    if isinstance(f, ast.Attribute):
        return f.attr
    return None


def dotted(node):
    if isinstance(node, ast.Name):
        return node.id
    if isinstance(node, ast.Attribute):
        b = dotted(node.value)
        return None if b is None else b + "." + node.attr
    return None


class Typer:
    """Very small intra-function type inference: 'set', 'dos' (dict whose values are sets), 'its' (iterable of sets),
    'items' (iterable of (key, set) pairs)."""

    def __init__(self, set_attrs):
        self.set_attrs = set_attrs

    def ty(self, e, env):
        if isinstance(e, (ast.Set, ast.SetComp)):
            return "set"
        if isinstance(e, ast.Name):
            return env.get(e.id)
        if isinstance(e, ast.Attribute):
            if isinstance(e.value, ast.Name) and e.value.id == "self" and e.attr in self.set_attrs:
                return "set"
            return None
        if isinstance(e, ast.BinOp) and isinstance(e.op, (ast.BitOr, ast.BitAnd, ast.Sub, ast.BitXor)):
            if self.ty(e.left, env) == "set" or self.ty(e.right, env) == "set":
                return "set"
            return None
        if isinstance(e, ast.IfExp):
            return self.ty(e.body, env) or self.ty(e.orelse, env)
        if isinstance(e, ast.Subscript):
            if self.ty(e.value, env) in ("dos", "its"):
                return "set"
            return None
        if isinstance(e, ast.DictComp):
            return "dos" if self.ty(e.value, self.comp_env(e, env)) == "set" else None
        if isinstance(e, ast.Dict):
            return "dos" if e.values and all(self.ty(v, env) == "set" for v in e.values) else None
        if isinstance(e, (ast.ListComp, ast.GeneratorExp)):
            return "its" if self.ty(e.elt, self.comp_env(e, env)) == "set" else None
        if isinstance(e, (ast.List, ast.Tuple)):
            return "its" if e.elts and all(self.ty(v, env) == "set" for v in e.elts) else None
        if isinstance(e, ast.Call):
            name = callee_name(e)
            if isinstance(e.func, ast.Name):
                if name in ("set", "frozenset"):
                    return "set"
                if name == "defaultdict" and e.args and isinstance(e.args[0], ast.Name) and e.args[0].id in ("set", "frozenset"):
                    return "dos"
                if name in ("list", "tuple") and e.args and self.ty(e.args[0], env) == "its":
                    return "its"
            if isinstance(e.func, ast.Attribute):
                recv = self.ty(e.func.value, env)
                if name in SET_METHODS and recv in ("set", None) and (recv == "set" or any(self.ty(a, env) == "set" for a in e.args)):
                    return "set"
                if name in SET_METHODS and recv is None and isinstance(e.func.value, ast.Call) and callee_name(e.func.value) == "set":
                    return "set"
                if name == "copy" and recv == "set":
                    return "set"
                if recv == "dos":
                    if name == "values":
                        return "its"
                    if name == "items":
                        return "items"
                    if name in ("get", "pop", "setdefault") and e.args:
                        return "set"
            return None
        return None

    def bind_target(self, target, t, env):
        """Bind the loop/comprehension target when iterating over something of type `t`."""
        if t == "its" and isinstance(target, ast.Name):
            env[target.id] = "set"
        elif t == "items" and isinstance(target, ast.Tuple) and len(target.elts) == 2 and isinstance(target.elts[1], ast.Name):
            env[target.elts[1].id] = "set"
        else:
            for n in ast.walk(target):
                if isinstance(n, ast.Name):
                    env.pop(n.id, None)

    def comp_env(self, comp, env):
        env = dict(env)
        for g in comp.generators:
            self.bind_target(g.target, self.ty(g.iter, env), env)
        return env


def always_raises(block):
    """Does this statement list unconditionally end in `raise` (straight line, or an if/else whose branches all do)?"""
    if not block:
        return False
    last = block[-1]
    if isinstance(last, ast.Raise):
        return True
    if isinstance(last, ast.If):
        return always_raises(last.body) and always_raises(last.orelse)
    return False


def in_message_context(node):
    """Inside a raise statement, a print statement, the value of a message=/pos= keyword, or a block (if-body, else-body,
    except handler) that unconditionally ends in `raise`: everything computed there only feeds the exception object."""
    n = node
    while n is not None:
        p = getattr(n, "_parent", None)
        if isinstance(n, ast.stmt) and p is not None and not isinstance(p, (ast.FunctionDef, ast.AsyncFunctionDef, ast.ClassDef, ast.Module)):
            for fld in ("body", "orelse", "finalbody"):
                b = getattr(p, fld, None)
                if isinstance(b, list) and n in b and always_raises(b) and not isinstance(p, (ast.For, ast.While, ast.With, ast.Try)):
                    return True
        if isinstance(n, (ast.FunctionDef, ast.AsyncFunctionDef)) and p is not None:
            # a helper defined inside an always-raising block (e.g. inside an except handler)
            for fld in ("body", "orelse"):
                b = getattr(p, fld, None)
                if isinstance(b, list) and n in b and always_raises(b) and isinstance(p, (ast.ExceptHandler, ast.If)):
                    return True
        if isinstance(n, ast.Raise):
            return True
        if isinstance(n, ast.Expr) and isinstance(n.value, ast.Call) and callee_name(n.value) == "print":
            return True
        if isinstance(n, ast.keyword) and n.arg in ("message", "pos"):
            return True
        if isinstance(n, ast.Assign) and any(isinstance(t, ast.Name) and ("message" in t.id or t.id == "msg") for t in n.targets):
            return True
        if isinstance(n, ast.AugAssign) and isinstance(n.target, ast.Name) and ("message" in n.target.id or n.target.id == "msg"):
            return True
        if isinstance(n, (ast.FunctionDef, ast.AsyncFunctionDef, ast.Lambda)):
            return False
        n = p
    return False


def singleton_guarded(call, name):
    """Is `name.pop()` / `next(iter(name))` dominated by a check that the set has exactly one element?
    Recognised shapes (S = name):
      (a) enclosing `if len(S) == 1:` body;
      (b) an earlier statement of the same block `if len(S) != 1: ... raise`;
      (c) an earlier statement of the same block `if len(S) > 1: ... raise` and the use is the body of a conditional expression
          `S.pop() if len(S) > 0 else ...` (or of an enclosing `if len(S) > 0` / `if len(S) == 1`);
    with no rebinding or mutation of S between the check and the use."""
    def is_len_cmp(t, op, k):
        return (isinstance(t, ast.Compare) and len(t.ops) == 1 and isinstance(t.ops[0], op) and ast.unparse(t.left) == f"len({name})"
                and isinstance(t.comparators[0], ast.Constant) and t.comparators[0].value == k)

    nonempty = False
    n = call
    st = None
    while n is not None:
        p = getattr(n, "_parent", None)
        if isinstance(p, ast.IfExp) and p.body is n and (is_len_cmp(p.test, ast.Gt, 0) or is_len_cmp(p.test, ast.NotEq, 0)):
            nonempty = True
        if isinstance(p, ast.IfExp) and p.body is n and is_len_cmp(p.test, ast.Eq, 1):
            return True
        if isinstance(n, ast.stmt):
            st = n
            break
        n = p
    if st is None:
        return False
    cur = st
    while cur is not None and not isinstance(cur, (ast.FunctionDef, ast.AsyncFunctionDef, ast.Module, ast.ClassDef)):
        p = getattr(cur, "_parent", None)
        if isinstance(p, ast.If) and cur in p.body:
            if is_len_cmp(p.test, ast.Eq, 1):
                return True
            if is_len_cmp(p.test, ast.Gt, 0) or is_len_cmp(p.test, ast.NotEq, 0):
                nonempty = True
        block = None
        for fld in ("body", "orelse", "finalbody"):
            b = getattr(p, fld, None)
            if isinstance(b, list) and cur in b:
                block = b
        if block is not None:
            ok = False
            for prev in block[:block.index(cur)]:
                if isinstance(prev, ast.If) and not prev.orelse and always_raises(prev.body):
                    if is_len_cmp(prev.test, ast.NotEq, 1):
                        ok = True
                        continue
                    if is_len_cmp(prev.test, ast.Gt, 1) and nonempty:
                        ok = True
                        continue
                for m in ast.walk(prev):
                    if isinstance(m, (ast.Assign, ast.AugAssign, ast.AnnAssign)):
                        tg = m.targets if isinstance(m, ast.Assign) else [m.target]
                        if any(isinstance(x, ast.Name) and x.id == name for t in tg for x in ast.walk(t)):
                            ok = False
                    if isinstance(m, ast.Call) and isinstance(m.func, ast.Attribute) and isinstance(m.func.value, ast.Name) and m.func.value.id == name \
                            and m.func.attr in ("add", "update", "discard", "remove", "clear", "pop", "difference_update", "intersection_update"):
                        ok = False
            if ok:
                return True
        cur = p
    return False


def snippet(node, limit=160):
    s = ast.unparse(node).replace("\n", " ")
    return s if len(s) <= limit else s[:limit] + "..."


def shadows(node, name):
    """Is `name` (a builtin) rebound by an assignment or parameter in an enclosing function?"""
    n = getattr(node, "_parent", None)
    while n is not None:
        if isinstance(n, (ast.FunctionDef, ast.AsyncFunctionDef)):
            if any(a.arg == name for a in n.args.args + n.args.kwonlyargs + n.args.posonlyargs):
                return True
            for m in ast.walk(n):
                if isinstance(m, ast.Assign) and any(isinstance(t, ast.Name) and t.id == name for t in m.targets):
                    return True
        n = getattr(n, "_parent", None)
    return False


def context_stmt(node):
    n = node
    while n is not None and not isinstance(n, ast.stmt):
        n = getattr(n, "_parent", None)
    if isinstance(n, (ast.For, ast.While, ast.If, ast.With, ast.Try, ast.FunctionDef)):
        return node
    return n if n is not None else node


def enclosing_function(node):
    n = getattr(node, "_parent", None)
    while n is not None and not isinstance(n, (ast.FunctionDef, ast.AsyncFunctionDef)):
        n = getattr(n, "_parent", None)
    return n


def classify_draw(call, kind):
    """`name_only`: the value only becomes part of a name (f-string, `ellipsis_id=`).  `identity_test`: an `id()`/`hash()`
    that is only compared for equality / used as a dict or set key (directly, or through a tuple / comprehension / `sorted`
    / a local named `*key*`/`*id*`), or sits in a `__hash__` method or a print statement.  Otherwise `candidate`."""
    fn = enclosing_function(call)
    if fn is not None and fn.name == "__hash__":
        return "identity_test"
    n = call
    for _ in range(8):
        p = getattr(n, "_parent", None)
        if p is None:
            break
        if isinstance(p, (ast.JoinedStr, ast.FormattedValue)):
            return "name_only"
        if isinstance(p, ast.keyword) and p.arg == "ellipsis_id":
            return "name_only"
        if kind == "uuid":
            if isinstance(p, ast.Attribute) and p.attr in ("int", "hex"):
                n = p
                continue
            return "candidate"
        if kind in ("id", "hash"):
            if isinstance(p, ast.Compare) and all(isinstance(o, (ast.Eq, ast.NotEq, ast.In, ast.NotIn, ast.Is, ast.IsNot)) for o in p.ops):
                return "identity_test"
            if isinstance(p, ast.Call) and isinstance(p.func, ast.Attribute) and p.func.attr in ("add", "discard", "remove", "get", "setdefault", "append") and n in p.args:
                return "identity_test"
            if isinstance(p, ast.DictComp) and p.key is n:
                return "identity_test"
            if isinstance(p, ast.Dict) and n in p.keys:
                return "identity_test"
            if isinstance(p, ast.Subscript) and p.slice is n:
                return "identity_test"
            if isinstance(p, ast.SetComp) and p.elt is n:
                return "identity_test"
            if isinstance(p, ast.Assign) and all(isinstance(t, ast.Name) and ("key" in t.id or "id" in t.id) for t in p.targets):
                return "identity_test"
            if isinstance(p, ast.Return) and fn is not None and "key" in fn.name:
                return "identity_test"
            if isinstance(p, ast.Expr) and isinstance(p.value, ast.Call) and callee_name(p.value) == "print":
                return "identity_test"
            if isinstance(p, (ast.Tuple, ast.List, ast.GeneratorExp, ast.ListComp, ast.BinOp)):
                n = p
                continue
            if isinstance(p, ast.Call) and isinstance(p.func, ast.Name) and p.func.id in ("tuple", "sorted", "list", "print", "str"):
                n = p
                continue
            if isinstance(p, ast.comprehension):
                n = p
                continue
        return "candidate"
    return "candidate"


class FunctionScan:
    def __init__(self, relfile, typer, sites, draws):
        self.file = relfile
        self.typer = typer
        self.sites = sites
        self.draws = draws

    def site(self, qual, node, kind, cls, shown=None, guarded=False):
        self.sites.append({"file": self.file, "func": qual, "line": node.lineno, "kind": kind,
                           "snippet": snippet(shown if shown is not None else node), "cls": cls, "guarded": bool(guarded)})

    # ---- expressions ---------------------------------------------------------------------------------------------
    def expr(self, e, env, qual):
        """Scan an expression tree for consumption sites (type environment `env`)."""
        if e is None:
            return
        ty = self.typer.ty
        if isinstance(e, (ast.Lambda,)):
            self.expr(e.body, env, qual)
            return
        if isinstance(e, (ast.ListComp, ast.SetComp, ast.GeneratorExp, ast.DictComp)):
            cenv = dict(env)
            for g in e.generators:
                self.expr(g.iter, cenv, qual)
                t = ty(g.iter, cenv)
                if t == "set":
                    self.comp_site(e, g, qual)
                self.typer.bind_target(g.target, t, cenv)
                for c in g.ifs:
                    self.expr(c, cenv, qual)
            if isinstance(e, ast.DictComp):
                self.expr(e.key, cenv, qual)
                self.expr(e.value, cenv, qual)
            else:
                self.expr(e.elt, cenv, qual)
            return
        if isinstance(e, ast.Call):
            name = callee_name(e)
            is_builtin = isinstance(e.func, ast.Name)
            set_args = [a for a in e.args if ty(a.value if isinstance(a, ast.Starred) else a, env) == "set"]
            set_args += [k.value for k in e.keywords if ty(k.value, env) == "set"]
            for a in e.args:
                if isinstance(a, ast.Starred) and ty(a.value, env) == "set":
                    self.site(qual, e, "star", "message_only" if in_message_context(e) else "candidate")
            if set_args:
                msg = in_message_context(e)
                if is_builtin and name == "sorted":
                    self.site(qual, e, "sorted", "order_safe")
                elif is_builtin and name in SAFE_AGG:
                    if name not in ("len", "set", "frozenset"):
                        self.site(qual, e, "agg", "order_safe")
                elif is_builtin and name == "next":
                    pass
                elif is_builtin and name == "iter":
                    par = getattr(e, "_parent", None)
                    shown = par if isinstance(par, ast.Call) and callee_name(par) == "next" else e
                    g = shown is not e and isinstance(e.args[0], ast.Name) and singleton_guarded(e, e.args[0].id)
                    self.site(qual, e, "next_iter" if shown is not e else "iter", "message_only" if msg else "candidate", shown, guarded=g)
                elif is_builtin and name in ORDERING:
                    self.site(qual, e, "to_list", "message_only" if msg else "candidate")
                elif is_builtin and name == "str":
                    self.site(qual, e, "format", "message_only" if msg else "candidate")
                elif isinstance(e.func, ast.Attribute) and name == "join":
                    self.site(qual, e, "join", "message_only" if msg else "candidate")
                elif isinstance(e.func, ast.Attribute) and name in SAFE_SET_ARG_METHODS:
                    pass
                elif is_builtin and name in SAFE_CALLEES:
                    pass
                else:
                    self.site(qual, e, "arg", "message_only" if msg else "candidate")
            if isinstance(e.func, ast.Attribute) and name == "pop" and not e.args and ty(e.func.value, env) == "set":
                g = isinstance(e.func.value, ast.Name) and singleton_guarded(e, e.func.value.id)
                self.site(qual, e, "pop", "message_only" if in_message_context(e) else "candidate", guarded=g)
            self.draw(e, qual)
            self.expr(e.func, env, qual)
            for a in e.args:
                self.expr(a.value if isinstance(a, ast.Starred) else a, env, qual)
            for k in e.keywords:
                self.expr(k.value, env, qual)
            return
        if isinstance(e, ast.FormattedValue):
            if ty(e.value, env) == "set":
                self.site(qual, e, "format", "message_only" if in_message_context(e) else "candidate", e.value)
            self.expr(e.value, env, qual)
            return
        for c in ast.iter_child_nodes(e):
            if isinstance(c, ast.expr):
                self.expr(c, env, qual)
            elif isinstance(c, (ast.comprehension, ast.keyword)):
                pass

    def comp_site(self, comp, gen, qual):
        par = getattr(comp, "_parent", None)
        msg = in_message_context(comp)
        if isinstance(comp, ast.SetComp):
            self.site(qual, comp, "comp", "order_safe")
            return
        if isinstance(par, ast.Call) and comp in par.args:
            name = callee_name(par)
            if isinstance(par.func, ast.Name) and name in SAFE_AGG:
                self.site(qual, comp, "comp", "order_safe", par)
                return
            if isinstance(par.func, ast.Attribute) and name in SAFE_SET_ARG_METHODS:
                self.site(qual, comp, "comp", "order_safe", par)
                return
            if isinstance(par.func, ast.Attribute) and name == "join":
                self.site(qual, comp, "join", "message_only" if msg else "candidate", par)
                return
        self.site(qual, comp, "comp", "message_only" if msg else "candidate")

    # ---- random draws --------------------------------------------------------------------------------------------
    def draw(self, call, qual):
        d = dotted(call.func) or ""
        kind = None
        if d in ("uuid.uuid4", "uuid.uuid1", "uuid4", "uuid1"):
            kind = "uuid"
        elif d.split(".")[0] in ("random", "secrets") or d in ("os.urandom", "time.time", "time.time_ns", "time.perf_counter") or ".random." in d:
            kind = "random"
        elif d == "id" and len(call.args) == 1 and not call.keywords and not shadows(call, "id"):
            kind = "id"
        elif d == "hash" and len(call.args) == 1 and not shadows(call, "hash"):
            kind = "hash"
        if kind is None:
            return
        self.draws.append({"file": self.file, "func": qual, "line": call.lineno, "kind": kind,
                           "snippet": snippet(context_stmt(call), 120), "cls": classify_draw(call, kind)})

    # ---- statements ----------------------------------------------------------------------------------------------
    def body(self, stmts, env, qual):
        ty = self.typer.ty
        for s in stmts:
            if isinstance(s, (ast.FunctionDef, ast.AsyncFunctionDef)):
                q = f"{qual}.{s.name}" if qual else s.name
                for d in s.decorator_list:
                    self.expr(d, env, qual)
                for d in s.args.defaults + [k for k in s.args.kw_defaults if k is not None]:
                    self.expr(d, env, qual)
                inner = dict(env)
                for a in s.args.args + s.args.kwonlyargs + s.args.posonlyargs + ([s.args.vararg] if s.args.vararg else []) + ([s.args.kwarg] if s.args.kwarg else []):
                    inner.pop(a.arg, None)
                self.body(s.body, inner, q)
            elif isinstance(s, ast.ClassDef):
                q = f"{qual}.{s.name}" if qual else s.name
                self.body(s.body, dict(env), q)
            elif isinstance(s, ast.Assign):
                self.expr(s.value, env, qual)
                t = ty(s.value, env)
                for tg in s.targets:
                    if isinstance(tg, ast.Name):
                        if t:
                            env[tg.id] = t
                        else:
                            env.pop(tg.id, None)
                    elif isinstance(tg, (ast.Tuple, ast.List)):
                        for n in ast.walk(tg):
                            if isinstance(n, ast.Name):
                                env.pop(n.id, None)
                    else:
                        self.expr(tg, env, qual)
            elif isinstance(s, ast.AnnAssign):
                self.expr(s.value, env, qual)
                if isinstance(s.target, ast.Name):
                    t = ty(s.value, env) if s.value is not None else None
                    if t:
                        env[s.target.id] = t
                    else:
                        env.pop(s.target.id, None)
            elif isinstance(s, ast.AugAssign):
                self.expr(s.value, env, qual)
            elif isinstance(s, (ast.For, ast.AsyncFor)):
                self.expr(s.iter, env, qual)
                t = ty(s.iter, env)
                if t == "set":
                    hdr = ast.Name(id=f"for {ast.unparse(s.target)} in {ast.unparse(s.iter)}", ctx=ast.Load())
                    self.site(qual, s, "for", "message_only" if in_message_context(s) else "candidate", shown=hdr)
                self.typer.bind_target(s.target, t, env)
                self.body(s.body, env, qual)
                self.body(s.orelse, env, qual)
            elif isinstance(s, ast.While):
                self.expr(s.test, env, qual)
                self.body(s.body, env, qual)
                self.body(s.orelse, env, qual)
            elif isinstance(s, ast.If):
                self.expr(s.test, env, qual)
                self.body(s.body, env, qual)
                self.body(s.orelse, env, qual)
            elif isinstance(s, (ast.With, ast.AsyncWith)):
                for it in s.items:
                    self.expr(it.context_expr, env, qual)
                self.body(s.body, env, qual)
            elif isinstance(s, ast.Try):
                self.body(s.body, env, qual)
                for h in s.handlers:
                    self.body(h.body, env, qual)
                self.body(s.orelse, env, qual)
                self.body(s.finalbody, env, qual)
            elif isinstance(s, ast.Return):
                self.expr(s.value, env, qual)
            elif isinstance(s, ast.Expr):
                self.expr(s.value, env, qual)
            elif isinstance(s, ast.Raise):
                self.expr(s.exc, env, qual)
                self.expr(s.cause, env, qual)
            elif isinstance(s, ast.Assert):
                self.expr(s.test, env, qual)
                self.expr(s.msg, env, qual)
            elif isinstance(s, ast.Delete):
                pass
            elif hasattr(ast, "Match") and isinstance(s, ast.Match):
                self.expr(s.subject, env, qual)
                for c in s.cases:
                    self.body(c.body, env, qual)


def class_set_attrs(tree):
    """Attribute names assigned a set anywhere in the file as `self.<attr> = <set expression>`."""
    attrs = set()
    typer = Typer(set())
    for n in ast.walk(tree):
        if isinstance(n, ast.Assign) and typer.ty(n.value, {}) == "set":
            for t in n.targets:
                if isinstance(t, ast.Attribute) and isinstance(t.value, ast.Name) and t.value.id == "self":
                    attrs.add(t.attr)
    return attrs


def scan_file(path):
    rel = os.path.relpath(path, core.REPO)
    with open(path) as f:
        tree = parse_text(f.read(), rel)
    set_parents(tree)
    sites, draws = [], []
    fs = FunctionScan(rel, Typer(class_set_attrs(tree)), sites, draws)
    fs.body(tree.body, {}, "")
    return sites, draws


def pop_guard():
    """Is `valid_parents.pop()` in `_parse_op` preceded (same block) by `if len(valid_parents) != 1: raise ...`?"""
    path = os.path.join(core.REPO, ROOT, "adapter/einx_from_namedtensor.py")
    with open(path) as f:
        tree = parse_text(f.read(), os.path.relpath(path, core.REPO))
    set_parents(tree)
    pops = []
    for n in ast.walk(tree):
        if isinstance(n, ast.Call) and isinstance(n.func, ast.Attribute) and n.func.attr == "pop" and not n.args \
                and isinstance(n.func.value, ast.Name) and n.func.value.id == "valid_parents":
            pops.append(n)
    if len(pops) != 1:
        return None, f"{len(pops)} occurrences of valid_parents.pop()"
    # enclosing statement and its block
    st = pops[0]
    while not isinstance(st, ast.stmt):
        st = st._parent
    block = None
    for fld in ("body", "orelse", "finalbody"):
        b = getattr(st._parent, fld, None)
        if isinstance(b, list) and st in b:
            block = b
    if block is None:
        return None, "enclosing block of valid_parents.pop() not found"
    guarded = False
    for prev in block[:block.index(st)]:
        if isinstance(prev, ast.If) and not prev.orelse and prev.body and isinstance(prev.body[-1], ast.Raise):
            t = prev.test
            if isinstance(t, ast.Compare) and len(t.ops) == 1 and isinstance(t.ops[0], ast.NotEq) \
                    and ast.unparse(t.left) == "len(valid_parents)" and isinstance(t.comparators[0], ast.Constant) and t.comparators[0].value == 1:
                guarded = True
            else:
                pass
        # any rebinding of valid_parents between guard and pop invalidates the guard
        for n in ast.walk(prev):
            if guarded and isinstance(n, ast.Assign) and any(isinstance(x, ast.Name) and x.id == "valid_parents" for x in n.targets):
                guarded = False
            if guarded and not isinstance(prev, ast.If) and isinstance(n, ast.Call) and isinstance(n.func, ast.Attribute) \
                    and isinstance(n.func.value, ast.Name) and n.func.value.id == "valid_parents" and n.func.attr in ("add", "update", "discard", "remove", "clear", "pop"):
                guarded = False
    return guarded, None


def render(sites, draws, guarded, scanned=()):
    L = ["/-! GENERATED by tools/extract/sets.py from /repo -- do not edit. -/", "namespace Einx.Extracted.Sets", ""]
    L.append("/-- How the syntactic context classifies a site. -/")
    L.append("inductive SiteClass | orderSafe | messageOnly | candidate")
    L.append("  deriving DecidableEq, Repr")
    L.append("")
    L.append("/-- A place where a set is consumed in a possibly order-revealing way. -/")
    L.append("structure SetSite where")
    L.append("  file : String")
    L.append("  func : String")
    L.append("  line : Nat")
    L.append("  kind : String")
    L.append("  snippet : String")
    L.append("  cls : SiteClass")
    L.append("  /-- for `pop` / `next(iter(·))`: dominated by a check that the set has exactly one element -/")
    L.append("  guardedSingleton : Bool")
    L.append("  deriving Repr")
    L.append("")
    L.append("inductive DrawClass | nameOnly | identityTest | candidate")
    L.append("  deriving DecidableEq, Repr")
    L.append("")
    L.append("/-- A place where a random / address-dependent value is drawn. -/")
    L.append("structure DrawSite where")
    L.append("  file : String")
    L.append("  func : String")
    L.append("  line : Nat")
    L.append("  kind : String")
    L.append("  snippet : String")
    L.append("  cls : DrawClass")
    L.append("  deriving Repr")
    L.append("")
    cm = {"order_safe": ".orderSafe", "message_only": ".messageOnly", "candidate": ".candidate"}
    L.append("def setSites : List SetSite := [")
    rows = []
    for s in sites:
        rows.append(f"  ⟨{lean_str(s['file'])}, {lean_str(s['func'])}, {s['line']}, {lean_str(s['kind'])}, {lean_str(s['snippet'])}, {cm[s['cls']]}, {lean_bool(s.get('guarded', False))}⟩")
    L.append(",\n".join(rows))
    L.append("]")
    L.append("")
    dm = {"name_only": ".nameOnly", "identity_test": ".identityTest", "candidate": ".candidate"}
    L.append("def drawSites : List DrawSite := [")
    rows = []
    for s in draws:
        rows.append(f"  ⟨{lean_str(s['file'])}, {lean_str(s['func'])}, {s['line']}, {lean_str(s['kind'])}, {lean_str(s['snippet'])}, {dm[s['cls']]}⟩")
    L.append(",\n".join(rows))
    L.append("]")
    L.append("")
    L.append("/-- The source files that were parsed and scanned on this run. -/")
    L.append("def scannedFiles : List String := [" + ", ".join(lean_str(f) for f in sorted(scanned)) + "]")
    L.append("")
    L.append("/-- `_parse_op`: is `valid_parents.pop()` dominated by `if len(valid_parents) != 1: raise`? -/")
    L.append(f"def validParentsPopGuarded : Bool := {lean_bool(bool(guarded))}")
    L += ["", "end Einx.Extracted.Sets", ""]
    return "\n".join(L)


LOST_SITE = {"file": "<lost>", "func": "<lost>", "line": 0, "kind": "lost", "snippet": "<extractor failed>", "cls": "candidate", "guarded": False}
LOST_DRAW = {"file": "<lost>", "func": "<lost>", "line": 0, "kind": "lost", "snippet": "<extractor failed>", "cls": "candidate"}


def fallback():
    return render([LOST_SITE], [LOST_DRAW], False)


def extract():
    lost = []
    sites, draws = [], []
    parsed = []
    for path in files():
        try:
            s, d = scan_file(path)
            sites += s
            draws += d
            parsed.append(os.path.relpath(path, core.REPO))
        except SyntaxError as e:
            lost.append((f"sets:{os.path.relpath(path, core.REPO)}", f"cannot parse: {e}"))
            sites.append(dict(LOST_SITE, file=os.path.relpath(path, core.REPO)))
    must = ["einx/_src/namedtensor/stage2/cse.py", "einx/_src/adapter/decomposednamedtensor_from_classical.py",
            "einx/_src/adapter/einx_from_namedtensor.py", "einx/_src/util/solver.py", "einx/_src/frontend/backend.py",
            "einx/_src/namedtensor/stage1/parse.py"]
    scanned = {os.path.relpath(p, core.REPO) for p in files()}
    for m in must:
        if m not in scanned:
            lost.append((f"sets:{m}", "module on the call path not found"))
            sites.append(dict(LOST_SITE, file=m))
    guarded, why = pop_guard()
    if guarded is None:
        lost.append(("sets:valid_parents.pop", why))
        guarded = False
    sites.sort(key=lambda s: (s["file"], s["line"], s["kind"], s["snippet"]))
    draws.sort(key=lambda s: (s["file"], s["line"], s["kind"], s["snippet"]))
    facts = {"sites": sites, "draws": draws, "validParentsPopGuarded": guarded}
    return render(sites, draws, guarded, parsed), facts, lost
