"""T-src for C05: kernel formulas and rewrite anchors of the graph optimiser, read from /repo's AST.

A mini translator (Python `ast` -> Lean) for a small pure subset -- names, integer constants, `tuple(e)`/`list(e)`
(identity on the list model), `range(n)`, `len(e)`, attribute reads that are declared parameters (`input.shape`,
`input.ndim`), indexing `a[i]` (Option-valued: out of range is `none`, NEVER a default), a generator/list
comprehension over one name, `==`/`!=`/`<`/`<=` comparisons, `and`/`or`/`not`, and `isinstance(...)` type guards
(which are `true` in the typed model; recorded as an assumption) -- is applied to these anchors of
`einx/_src/tracer/optimizer/classical.py`:

* `SkipTranspose.__call__`: the value assigned to `new_perm`  -> `Extracted.composePerm`
* the no-op tests of `SkipReshape`, `SkipTranspose`, `SkipBroadcastTo`, `SkipConcatenate` (the `if` whose body is
  `return True, transform(<operand>)`) -> `Extracted.reshapeNoop`, `transposeNoop`, `broadcastNoop`, `concatNoop`
* structural anchors (compared as normalised source text): which permutation is `perm1`/`perm2`, what the merged
  call is applied to, what a no-op returns, the memo check and the `while True ... if not changed: break` loop of
  `optimizer.py`, and the function each pattern is registered for in `frontend/impl/numpy.py`.

Anything missing or outside the subset yields a lost anchor and the conservative definition: `composePerm := none`
(the obligation `composePerm_defined` fails), a no-op test that is always `true` (the obligation `<x>Noop_sound`
fails), a structural fact `false`.
"""
import ast
from . import parse, find_class, find_func, lean_bool, lean_str

FILE_C = "einx/_src/tracer/optimizer/classical.py"
FILE_O = "einx/_src/tracer/optimizer/optimizer.py"
FILE_N = "einx/_src/frontend/impl/numpy.py"


class Outside(Exception):
    """The construct is outside the translated subset."""


# ---------------------------------------------------------------------------------------------- mini translator

class Tr:
    """`params`: {normalised python source of an expression: (lean name, type)}; types: "nat", "list" (List Nat), "bool".
    `tr` returns (lean code, type, partial) where partial means the Lean code has type `Option <type>`."""

    def __init__(self, params):
        self.params = dict(params)
        self.used = set()
        self.assumed = []

    def tr(self, n, bound=()):
        key = ast.unparse(n)
        if key in self.params and not isinstance(n, ast.Constant):
            self.used.add(key)
            nm, ty = self.params[key]
            return nm, ty, False
        if isinstance(n, ast.Name):
            if n.id in bound:
                return n.id, "nat", False
            raise Outside(f"free name {n.id}")
        if isinstance(n, ast.Constant):
            if isinstance(n.value, bool):
                return lean_bool(n.value), "bool", False
            if isinstance(n.value, int) and n.value >= 0:
                return str(n.value), "nat", False
            raise Outside(f"constant {n.value!r}")
        if isinstance(n, ast.Call) and isinstance(n.func, ast.Name) and not n.keywords:
            f = n.func.id
            if f == "isinstance" and len(n.args) == 2:
                self.assumed.append(key)
                return "true", "bool", False
            if f in ("tuple", "list") and len(n.args) == 1:
                a = n.args[0]
                if isinstance(a, (ast.GeneratorExp, ast.ListComp)):
                    return self.comp(a, bound)
                c, ty, p = self.tr(a, bound)
                if ty != "list":
                    raise Outside(f"{f}() of a non-list")
                return c, ty, p
            if f == "range" and len(n.args) == 1:
                c, ty, p = self.tr(n.args[0], bound)
                if ty != "nat" or p:
                    raise Outside("range of a non-nat")
                return f"(List.range {c})", "list", False
            if f == "len" and len(n.args) == 1:
                c, ty, p = self.tr(n.args[0], bound)
                if ty != "list" or p:
                    raise Outside("len of a non-list")
                return f"{c}.length", "nat", False
            raise Outside(f"call of {f}")
        if isinstance(n, ast.ListComp):
            return self.comp(n, bound)
        if isinstance(n, ast.Subscript):
            c, ty, p = self.tr(n.value, bound)
            i, ity, ip = self.tr(n.slice, bound)
            if ty != "list" or ity != "nat" or p or ip:
                raise Outside("indexing outside list[nat]")
            return f"{c}[{i}]?", "nat", True
        if isinstance(n, ast.Compare) and len(n.ops) == 1:
            a, aty, ap = self.tr(n.left, bound)
            b, bty, bp = self.tr(n.comparators[0], bound)
            if ap or bp or aty != bty:
                raise Outside("comparison of partial or differently typed operands")
            op = n.ops[0]
            if isinstance(op, ast.Eq):
                return f"({a} == {b})", "bool", False
            if isinstance(op, ast.NotEq):
                return f"({a} != {b})", "bool", False
            if aty == "nat" and isinstance(op, ast.Lt):
                return f"(decide ({a} < {b}))", "bool", False
            if aty == "nat" and isinstance(op, ast.LtE):
                return f"(decide ({a} ≤ {b}))", "bool", False
            raise Outside("comparison operator")
        if isinstance(n, ast.BoolOp):
            parts = [self.tr(v, bound) for v in n.values]
            if any(ty != "bool" or p for _, ty, p in parts):
                raise Outside("boolean operator on non-bool")
            op = " && " if isinstance(n.op, ast.And) else " || "
            return "(" + op.join(c for c, _, _ in parts) + ")", "bool", False
        if isinstance(n, ast.UnaryOp) and isinstance(n.op, ast.Not):
            c, ty, p = self.tr(n.operand, bound)
            if ty != "bool" or p:
                raise Outside("not of non-bool")
            return f"(!{c})", "bool", False
        raise Outside(type(n).__name__)

    def comp(self, n, bound):
        if len(n.generators) != 1:
            raise Outside("nested comprehension")
        g = n.generators[0]
        if g.ifs or g.is_async or not isinstance(g.target, ast.Name):
            raise Outside("comprehension with filter/pattern")
        it, ity, ip = self.tr(g.iter, bound)
        if ity != "list" or ip:
            raise Outside("comprehension over a non-list")
        v = g.target.id
        body, bty, bp = self.tr(n.elt, tuple(bound) + (v,))
        if bty != "nat":
            raise Outside("comprehension element is not a nat")
        if bp:
            return f"{it}.mapM (fun {v} => {body})", "list", True
        return f"{it}.map (fun {v} => {body})", "list", False


def norm(node):
    return ast.unparse(node)


def assignments(fn):
    """{name: [value source, ...]} for simple `name = value` statements anywhere in `fn`."""
    out = {}
    for n in ast.walk(fn):
        if isinstance(n, ast.Assign) and len(n.targets) == 1 and isinstance(n.targets[0], ast.Name):
            out.setdefault(n.targets[0].id, []).append(n.value)
    return out


def noop_if(fn):
    """The `if` statement whose body is exactly `return True, transform(<operand>)`; returns (test, operand source)."""
    hits = []
    for n in ast.walk(fn):
        if isinstance(n, ast.If) and len(n.body) == 1 and isinstance(n.body[0], ast.Return) and not n.orelse:
            v = n.body[0].value
            if (isinstance(v, ast.Tuple) and len(v.elts) == 2 and isinstance(v.elts[0], ast.Constant) and v.elts[0].value is True
                    and isinstance(v.elts[1], ast.Call) and norm(v.elts[1].func) == "transform" and len(v.elts[1].args) == 1):
                hits.append((n.test, norm(v.elts[1].args[0]), n))
    return hits


def merge_return(fn):
    """The `return True, tracer.signature.python.call(f, [a, b])` of the merge branch -> (f, a, b) sources."""
    hits = []
    for n in ast.walk(fn):
        if isinstance(n, ast.Return) and isinstance(n.value, ast.Tuple) and len(n.value.elts) == 2:
            c = n.value.elts[1]
            if isinstance(c, ast.Call) and norm(c.func).endswith("python.call") and len(c.args) == 2 and isinstance(c.args[1], ast.List) \
                    and len(c.args[1].elts) == 2 and not c.keywords:
                hits.append((norm(c.args[0]), norm(c.args[1].elts[0]), norm(c.args[1].elts[1])))
    return hits


def single(assign, name):
    vals = assign.get(name, [])
    return norm(vals[0]) if len(vals) == 1 else None


NOOPS = [
    # lean name, class, parameter table, lean signature, conservative body, expected operand returned
    ("reshapeNoop", "SkipReshape", {"shape": ("shape", "list"), "input.shape": ("inputShape", "list")},
     "(shape inputShape : List Nat)", "input"),
    ("transposeNoop", "SkipTranspose", {"perm": ("perm", "list"), "input.ndim": ("inputNdim", "nat")},
     "(perm : List Nat) (inputNdim : Nat)", "input"),
    ("broadcastNoop", "SkipBroadcastTo", {"shape": ("shape", "list"), "input.shape": ("inputShape", "list")},
     "(shape inputShape : List Nat)", "input"),
    ("concatNoop", "SkipConcatenate", {"len(tensors)": ("nTensors", "nat")},
     "(nTensors : Nat)", "tensors[0]"),
]


def extract():
    lost = []
    facts = {}
    tree = parse(FILE_C)
    out = ["import EinxModel.Basic.Index",
           "/-! GENERATED by tools/extract/kernels.py from /repo -- do not edit. -/",
           "namespace Einx.Extracted", ""]

    # ---- composePerm
    cls = find_class(tree, "SkipTranspose")
    fn = find_func(cls, "__call__") if cls is not None else None
    body = None
    src_line = "?"
    if fn is None:
        lost.append(("kernels:composePerm", "SkipTranspose.__call__ not found"))
    else:
        asg = assignments(fn)
        vals = asg.get("new_perm", [])
        if len(vals) != 1:
            lost.append(("kernels:composePerm", f"{len(vals)} assignments to new_perm"))
        else:
            src_line = f"{FILE_C}:{vals[0].lineno}: new_perm = {norm(vals[0])}"
            t = Tr({"perm1": ("perm1", "list"), "perm2": ("perm2", "list")})
            try:
                c, ty, p = t.tr(vals[0])
                if ty != "list":
                    raise Outside("new_perm is not a list")
                body = c if p else f"some ({c})"
                facts["composePerm"] = norm(vals[0])
            except Outside as e:
                lost.append(("kernels:composePerm", f"outside the translated subset: {e}: {norm(vals[0])}"))
    out.append(f"/-- Translated from `{src_line}`.  Indexing is Option-valued: an out-of-range index makes the result `none`. -/")
    out.append("def composePerm (perm1 perm2 : List Nat) : Option (List Nat) :=")
    out.append("  " + (body if body is not None else "none"))
    out.append("")

    # ---- structural anchors of the transpose merge
    ok = False
    if fn is not None:
        asg = assignments(fn)
        mr = merge_return(fn)
        ok = (single(asg, "perm1") == "input.origin.args[1]" and single(asg, "perm2") == "perm" and single(asg, "perm") == "x.origin.args[1]"
              and single(asg, "input_of_input") == "input.origin.args[0]"
              and [norm(v) for v in asg.get("input", [])] == ["x.origin.args[0]", "_skip_id(input)"]
              and mr == [("transform(x.origin.function)", "transform(input_of_input)", "new_perm")])
        if not ok:
            lost.append(("kernels:transposeMergeOperands", "SkipTranspose no longer has perm1 = inner permutation, perm2 = outer permutation, "
                         "merged call = call(transform(function), [transform(inner operand), new_perm])"))
    out.append("/-- In `SkipTranspose`: `perm1` is the permutation of the inner (first applied) transpose, `perm2` that of the outer one, and the\n"
               "merged node is `call(transform(x.origin.function), [transform(input_of_input), new_perm])` on the inner node's operand. -/")
    out.append(f"def transposeMergeOperands : Bool := {lean_bool(ok)}")
    out.append("")
    facts["transposeMergeOperands"] = ok

    # ---- structural anchors of the reshape merge
    cls_r = find_class(tree, "SkipReshape")
    fn_r = find_func(cls_r, "__call__") if cls_r is not None else None
    ok = False
    if fn_r is not None:
        asg = assignments(fn_r)
        mr = merge_return(fn_r)
        ok = (single(asg, "shape") == "x.origin.args[1]" and single(asg, "input_of_input") == "input.origin.args[0]"
              and [norm(v) for v in asg.get("input", [])] == ["x.origin.args[0]", "_skip_id(input)"]
              and mr == [("transform(x.origin.function)", "transform(input_of_input)", "shape")])
    if not ok:
        lost.append(("kernels:reshapeMergeOperands", "SkipReshape no longer merges into call(transform(function), [transform(inner operand), outer shape])"))
    out.append("/-- In `SkipReshape`: the merged node is `call(transform(x.origin.function), [transform(input_of_input), shape])` with the OUTER\n"
               "node's target shape on the inner node's operand. -/")
    out.append(f"def reshapeMergeOperands : Bool := {lean_bool(ok)}")
    out.append("")
    facts["reshapeMergeOperands"] = ok

    # ---- no-op tests
    assumed = []
    for lean_name, cname, params, sig, operand in NOOPS:
        c = find_class(tree, cname)
        f = find_func(c, "__call__") if c is not None else None
        body = None
        doc = f"{cname}: anchor not found"
        if f is None:
            lost.append((f"kernels:{lean_name}", f"{cname}.__call__ not found"))
        else:
            hits = noop_if(f)
            asg = assignments(f)
            if len(hits) != 1:
                lost.append((f"kernels:{lean_name}", f"{len(hits)} candidates for the no-op test of {cname}"))
            else:
                test, ret, node = hits[0]
                doc = f"{FILE_C}:{node.lineno}: if {norm(test)}: return True, transform({ret})"
                first_operand = norm(asg[operand.split('[')[0]][0]) if asg.get(operand.split("[")[0]) else None
                if ret != operand or first_operand != "x.origin.args[0]":
                    lost.append((f"kernels:{lean_name}", f"the no-op branch of {cname} returns transform({ret}) with {operand.split('[')[0]} = {first_operand}, "
                                 f"expected transform({operand}) of x.origin.args[0]"))
                else:
                    t = Tr(params)
                    try:
                        code, ty, p = t.tr(test)
                        if ty != "bool" or p:
                            raise Outside("test is not a total boolean")
                        body = code
                        assumed += t.assumed
                        facts[lean_name] = norm(test)
                    except Outside as e:
                        lost.append((f"kernels:{lean_name}", f"outside the translated subset: {e}: {norm(test)}"))
        out.append(f"/-- Translated from `{doc}`.  `isinstance` guards are `true` in the typed model. -/")
        out.append(f"def {lean_name} {sig} : Bool :=")
        out.append("  " + (body if body is not None else "true"))
        out.append("")
    facts["isinstance_guards_assumed_true"] = sorted(set(assumed))

    # ---- optimizer.py: memo first, loop until a pass reports no change
    ok_memo = ok_loop = False
    try:
        ot = parse(FILE_O)
        oc = find_class(ot, "Optimizer")
        of = find_func(oc, "_optimize") if oc is not None else None
        if of is not None and of.body:
            ok_memo = norm(of.body[0]) == "if id(x) in self.id_to_newobj:\n    return self.id_to_newobj[id(x)]"
            loop = of.body[1] if len(of.body) > 1 else None
            ok_memo = ok_memo and isinstance(loop, ast.For) and norm(loop) == (
                "for pattern in self.optimizations:\n    changed, newobj = pattern(x, self._optimize)\n    if changed:\n"
                "        pytree.map(self._set, x, newobj)\n        self.changed = True\n        return newobj")
        top = None
        for n in ot.body:
            if isinstance(n, ast.FunctionDef) and n.name == "optimize":
                top = n
        if top is not None:
            ok_loop = norm(top).split("\n", 1)[1] == (
                "    if len(optimizations) > 0:\n        while True:\n            optimizer = Optimizer(optimizations)\n"
                "            x = optimizer._optimize(x)\n            if not optimizer.changed:\n                break\n    return x")
    except Exception:  # unreadable optimizer.py: both anchors lost
        pass
    if not ok_memo:
        lost.append(("kernels:optimizerMemoFirst", "Optimizer._optimize no longer starts with the id_to_newobj memo check followed by first-match-wins over the patterns"))
    if not ok_loop:
        lost.append(("kernels:optimizerLoop", "optimize() is no longer `while True: fresh Optimizer; x = _optimize(x); if not changed: break`"))
    out.append("/-- `Optimizer._optimize` consults the memo `id_to_newobj` first, then the patterns in order (first match wins, result memoised). -/")
    out.append(f"def optimizerMemoFirst : Bool := {lean_bool(ok_memo)}")
    out.append("/-- `optimize` repeats whole passes with a fresh `Optimizer` until a pass reports `changed = False`. -/")
    out.append(f"def optimizerLoop : Bool := {lean_bool(ok_loop)}")
    out.append("")
    facts["optimizerMemoFirst"], facts["optimizerLoop"] = ok_memo, ok_loop

    # ---- numpy backend: which numpy function each classical pattern is registered for
    binding = []
    try:
        nt = parse(FILE_N)
        gf = find_func(nt, "_get_backend_kwargs")
        for n in ast.walk(gf):
            if isinstance(n, ast.Assign) and len(n.targets) == 1 and norm(n.targets[0]) == "optimizations" and isinstance(n.value, ast.List):
                for e in n.value.elts:
                    if isinstance(e, ast.Call):
                        cname = norm(e.func).split(".")[-1]
                        arg = norm(e.args[0]) if e.args else ""
                        binding.append((cname, arg))
    except Exception:
        binding = []
    want = [("SkipReshape", "np.reshape"), ("SkipTranspose", "np.transpose"), ("SkipBroadcastTo", "np.broadcast_to"),
            ("SkipConcatenate", "np.concatenate"), ("InlineGraph", ""), ("SkipCast", "")]
    if sorted(binding) != sorted(want):
        lost.append(("kernels:numpyPatternBinding", f"numpy backend registers {binding}, the model assumes {want}"))
    out.append("/-- The patterns of the numpy backend (`frontend/impl/numpy.py:_get_backend_kwargs`) with the numpy function each is bound to. -/")
    out.append("def numpyPatterns : List (String × String) := [" + ", ".join(f"({lean_str(a)}, {lean_str(b)})" for a, b in binding) + "]")
    out.append("")
    facts["numpyPatterns"] = binding

    out.append("end Einx.Extracted")
    return "\n".join(out) + "\n", facts, lost


def fallback():
    return """import EinxModel.Basic.Index
/-! GENERATED by tools/extract/kernels.py (fallback: the extractor failed) -- do not edit. -/
namespace Einx.Extracted
def composePerm (perm1 perm2 : List Nat) : Option (List Nat) := none
def transposeMergeOperands : Bool := false
def reshapeMergeOperands : Bool := false
def reshapeNoop (shape inputShape : List Nat) : Bool := true
def transposeNoop (perm : List Nat) (inputNdim : Nat) : Bool := true
def broadcastNoop (shape inputShape : List Nat) : Bool := true
def concatNoop (nTensors : Nat) : Bool := true
def optimizerMemoFirst : Bool := false
def optimizerLoop : Bool := false
def numpyPatterns : List (String × String) := []
end Einx.Extracted
"""
