"""T-src for C03: what the source says about error classes, caret-position computation and internal-failure sites.

Read from the AST of the current EINX_REPO working tree (nothing is imported, so a broken import elsewhere cannot hide a fact):

* `errorClasses`     the class hierarchy of `einx/_src/frontend/errors.py` (name, bases, exported to `einx.errors`, and whether
                     `__init__` asserts `all(p >= 0 and p < len(<expression>) for p in self.pos)`), plus the names re-exported by
                     `einx/errors.py`;
* `indicatorMethods` for every `ExpressionIndicator.get_pos_for_*`: the node classes it selects, whether `None` roots are skipped,
                     whether positions are only taken from nodes with `begin_pos >= 0`, the expression handed to `pos.extend(...)`
                     (normalised with `ast.unparse`), and the text of its range `assert`; and the format of `create`;
* `assertSites`      inventory of `assert` statements and `raise <internal exception type>` statements in the modules on the public
                     call path: file, line, enclosing function, kind, normalised text.

Lean obligations (Props/C03.lean) pin the formulas the model of `ExpressionIndicator` was written against and require that every
site in the front-end part of the inventory is one of the reviewed sites (EinxModel/Errors/Sites.lean): an `assert` that is re-added
or changed on the call path breaks an obligation, which makes the check search harder (DESIGN.md 2.4).
"""
import ast
import os

from lib import core
from . import lean_str, lean_bool, parse as parse_ast, parse_text, find_class, find_func

ERRORS = "einx/_src/frontend/errors.py"
ERRORS_PUBLIC = "einx/errors.py"
UTIL = "einx/_src/namedtensor/util.py"

INTERNAL_TYPES = ["AssertionError", "NameError", "KeyError", "IndexError", "AttributeError", "RecursionError", "UnboundLocalError",
                  "NotImplementedError"]

# modules on the public call path of the numpy installation (framework adapters that cannot be imported here are left out)
SCOPE_DIRS = ["einx/_src/frontend", "einx/_src/namedtensor", "einx/_src/util", "einx/_src/tracer", "einx/_src/adapter/numpy"]
SCOPE_FILES_IN = "einx/_src/adapter"   # top-level files only


def scope_files():
    out = []
    for d in SCOPE_DIRS:
        root = os.path.join(core.REPO, d)
        for dp, _, fs in os.walk(root):
            for f in fs:
                if f.endswith(".py"):
                    out.append(os.path.relpath(os.path.join(dp, f), core.REPO))
    root = os.path.join(core.REPO, SCOPE_FILES_IN)
    if os.path.isdir(root):
        for f in os.listdir(root):
            if f.endswith(".py"):
                out.append(os.path.join(SCOPE_FILES_IN, f))
    return sorted(set(out))


def _unparse(node):
    return " ".join(ast.unparse(node).split())


def _base_name(b):
    if isinstance(b, ast.Name):
        return b.id
    if isinstance(b, ast.Attribute):
        return _unparse(b)
    return _unparse(b)


def _is_pos_assert(stmt):
    """`assert all(p >= 0 and p < len(X) for p in Y)` -> (X, Y) as text, else None."""
    if not isinstance(stmt, ast.Assert):
        return None
    t = stmt.test
    if not (isinstance(t, ast.Call) and isinstance(t.func, ast.Name) and t.func.id == "all" and len(t.args) == 1 and isinstance(t.args[0], ast.GeneratorExp)):
        return None
    g = t.args[0]
    if len(g.generators) != 1 or g.generators[0].ifs or not isinstance(g.generators[0].target, ast.Name):
        return None
    v = g.generators[0].target.id
    e = g.elt
    if not (isinstance(e, ast.BoolOp) and isinstance(e.op, ast.And) and len(e.values) == 2):
        return None
    lo, hi = e.values
    ok_lo = (isinstance(lo, ast.Compare) and isinstance(lo.left, ast.Name) and lo.left.id == v and len(lo.ops) == 1 and isinstance(lo.ops[0], ast.GtE)
             and isinstance(lo.comparators[0], ast.Constant) and lo.comparators[0].value == 0)
    ok_hi = (isinstance(hi, ast.Compare) and isinstance(hi.left, ast.Name) and hi.left.id == v and len(hi.ops) == 1 and isinstance(hi.ops[0], ast.Lt)
             and isinstance(hi.comparators[0], ast.Call) and isinstance(hi.comparators[0].func, ast.Name) and hi.comparators[0].func.id == "len"
             and len(hi.comparators[0].args) == 1)
    if not (ok_lo and ok_hi):
        return None
    return _unparse(hi.comparators[0].args[0]), _unparse(g.generators[0].iter)


def error_classes():
    tree = parse_ast(ERRORS)
    out = []
    for n in tree.body:
        if isinstance(n, ast.ClassDef):
            exported = any(isinstance(d, ast.Name) and d.id == "export" for d in n.decorator_list)
            init = None
            for m in n.body:
                if isinstance(m, ast.FunctionDef) and m.name == "__init__":
                    init = m
            pos_assert = ""
            if init is not None:
                for s in ast.walk(init):
                    r = _is_pos_assert(s)
                    if r is not None:
                        pos_assert = f"{r[1]} < len({r[0]})"
            out.append({"name": n.name, "bases": [_base_name(b) for b in n.bases], "exported": exported, "posAssert": pos_assert, "line": n.lineno})
    return out


def public_names():
    """Names bound by `from einx._src.frontend.errors import X` in einx/errors.py."""
    tree = parse_ast(ERRORS_PUBLIC)
    out = []
    for n in tree.body:
        if isinstance(n, ast.ImportFrom) and n.module == "einx._src.frontend.errors":
            for a in n.names:
                out.append(a.asname or a.name)
    return out


def _node_classes(test):
    """Class names of `isinstance(expr, A | B | C)`."""
    if isinstance(test, ast.Call) and isinstance(test.func, ast.Name) and test.func.id == "isinstance" and len(test.args) == 2:
        names = []

        def go(t):
            if isinstance(t, ast.BinOp) and isinstance(t.op, ast.BitOr):
                go(t.left)
                go(t.right)
            elif isinstance(t, ast.Tuple):
                for e in t.elts:
                    go(e)
            else:
                names.append(_unparse(t))
        go(test.args[1])
        return names
    return None


def indicator_methods():
    """One record per `get_pos_for_*` method.  Any construct outside the expected shapes gives the marker '?' in the record,
    under which the obligation `indicator_formulas_are_the_models` fails (conservative)."""
    tree = parse_ast(UTIL)
    cls = find_class(tree, "ExpressionIndicator")
    if cls is None:
        return None, None
    recs = []
    create_fmt = "?"
    for m in cls.body:
        if not isinstance(m, ast.FunctionDef):
            continue
        if m.name == "create":
            rets = [s for s in ast.walk(m) if isinstance(s, ast.Return)]
            create_fmt = _unparse(rets[0].value) if len(rets) == 1 and rets[0].value is not None else "?"
            continue
        if not m.name.startswith("get_pos_for_"):
            continue
        rec = {"name": m.name, "classes": [], "skipsNone": False, "guardNonNeg": False, "extend": [], "assertOn": "?", "nameFilter": False, "nodes": False}
        for s in ast.walk(m):
            r = _is_pos_assert(s)
            if r is not None:
                rec["assertOn"] = f"{r[1]} < len({r[0]})"
            if isinstance(s, ast.If):
                t = s.test
                # `expr is not None`
                if isinstance(t, ast.Compare) and len(t.ops) == 1 and isinstance(t.ops[0], ast.IsNot) and isinstance(t.comparators[0], ast.Constant) and t.comparators[0].value is None:
                    rec["skipsNone"] = True
                # `expr.begin_pos >= 0`
                if (isinstance(t, ast.Compare) and len(t.ops) == 1 and isinstance(t.ops[0], ast.GtE) and _unparse(t.left) == "expr.begin_pos"
                        and isinstance(t.comparators[0], ast.Constant) and t.comparators[0].value == 0):
                    rec["guardNonNeg"] = True
                tests = [t]
                if isinstance(t, ast.BoolOp) and isinstance(t.op, ast.And):
                    tests = list(t.values)
                for tt in tests:
                    c = _node_classes(tt)
                    if c is not None and _unparse(tt.args[0]) == "expr" and "tuple" not in c:
                        rec["classes"] = c
                    if isinstance(tt, ast.Compare) and _unparse(tt) == "expr.name in axisnames":
                        rec["nameFilter"] = True
            if isinstance(s, ast.For) and _unparse(s.iter) == "expr.nodes()":
                rec["nodes"] = True
            if isinstance(s, ast.Call) and isinstance(s.func, ast.Attribute) and s.func.attr == "extend" and _unparse(s.func.value) == "pos" and len(s.args) == 1:
                rec["extend"].append(_unparse(s.args[0]))
        recs.append(rec)
    return recs, create_fmt


class _SiteVisitor(ast.NodeVisitor):
    def __init__(self, relfile):
        self.relfile = relfile
        self.stack = []
        self.sites = []

    def _func(self):
        return ".".join(self.stack) if self.stack else "<module>"

    def visit_FunctionDef(self, node):
        self.stack.append(node.name)
        self.generic_visit(node)
        self.stack.pop()

    visit_AsyncFunctionDef = visit_FunctionDef

    def visit_ClassDef(self, node):
        self.stack.append(node.name)
        self.generic_visit(node)
        self.stack.pop()

    def visit_Assert(self, node):
        self.sites.append({"file": self.relfile, "line": node.lineno, "func": self._func(), "kind": "assert", "text": _unparse(node.test)})
        self.generic_visit(node)

    def visit_Raise(self, node):
        e = node.exc
        name = None
        if isinstance(e, ast.Call):
            e = e.func
        if isinstance(e, ast.Name):
            name = e.id
        elif isinstance(e, ast.Attribute):
            name = e.attr
        if name in INTERNAL_TYPES:
            self.sites.append({"file": self.relfile, "line": node.lineno, "func": self._func(), "kind": "raise " + name,
                               "text": _unparse(node.exc)[:120]})
        self.generic_visit(node)


def assert_sites():
    out = []
    for rel in scope_files():
        with open(os.path.join(core.REPO, rel)) as f:
            src = f.read()
        try:
            tree = parse_text(src, rel)
        except SyntaxError:
            out.append({"file": rel, "line": 0, "func": "<unparsable>", "kind": "assert", "text": "?"})
            continue
        v = _SiteVisitor(rel[len("einx/_src/"):] if rel.startswith("einx/_src/") else rel)
        v.visit(tree)
        out.extend(v.sites)
    return out


def render(classes, public, methods, create_fmt, sites):
    sl = lambda xs: "[" + ", ".join(lean_str(x) for x in xs) + "]"
    L = ["/-! GENERATED by tools/extract/errors.py from /repo -- do not edit. -/", "namespace Einx.Extracted", ""]
    L.append("structure ErrorClass where\n  name : String\n  bases : List String\n  exported : Bool\n  /-- `Y < len(X)` of `assert all(p >= 0 and p < len(X) for p in Y)` in `__init__`, or \"\" -/\n  posAssert : String\nderiving Repr, DecidableEq")
    L.append("")
    L.append("/-- Classes of `einx/_src/frontend/errors.py`, in source order. -/")
    L.append("def errorClasses : List ErrorClass := [")
    L.append(",\n".join(f"  ⟨{lean_str(c['name'])}, {sl(c['bases'])}, {lean_bool(c['exported'])}, {lean_str(c['posAssert'])}⟩" for c in classes))
    L.append("]")
    L.append("/-- Names that `einx/errors.py` re-exports. -/")
    L.append(f"def errorsPublic : List String := {sl(public)}")
    L.append("")
    L.append("structure IndicatorMethod where\n  name : String\n  /-- classes of the `isinstance(expr, …)` selection; empty: the roots themselves -/\n  classes : List String\n"
             "  nodes : Bool\n  skipsNone : Bool\n  guardNonNeg : Bool\n  nameFilter : Bool\n  /-- arguments of `pos.extend(…)` -/\n  extend : List String\n"
             "  /-- `Y < len(X)` of the range assert -/\n  assertOn : String\nderiving Repr, DecidableEq")
    L.append("")
    L.append("/-- `ExpressionIndicator.get_pos_for_*` of `einx/_src/namedtensor/util.py`, in source order. -/")
    L.append("def indicatorMethods : List IndicatorMethod := [")
    L.append(",\n".join(
        f"  ⟨{lean_str(m['name'])}, {sl(m['classes'])}, {lean_bool(m['nodes'])}, {lean_bool(m['skipsNone'])}, {lean_bool(m['guardNonNeg'])}, "
        f"{lean_bool(m['nameFilter'])}, {sl(m['extend'])}, {lean_str(m['assertOn'])}⟩" for m in methods))
    L.append("]")
    L.append("/-- The `return` expression of `ExpressionIndicator.create`. -/")
    L.append(f"def indicatorCreate : String := {lean_str(create_fmt)}")
    L.append("")
    L.append("structure Site where\n  file : String\n  func : String\n  kind : String\n  text : String\n  line : Nat\nderiving Repr, DecidableEq")
    L.append("")
    L.append("/-- `assert` statements and `raise <internal type>` statements of the modules on the public call path. -/")
    L.append("def assertSites : List Site := [")
    L.append(",\n".join(f"  ⟨{lean_str(s['file'])}, {lean_str(s['func'])}, {lean_str(s['kind'])}, {lean_str(s['text'])}, {s['line']}⟩" for s in sites))
    L.append("]")
    L += ["", "end Einx.Extracted", ""]
    return "\n".join(L)


def fallback():
    # conservative: no classes (hierarchy obligations fail), no indicator methods (formula obligation fails), and one
    # unreviewed site (site obligation fails)
    return render([], [], [], "?", [{"file": "?", "line": 0, "func": "?", "kind": "assert", "text": "?"}])


def extract():
    lost = []
    classes = error_classes()
    if not classes:
        lost.append(("errors:classes", f"no class definitions found in {ERRORS}"))
    try:
        public = public_names()
    except OSError:
        public = []
        lost.append(("errors:public", f"{ERRORS_PUBLIC} not found"))
    methods, create_fmt = indicator_methods()
    if methods is None:
        lost.append(("errors:ExpressionIndicator", f"class ExpressionIndicator not found in {UTIL}"))
        methods, create_fmt = [], "?"
    sites = assert_sites()
    text = render(classes, public, methods, create_fmt, sites)
    facts = {"classes": classes, "public": public, "indicator": methods, "create": create_fmt, "n_sites": len(sites),
             "sites_by_file": {f: sum(1 for s in sites if s["file"] == f) for f in sorted({s["file"] for s in sites})}}
    return text, facts, lost
