"""Structural facts behind the compiled-function cache (C06).

* the `isinstance` dispatch table of `einx/_src/util/lru_cache.py:_freeze_value` (order of branches, tested
  types, what each branch returns), rendered as `Einx.Extracted.freezeTable` which the model's `freeze`
  interprets;
* `_freeze_args` freezes every positional and keyword value and `lru_cache` applies it outermost;
* the `__enter__` / `__exit__` methods of `Use` (`frontend/backend.py`) and `DependOn` (`tracer/graph.py`), and
  that `_construct_graph` enters `depend_on` through a `with` statement;
* whether `ConvertibleTensor.__eq__` compares the raw or the frozen `concrete`.

A construct the extractor does not recognise becomes `Action.unknown` / `false` – the value under which the
dependent obligations of Props/C06.lean fail.
"""
import ast
from . import parse, find_class, find_func, lean_bool

LRU = "einx/_src/util/lru_cache.py"
TENSOR = "einx/_src/tracer/signature/classical/tensor.py"
BACKEND = "einx/_src/frontend/backend.py"
GRAPH = "einx/_src/tracer/graph.py"
API = "einx/_src/frontend/api.py"

TYPE_TAGS = {
    "np.ndarray": "ndarray", "numpy.ndarray": "ndarray", "list": "list", "tuple": "tuple", "dict": "dict",
    "types.SimpleNamespace": "namespace", "SimpleNamespace": "namespace", "inspect.Parameter": "parameter",
    "bool": "bool", "int": "int", "float": "float", "complex": "complex", "str": "str",
    "np.generic": "npGeneric", "np.number": "npNumber", "np.integer": "npInteger", "np.floating": "npFloating",
    "np.bool_": "npBool", "np.bool": "npBool",
}


def _dotted(n):
    if isinstance(n, ast.Name):
        return n.id
    if isinstance(n, ast.Attribute):
        b = _dotted(n.value)
        return None if b is None else f"{b}.{n.attr}"
    return None


def _types_of(node):
    """Type expression of an isinstance test: `A`, `A | B | C`, `(A, B)` -> list of tags."""
    if isinstance(node, ast.BinOp) and isinstance(node.op, ast.BitOr):
        return _types_of(node.left) + _types_of(node.right)
    if isinstance(node, ast.Tuple):
        out = []
        for e in node.elts:
            out += _types_of(e)
        return out
    d = _dotted(node)
    return [TYPE_TAGS.get(d, "unknown")]


def _is_x(n, var):
    return isinstance(n, ast.Name) and n.id == var


def _is_self_call(n, fname):
    return isinstance(n, ast.Call) and isinstance(n.func, ast.Name) and n.func.id == fname and len(n.args) == 1 and not n.keywords


def typed_wrapper_classes(tree):
    """Module-level classes that wrap one value and compare / hash it together with its type:
    `__eq__` tests `type(self.value) is type(other.value) and self.value == other.value`, `__hash__` is
    `hash((type(self.value), self.value))`.  As a cache key such a wrapper behaves like the tuple `(type(x), x)`."""
    out = set()
    for n in tree.body:
        if isinstance(n, ast.ClassDef):
            eq = find_func(n, "__eq__")
            h = find_func(n, "__hash__")
            if eq is None or h is None:
                continue
            e, hh = ast.unparse(eq), ast.unparse(h)
            if ("type(self.value) is type(other.value)" in e and "self.value == other.value" in e and f"isinstance(other, {n.name})" in e
                    and "return hash((type(self.value), self.value))" in hh):
                out.add(n.name)
    return out


_WRAPPERS = set()


def classify_return(expr, var, fname):
    """Which Action a `return <expr>` of _freeze_value is."""
    if _is_x(expr, var):
        return "ident"
    # _Scalar(x): a typed wrapper, equivalent to (type(x), x) as a key
    if isinstance(expr, ast.Call) and isinstance(expr.func, ast.Name) and expr.func.id in _WRAPPERS and len(expr.args) == 1 and not expr.keywords and _is_x(expr.args[0], var):
        return "tagType"
    # (type(x), x)
    if isinstance(expr, ast.Tuple) and len(expr.elts) == 2:
        a, b = expr.elts
        if (isinstance(a, ast.Call) and isinstance(a.func, ast.Name) and a.func.id == "type" and len(a.args) == 1 and _is_x(a.args[0], var)
                and _is_x(b, var)):
            return "tagType"
    if _is_self_call(expr, fname):
        arg = expr.args[0]
        # _freeze_value(x.tolist())
        if (isinstance(arg, ast.Call) and isinstance(arg.func, ast.Attribute) and arg.func.attr == "tolist" and _is_x(arg.func.value, var)
                and not arg.args and not arg.keywords):
            return "tolist"
        # _freeze_value(vars(x))
        if isinstance(arg, ast.Call) and isinstance(arg.func, ast.Name) and arg.func.id == "vars" and len(arg.args) == 1 and _is_x(arg.args[0], var):
            return "vars"
        # _freeze_value((x.name, x.default, x.annotation, x.kind))
        if isinstance(arg, ast.Tuple):
            names = [e.attr if isinstance(e, ast.Attribute) and _is_x(e.value, var) else None for e in arg.elts]
            if names == ["name", "default", "annotation", "kind"]:
                return "fields"
        return "unknown"
    # tuple(_freeze_value(x) for x in x)
    if isinstance(expr, ast.Call) and isinstance(expr.func, ast.Name) and expr.func.id == "tuple" and len(expr.args) == 1:
        g = expr.args[0]
        if isinstance(g, ast.GeneratorExp) and len(g.generators) == 1 and not g.generators[0].ifs:
            gen = g.generators[0]
            if isinstance(gen.target, ast.Name) and _is_x(gen.iter, var) and _is_self_call(g.elt, fname) and _is_x(g.elt.args[0], gen.target.id):
                return "mapTuple"
    # frozendict.frozendict({k: _freeze_value(v) for k, v in x.items()})
    if isinstance(expr, ast.Call) and _dotted(expr.func) in ("frozendict.frozendict", "frozendict") and len(expr.args) == 1:
        d = expr.args[0]
        if isinstance(d, ast.DictComp) and len(d.generators) == 1 and not d.generators[0].ifs:
            gen = d.generators[0]
            it = gen.iter
            if (isinstance(gen.target, ast.Tuple) and len(gen.target.elts) == 2 and all(isinstance(e, ast.Name) for e in gen.target.elts)
                    and isinstance(it, ast.Call) and isinstance(it.func, ast.Attribute) and it.func.attr == "items" and _is_x(it.func.value, var)):
                k, v = (e.id for e in gen.target.elts)
                if _is_x(d.key, k) and _is_self_call(d.value, fname) and _is_x(d.value.args[0], v):
                    return "mapDict"
    return "unknown"


def freeze_table(tree):
    """([(tags, action)], fallthrough, problems) from the if/elif chain of _freeze_value."""
    fn = find_func(tree, "_freeze_value")
    if fn is None:
        return None, None, ["_freeze_value not found"]
    _WRAPPERS.clear()
    _WRAPPERS.update(typed_wrapper_classes(tree))
    var = fn.args.args[0].arg
    body = [s for s in fn.body if not (isinstance(s, ast.Expr) and isinstance(s.value, ast.Constant))]
    rows = []
    problems = []

    def single_return(stmts):
        if len(stmts) == 1 and isinstance(stmts[0], ast.Return) and stmts[0].value is not None:
            return stmts[0].value
        return None

    def walk(stmts):
        """Returns the fall-through action of this statement list (None if it cannot be determined)."""
        if not stmts:
            return None
        s = stmts[0]
        if isinstance(s, ast.If):
            t = s.test
            tags = ["unknown"]
            if (isinstance(t, ast.Call) and isinstance(t.func, ast.Name) and t.func.id == "isinstance" and len(t.args) == 2
                    and _is_x(t.args[0], var)):
                tags = _types_of(t.args[1])
            else:
                problems.append(f"line {s.lineno}: test is not isinstance({var}, T)")
            r = single_return(s.body)
            act = classify_return(r, var, fn.name) if r is not None else "unknown"
            if act == "unknown":
                problems.append(f"line {s.lineno}: unrecognised branch body")
            if "unknown" in tags:
                problems.append(f"line {s.lineno}: unrecognised type in isinstance test")
            rows.append((tags, act))
            if s.orelse:
                if len(stmts) > 1:
                    problems.append(f"line {s.lineno}: statements after an if/else")
                return walk(s.orelse)
            return walk(stmts[1:])
        r = single_return(stmts)
        if r is not None:
            return classify_return(r, var, fn.name)
        problems.append(f"line {s.lineno}: unrecognised statement")
        return "unknown"

    fall = walk(body)
    if fall is None:
        fall = "unknown"
        problems.append("no fall-through return")
    return rows, fall, problems


def freeze_args_ok(tree):
    """_freeze_args freezes every positional and keyword value; lru_cache applies _freeze_args last (outermost)."""
    fa = find_func(tree, "_freeze_args")
    lc = find_func(tree, "lru_cache")
    if fa is None or lc is None:
        return False
    inner = find_func(fa, "func_frozen")
    if inner is None:
        return False
    src = ast.unparse(inner)
    ok1 = "[_freeze_value(a) for a in args]" in src and "{k: _freeze_value(v) for k, v in kwargs.items()}" in src
    # last assignment to func before the return is `func = _freeze_args(func)`
    assigns = [s for s in lc.body if isinstance(s, ast.Assign)]
    ok2 = bool(assigns) and ast.unparse(assigns[-1]) == "func = _freeze_args(func)"
    # the memo in between is functools.cache / functools.lru_cache (exceptions are not stored by either)
    ok3 = "functools.cache(func)" in ast.unparse(lc) or "functools.lru_cache(" in ast.unparse(lc)
    # typed wrappers in the key must be removed again before the wrapped function sees the values
    ok4 = True
    if _WRAPPERS:
        names = [ast.unparse(s) for s in lc.body if isinstance(s, ast.Assign)]
        unwrap = [i for i, t in enumerate(names) if t.startswith("func = _unfreeze")]
        ok4 = bool(unwrap) and unwrap[0] == 1 and all(w in ast.unparse(tree) for w in ("isinstance(x, " + next(iter(_WRAPPERS)) + ")", "return x.value"))
    return ok1 and ok2 and ok3 and ok4


def _exit_facts(cls, call_pred):
    """(unconditional, returns_falsy) for the __exit__ of a context-manager class: its body is exactly one
    expression statement satisfying call_pred (so it runs on every path and returns None)."""
    if cls is None:
        return False, False
    ex = find_func(cls, "__exit__")
    if ex is None:
        return False, False
    body = [s for s in ex.body if not (isinstance(s, ast.Expr) and isinstance(s.value, ast.Constant))]
    uncond = len(body) >= 1 and isinstance(body[0], ast.Expr) and call_pred(body[0].value)
    falsy = not any(isinstance(n, ast.Return) and n.value is not None for n in ast.walk(ex))
    return uncond, falsy


def stack_facts():
    b = parse(BACKEND)
    g = parse(GRAPH)
    a = parse(API)
    use = find_class(b, "Use")
    dep = find_class(g, "DependOn")

    def is_registry_exit(e):
        return isinstance(e, ast.Call) and _dotted(e.func) == "self.registry.exit"

    def is_stack_pop(e):
        return isinstance(e, ast.Call) and _dotted(e.func) == "_dependon.stack.pop" and not e.args

    u1, u2 = _exit_facts(use, is_registry_exit)
    d1, d2 = _exit_facts(dep, is_stack_pop)
    # Backend.__exit__ / InvalidBackend.__exit__ delegate to Use(...).__exit__(*args)
    for cname in ("Backend", "InvalidBackend"):
        c = find_class(b, cname)
        ex = find_func(c, "__exit__") if c is not None else None
        if ex is None or "Use(self, registry).__exit__(*args)" not in ast.unparse(ex):
            u1 = False
    # registry state: _enter appends, _exit pops
    st = find_class(b, "BackendRegistryState")
    en = find_func(st, "_enter") if st is not None else None
    exi = find_func(st, "_exit") if st is not None else None
    if en is None or "self.use_stack.append(backend)" not in ast.unparse(en):
        u1 = False
    if exi is None or "self.use_stack.pop()" not in ast.unparse(exi):
        u1 = False
    den = find_func(dep, "__enter__") if dep is not None else None
    if den is None or "_dependon.stack.append(self.dependencies)" not in ast.unparse(den):
        d1 = False
    # _construct_graph: the traced function is called inside `with tracer.depend_on(...)`
    cg = find_func(a, "_construct_graph")
    inside = False
    if cg is not None:
        for n in ast.walk(cg):
            if isinstance(n, ast.With) and any(isinstance(i.context_expr, ast.Call) and _dotted(i.context_expr.func) == "tracer.depend_on" for i in n.items):
                inside = any(isinstance(m, ast.Call) and isinstance(m.func, ast.Name) and m.func.id == "func" for s in n.body for m in ast.walk(s))
    # nobody else touches the stacks
    for tree, needle, allowed in ((b, "use_stack", {"__init__", "_enter", "_exit", "_get"}), (g, "_dependon", {"__enter__", "__exit__", "get_additional_dependencies"})):
        for fn in [n for n in ast.walk(tree) if isinstance(n, ast.FunctionDef)]:
            if fn.name in allowed:
                continue
            own = [n for n in ast.walk(fn) if isinstance(n, (ast.Attribute, ast.Name)) and (getattr(n, "attr", None) == needle or getattr(n, "id", None) == needle)]
            inner_fns = [m for m in ast.walk(fn) if isinstance(m, ast.FunctionDef) and m is not fn]
            if own and not inner_fns:
                if needle == "use_stack":
                    u1 = False
                else:
                    d1 = False
    return {"useExitUnconditional": u1, "depExitUnconditional": d1, "useExitReturnsFalsy": u2, "depExitReturnsFalsy": d2, "traceInsideWith": inside}


def conv_eq_mode():
    t = parse(TENSOR)
    c = find_class(t, "ConvertibleTensor")
    eq = find_func(c, "__eq__") if c is not None else None
    if eq is None:
        return "unknown"
    src = ast.unparse(eq)
    if "_freeze_value(self.concrete) == _freeze_value(other.concrete)" in src:
        return "frozen"
    if "self.concrete == other.concrete" in src:
        return "raw"
    return "unknown"


def hash_forms():
    t = parse(TENSOR)
    out = {}
    for cname, want in (("Tensor", "return 1 + hash(self.shape)"), ("ConvertibleTensor", "return hash(self.shape) + hash(_freeze_value(self.concrete))")):
        c = find_class(t, cname)
        h = find_func(c, "__hash__") if c is not None else None
        out[cname] = h is not None and want in ast.unparse(h)
    return out


def render(rows, fall, stack, conv_mode, freeze_args):
    def row(tags, act):
        return "⟨[" + ", ".join(f".{t}" for t in tags) + f"], .{act}⟩"
    lines = ["import EinxModel.Cache.Freeze", "import EinxModel.Cache.Stack",
             "/-! GENERATED by tools/extract/cache.py from /repo -- do not edit. -/", "namespace Einx.Extracted", "open Einx.Cache", ""]
    lines.append("/-- The `isinstance` dispatch table of `_freeze_value`, in source order. -/")
    lines.append("def freezeTable : Table :=")
    lines.append("  { rows := [" + ",\n             ".join(row(t, a) for t, a in rows) + "],")
    lines.append(f"    fallthrough := .{fall} }}")
    lines.append("")
    lines.append("/-- `_freeze_args` freezes every value and `lru_cache` applies it outermost around `functools.cache`. -/")
    lines.append(f"def freezeArgsOutermost : Bool := {lean_bool(freeze_args)}")
    lines.append("")
    lines.append("def stackCfg : StackCfg :=")
    lines.append("  { " + ", ".join(f"{k} := {lean_bool(v)}" for k, v in stack.items()) + " }")
    lines.append("")
    lines.append("/-- Does `ConvertibleTensor.__eq__` compare `_freeze_value(concrete)` (true) or the raw `concrete` (false)? -/")
    lines.append(f"def convEqFrozen : Bool := {lean_bool(conv_mode == 'frozen')}")
    lines += ["", "end Einx.Extracted", ""]
    return "\n".join(lines)


STACK_FALSE = {"useExitUnconditional": False, "depExitUnconditional": False, "useExitReturnsFalsy": False, "depExitReturnsFalsy": False, "traceInsideWith": False}


def fallback():
    return render([(["unknown"], "unknown")], "unknown", STACK_FALSE, "unknown", False)


def extract():
    lost = []
    tree = parse(LRU)
    rows, fall, problems = freeze_table(tree)
    if rows is None:
        rows, fall = [(["unknown"], "unknown")], "unknown"
    for p in problems:
        lost.append(("cache:_freeze_value", p))
    fa = freeze_args_ok(tree)
    if not fa:
        lost.append(("cache:lru_cache", "_freeze_args / lru_cache no longer have the recognised form (freeze everything, outermost, around functools.cache)"))
    try:
        stack = stack_facts()
    except Exception as e:
        stack = dict(STACK_FALSE)
        lost.append(("cache:stacks", repr(e)))
    mode = conv_eq_mode()
    if mode == "unknown":
        lost.append(("cache:ConvertibleTensor.__eq__", "unrecognised comparison of `concrete`"))
    hf = hash_forms()
    for k, v in hf.items():
        if not v:
            lost.append((f"cache:{k}.__hash__", "hash no longer has the modelled form"))
    facts = {"rows": [[t, a] for t, a in rows], "fallthrough": fall, "freezeArgsOutermost": fa, "stack": stack, "convEq": mode, "hashForms": hf}
    return render(rows, fall, stack, mode, fa), facts, lost
