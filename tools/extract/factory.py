"""Structural facts of the tensor-factory path (C13), read from the AST of
  einx/_src/adapter/namedtensor_calltensorfactory.py   (_call_tensorfactory, _assert_output, inner, ops)
  einx/_src/adapter/einx_from_namedtensor.py           (_cast_shape)
  einx/_src/tracer/signature/python.py                 (call attaches the depend_on stack)
  einx/_src/frontend/api.py                            (_to_tracer, _construct_graph, inner)

The Lean model (EinxModel/Factory/Model.lean) is parameterised by these values: which optional keywords
exist, under which condition each is passed, what the positional arguments of the traced call are, which
assertions guard the result and in which order.  A lost anchor produces the conservative value (keyword
passed unconditionally, no assertion, unknown argument), under which the obligations of Props/C13.lean fail.
"""
import ast
from . import parse, find_class, find_func, lean_bool, lean_str

F_FACTORY = "einx/_src/adapter/namedtensor_calltensorfactory.py"
F_EFN = "einx/_src/adapter/einx_from_namedtensor.py"
F_PY = "einx/_src/tracer/signature/python.py"
F_API = "einx/_src/frontend/api.py"


def _u(node):
    return ast.unparse(node)


def _dict_str_keys(node):
    """Keys of a dict literal whose keys are all string constants, else None."""
    if isinstance(node, ast.Dict) and all(isinstance(k, ast.Constant) and isinstance(k.value, str) for k in node.keys):
        return [k.value for k in node.keys]
    return None


def _attr_tail(node):
    """Last attribute name of a dotted expression (a.b.c -> 'c'), or the Name id."""
    if isinstance(node, ast.Attribute):
        return node.attr
    if isinstance(node, ast.Name):
        return node.id
    return None


def _kind_names(node):
    """[inspect.Parameter.X, ...] -> ['X', ...] or None."""
    if isinstance(node, (ast.List, ast.Tuple)) and all(isinstance(e, ast.Attribute) for e in node.elts):
        return [e.attr for e in node.elts]
    return None


def x_call_tensorfactory(tree, lost):
    """has_var_kwargs kinds, the use_parameter rule, the kwargs filter, the positional args of the traced call,
    where the shape comes from, and the condition under which a value is treated as a factory."""
    out = {"varKwKinds": [], "varKwDisjunct": False, "requiresDeclared": False, "declaredKinds": [], "filtered": False,
           "callArgs": ["?"], "shapeSource": "?", "condition": [], "callOnlyInsideCondition": False}
    fn = find_func(tree, "_call_tensorfactory")
    if fn is None:
        lost.append(("factory:_call_tensorfactory", "function not found"))
        return out
    # --- has_var_kwargs = any(param.kind in [K...] for param in tensor.concrete.parameters.values())
    hv = None
    for n in ast.walk(fn):
        if isinstance(n, ast.Assign) and len(n.targets) == 1 and isinstance(n.targets[0], ast.Name) and n.targets[0].id == "has_var_kwargs":
            hv = n.value
    ok = False
    if isinstance(hv, ast.Call) and _attr_tail(hv.func) == "any" and len(hv.args) == 1 and isinstance(hv.args[0], ast.GeneratorExp):
        g = hv.args[0]
        if (isinstance(g.elt, ast.Compare) and len(g.elt.ops) == 1 and isinstance(g.elt.ops[0], ast.In) and _u(g.elt.left).endswith(".kind")
                and len(g.generators) == 1 and not g.generators[0].ifs and _u(g.generators[0].iter) == "tensor.concrete.parameters.values()"):
            ks = _kind_names(g.elt.comparators[0])
            if ks is not None:
                out["varKwKinds"] = ks
                ok = True
    if not ok:
        lost.append(("factory:has_var_kwargs", f"unexpected definition: {_u(hv) if hv is not None else None}"))
    # --- def use_parameter(name): return has_var_kwargs or (name in P and P[name].kind in [K...])
    up = find_func(fn, "use_parameter")
    ok = False
    if up is not None and len(up.body) == 1 and isinstance(up.body[0], ast.Return) and [a.arg for a in up.args.args] == ["name"]:
        e = up.body[0].value
        if isinstance(e, ast.BoolOp) and isinstance(e.op, ast.Or) and len(e.values) == 2 and _u(e.values[0]) == "has_var_kwargs":
            c = e.values[1]
            if isinstance(c, ast.BoolOp) and isinstance(c.op, ast.And) and len(c.values) == 2 and _u(c.values[0]) == "name in tensor.concrete.parameters":
                k = c.values[1]
                if (isinstance(k, ast.Compare) and len(k.ops) == 1 and isinstance(k.ops[0], ast.In)
                        and _u(k.left) == "tensor.concrete.parameters[name].kind"):
                    ks = _kind_names(k.comparators[0])
                    if ks is not None:
                        out["varKwDisjunct"], out["requiresDeclared"], out["declaredKinds"] = True, True, ks
                        ok = True
    if not ok:
        lost.append(("factory:use_parameter", "rule is not `has_var_kwargs or (name in parameters and parameters[name].kind in [...])`"))
    # --- kwargs = {name: value for name, value in kwargs.items() if use_parameter(name)}
    ok = False
    for n in ast.walk(fn):
        if isinstance(n, ast.Assign) and len(n.targets) == 1 and _u(n.targets[0]) == "kwargs" and isinstance(n.value, ast.DictComp):
            d = n.value
            if (_u(d.key) == "name" and _u(d.value) == "value" and len(d.generators) == 1 and _u(d.generators[0].iter) == "kwargs.items()"
                    and [_u(i) for i in d.generators[0].ifs] == ["use_parameter(name)"]):
                ok = True
    out["filtered"] = ok
    if not ok:
        lost.append(("factory:kwargs-filter", "kwargs are not filtered by `use_parameter(name)` in a dict comprehension"))
    # --- the traced call(s): exactly one, tracer.signature.python.call(tensor, args=[shape], kwargs=kwargs), inside the `if`
    calls = [n for n in ast.walk(fn) if isinstance(n, ast.Call) and _u(n.func).endswith("python.call")]
    top_if = [s for s in fn.body if isinstance(s, ast.If)]
    ok = False
    if len(calls) == 1 and len(top_if) == 1:
        c = calls[0]
        kws = {k.arg: k.value for k in c.keywords}
        inside = any(c is n for s in top_if[0].body for n in ast.walk(s))
        out["callOnlyInsideCondition"] = inside
        if len(c.args) == 1 and _u(c.args[0]) == "tensor" and set(kws) == {"args", "kwargs"} and isinstance(kws["args"], ast.List) and _u(kws["kwargs"]) == "kwargs":
            names = [_u(a) for a in kws["args"].elts]
            out["callArgs"] = names
            ok = inside
            # shape = tuple(tensor.shape)
            for n in ast.walk(fn):
                if isinstance(n, ast.Assign) and len(n.targets) == 1 and _u(n.targets[0]) == "shape":
                    v = n.value
                    if isinstance(v, ast.Call) and _u(v.func) == "tuple" and len(v.args) == 1:
                        out["shapeSource"] = _u(v.args[0])
        # condition
        t = top_if[0].test
        conds = []
        if isinstance(t, ast.BoolOp) and isinstance(t.op, ast.And):
            for v in t.values:
                if isinstance(v, ast.Call) and _u(v.func) in ("isinstance", "issubclass") and len(v.args) == 2:
                    conds.append(f"{_u(v.func)}:{_u(v.args[0])}:{_attr_tail(v.args[1])}")
                else:
                    conds.append("?" + _u(v))
        out["condition"] = conds
    if not ok:
        lost.append(("factory:traced-call", "expected exactly one `python.call(tensor, args=[...], kwargs=kwargs)` inside the factory condition"))
    # no other call of `tensor(...)` / evaluation of the factory while tracing
    for n in ast.walk(fn):
        if isinstance(n, ast.Call) and isinstance(n.func, ast.Name) and n.func.id == "tensor":
            lost.append(("factory:direct-call", "the factory value is called directly while tracing"))
    return out


def x_assert_output(tree, lost):
    """Sequence of `assert_` calls under `if called:` and the final cast."""
    out = {"asserts": [], "guarded": False, "cast": False, "castShape": "?"}
    fn = find_func(tree, "_assert_output")
    if fn is None:
        lost.append(("factory:_assert_output", "function not found"))
        return out
    ifs = [s for s in fn.body if isinstance(s, ast.If) and _u(s.test) == "called"]
    if len(ifs) != 1:
        lost.append(("factory:_assert_output", "no single `if called:` block"))
        return out
    out["guarded"] = True
    seq = []
    for s in ifs[0].body:
        if isinstance(s, ast.Assign) and _u(s.targets[0]) == "tensor" and isinstance(s.value, ast.Call):
            c = s.value
            f = _u(c.func)
            if f.endswith("python.assert_") and len(c.args) >= 2 and _u(c.args[0]) == "tensor":
                cond = c.args[1]
                cu = _u(cond)
                if isinstance(cond, ast.Call) and _u(cond.func).endswith("builtins.isinstance") and [_u(a) for a in cond.args] == ["tensor", "expected_type"]:
                    seq.append("isinstance")
                elif (isinstance(cond, ast.Call) and _u(cond.func).endswith("python.equal") and len(cond.args) == 2
                      and isinstance(cond.args[0], ast.Call) and _u(cond.args[0].func).endswith("builtins.tuple") and [_u(a) for a in cond.args[0].args] == ["tensor.shape"]
                      and _u(cond.args[1]) == "expr.shape"):
                    seq.append("shape_eq")
                else:
                    seq.append("?" + cu)
            elif f.endswith("tracer.cast") and len(c.args) == 2 and _u(c.args[0]) == "tensor":
                lam = c.args[1]
                if isinstance(lam, ast.Lambda) and isinstance(lam.body, ast.Call) and _attr_tail(lam.body.func) == "Tensor":
                    kws = {k.arg: _u(k.value) for k in lam.body.keywords}
                    out["cast"] = True
                    out["castShape"] = kws.get("shape", "?")
                    seq.append("cast")
    # the cast must come last
    if "cast" in seq:
        if seq[-1] != "cast":
            lost.append(("factory:_assert_output", "cast is not the last step"))
            out["cast"] = False
        seq = [s for s in seq if s != "cast"]
    out["asserts"] = seq
    if any(s.startswith("?") for s in seq):
        lost.append(("factory:_assert_output", f"unknown assertion {seq}"))
    return out


def x_inner(tree, lost):
    """Keywords offered per call, keywords added by `ops`, order calls-before-asserts-before-op."""
    out = {"perCall": [], "ops": [], "mergeRight": False, "callsBeforeAsserts": False, "argIndexFromEnumerate": False}
    cls = find_class(tree, "namedtensor_calltensorfactory")
    if cls is None:
        lost.append(("factory:class", "namedtensor_calltensorfactory not found"))
        return out
    op = find_func(cls, "op")
    inner = find_func(op, "inner") if op is not None else None
    ops = find_func(cls, "ops")
    ok = False
    if inner is not None:
        calls = [n for n in ast.walk(inner) if isinstance(n, ast.Call) and _u(n.func) == "_call_tensorfactory"]
        if len(calls) == 1:
            kws = {k.arg: k.value for k in calls[0].keywords}
            v = kws.get("kwargs")
            if isinstance(v, ast.BinOp) and isinstance(v.op, ast.BitOr) and _u(v.right) == "factory_kwargs":
                keys = _dict_str_keys(v.left)
                if keys is not None:
                    out["perCall"], out["mergeRight"] = keys, True
                    ok = True
                    vals = {k.value: _u(val) for k, val in zip(v.left.keys, v.left.values)}
                    out["vals"] = vals
            # comprehension: for arg_index, tensor in enumerate(tensors)
            for n in ast.walk(inner):
                if isinstance(n, ast.ListComp) and any(c is calls[0] for c in ast.walk(n.elt)):
                    g = n.generators[0]
                    out["argIndexFromEnumerate"] = _u(g.target) == "(arg_index, tensor)" and _u(g.iter) == "enumerate(tensors)" and not g.ifs
        # order: xs = [...] ; with context(...): tensors = [_assert_output...]; return op(*tensors, ...)
        order = []
        for n in ast.walk(inner):
            if isinstance(n, ast.Call):
                f = _u(n.func)
                if f in ("_call_tensorfactory", "_assert_output", "op"):
                    order.append((n.lineno, n.col_offset, f))
        order = [f for _, _, f in sorted(order)]
        out["callsBeforeAsserts"] = order == ["_call_tensorfactory", "_assert_output", "op"]
        # factory_kwargs = kwargs if kwargs is not None else {}
    if not ok:
        lost.append(("factory:inner-kwargs", "expected `_call_tensorfactory(tensor, kwargs={...literal...} | factory_kwargs)`"))
    if not out["callsBeforeAsserts"]:
        lost.append(("factory:inner-order", "expected _call_tensorfactory, then _assert_output, then op"))
    ok = False
    if ops is not None:
        for n in ast.walk(ops):
            if isinstance(n, ast.Call) and _u(n.func) == "namedtensor_calltensorfactory.op":
                kws = {k.arg: k.value for k in n.keywords}
                v = kws.get("kwargs")
                if isinstance(v, ast.BinOp) and isinstance(v.op, ast.BitOr) and _u(v.right) == "kwargs":
                    keys = _dict_str_keys(v.left)
                    if keys is not None:
                        out["ops"] = keys
                        out["opsVals"] = {k.value: _u(val) for k, val in zip(v.left.keys, v.left.values)}
                        ok = True
    if not ok:
        lost.append(("factory:ops-kwargs", "expected `namedtensor_calltensorfactory.op(op, expected_type, kwargs={...literal...} | kwargs, ...)`"))
    return out


def x_cast_shape(lost):
    """_cast_shape gives a shape-less ConvertibleTensor the solved shape of its expression (`expr.shape`)."""
    tree = parse(F_EFN)
    fn = find_func(tree, "_cast_shape")
    ok = False
    if fn is not None and len(fn.body) == 1 and isinstance(fn.body[0], ast.If) and _u(fn.body[0].test) == "tensor.shape is None":
        for n in ast.walk(fn.body[0]):
            if isinstance(n, ast.Return) and isinstance(n.value, ast.Call) and _u(n.value.func).endswith("tracer.cast"):
                lam = n.value.args[1] if len(n.value.args) == 2 else None
                if isinstance(lam, ast.Lambda) and isinstance(lam.body, ast.Call) and _attr_tail(lam.body.func) == "ConvertibleTensor":
                    ok = [_u(a) for a in lam.body.args] == ["origin", "tensor.concrete", "expr.shape"]
        # used on every tensor before the inner op
    uses = [n for n in ast.walk(tree) if isinstance(n, ast.Call) and _u(n.func) == "_cast_shape"]
    if len(uses) < 1:
        ok = False
    if not ok:
        lost.append(("factory:_cast_shape", "a shape-less tracer is not cast to ConvertibleTensor(origin, tensor.concrete, expr.shape)"))
    return ok


def x_python_call(lost):
    tree = parse(F_PY)
    ok = False
    for n in tree.body:
        if isinstance(n, ast.FunctionDef) and n.name == "call":
            for r in ast.walk(n):
                if isinstance(r, ast.Return):
                    ok = _u(r.value) == "Call(func, args, kwargs, list(tracer.get_additional_dependencies())).output"
    if not ok:
        lost.append(("factory:python.call", "`call` does not build Call(func, args, kwargs, list(tracer.get_additional_dependencies()))"))
    return ok


def x_api(lost):
    out = {"shapeNone": False, "dependOn": False, "graphBeforeRun": False, "runArgs": False, "keyed": False}
    tree = parse(F_API)
    tt = find_func(tree, "_to_tracer")
    if tt is not None:
        for n in ast.walk(tt):
            if isinstance(n, ast.If) and _u(n.test) == "callable(x.value)":
                r = n.body[0]
                if isinstance(r, ast.Return) and isinstance(r.value, ast.Call) and _attr_tail(r.value.func) == "ConvertibleTensor":
                    kws = {k.arg: _u(k.value) for k in r.value.keywords}
                    out["shapeNone"] = kws.get("shape") == "None" and [_u(a) for a in r.value.args] == ["None"]
                    out["keyed"] = kws.get("concrete") == "types.SimpleNamespace(type=type(x.value), parameters=_get_signature(x.value))"
    if not out["shapeNone"]:
        lost.append(("factory:_to_tracer", "a callable is not turned into ConvertibleTensor(None, shape=None, ...)"))
    if not out["keyed"]:
        lost.append(("factory:_to_tracer-key", "the tracer of a callable is not keyed by (type, signature) only"))
    cg = find_func(tree, "_construct_graph")
    if cg is not None:
        for n in cg.body:
            if isinstance(n, ast.With) and len(n.items) == 1 and _u(n.items[0].context_expr) == "tracer.depend_on(*input_tracers)":
                out["dependOn"] = any(_u(s) == "output_tracer = func(*args, **kwargs)" for s in n.body)
        # func is called nowhere else
        ncalls = sum(1 for n in ast.walk(cg) if isinstance(n, ast.Call) and _u(n.func) == "func")
        if ncalls != 1:
            out["dependOn"] = False
    if not out["dependOn"]:
        lost.append(("factory:_construct_graph", "the operation is not traced (only) inside `with tracer.depend_on(*input_tracers)`"))
    good = 0
    total = 0
    for name in ("_api_withoutbackend", "_api_withbackend"):
        outer = find_func(tree, name)
        inner = find_func(outer, "inner") if outer is not None else None
        if inner is None:
            continue
        total += 1
        body = inner.body
        idx_graph = idx_run = None
        for i, s in enumerate(body):
            if isinstance(s, ast.If) and _u(s.test) == "graph" and len(s.body) == 1 and _u(s.body[0]) == "return code":
                idx_graph = i
            if isinstance(s, ast.Try):
                for r in s.body:
                    if isinstance(r, ast.Return) and _u(r.value) == "function(*tensor_args)":
                        idx_run = i
        runs = sum(1 for n in ast.walk(inner) if isinstance(n, ast.Call) and _u(n.func) == "function")
        if idx_graph is not None and idx_run is not None and idx_graph < idx_run and runs == 1:
            good += 1
    out["graphBeforeRun"] = out["runArgs"] = (total == 2 and good == 2)
    if not out["graphBeforeRun"]:
        lost.append(("factory:api-inner", "expected `if graph: return code` before the single `function(*tensor_args)`"))
    return out


def render(ct, ao, inn, cast_ok, call_ok, api):
    L = lambda xs: "[" + ", ".join(lean_str(x) for x in xs) + "]"
    lines = ["/-! GENERATED by tools/extract/factory.py from /repo -- do not edit. -/", "namespace Einx.Extracted.Factory", ""]
    lines += [
        "/-- keys of the dict literal that `inner` offers to every factory (`kwargs={...} | factory_kwargs`), in dict order -/",
        f"def perCallKeywords : List String := {L(inn['perCall'])}",
        "/-- keys that `namedtensor_calltensorfactory.ops` puts into `factory_kwargs` -/",
        f"def opsKeywords : List String := {L(inn['ops'])}",
        f"def factoryKwargsMergedRight : Bool := {lean_bool(inn['mergeRight'])}",
        f"def argIndexFromEnumerate : Bool := {lean_bool(inn['argIndexFromEnumerate'])}",
        "/-- `inner` runs every `_call_tensorfactory`, then every `_assert_output`, then the wrapped op -/",
        f"def callsBeforeAssertsBeforeOp : Bool := {lean_bool(inn['callsBeforeAsserts'])}",
        "/-- parameter kinds that make `has_var_kwargs` true -/",
        f"def varKwKinds : List String := {L(ct['varKwKinds'])}",
        "/-- `use_parameter(name)` is `has_var_kwargs or (name in parameters and parameters[name].kind in declaredKinds)` -/",
        f"def useParamVarKwDisjunct : Bool := {lean_bool(ct['varKwDisjunct'])}",
        f"def useParamRequiresDeclared : Bool := {lean_bool(ct['requiresDeclared'])}",
        f"def declaredKinds : List String := {L(ct['declaredKinds'])}",
        f"def kwargsFilteredByUseParameter : Bool := {lean_bool(ct['filtered'])}",
        "/-- positional arguments of the traced call `python.call(tensor, args=[...], kwargs=kwargs)` -/",
        f"def callArgs : List String := {L(ct['callArgs'])}",
        "/-- `shape = tuple(<shapeSource>)` -/",
        f"def shapeSource : String := {lean_str(ct['shapeSource'])}",
        f"def factoryCondition : List String := {L(ct['condition'])}",
        f"def callOnlyInsideCondition : Bool := {lean_bool(ct['callOnlyInsideCondition'])}",
        "/-- the `assert_` steps of `_assert_output` under `if called:`, in order -/",
        f"def assertSequence : List String := {L(ao['asserts'])}",
        f"def assertsGuardedByCalled : Bool := {lean_bool(ao['guarded'])}",
        f"def castAfterAsserts : Bool := {lean_bool(ao['cast'])}",
        f"def castShapeSource : String := {lean_str(ao['castShape'])}",
        "/-- `_cast_shape`: a shape-less tracer becomes ConvertibleTensor(origin, concrete, expr.shape) -/",
        f"def castShapeGivesSolvedShape : Bool := {lean_bool(cast_ok)}",
        "/-- `python.call` attaches `get_additional_dependencies()` to every Call node -/",
        f"def callAttachesDeps : Bool := {lean_bool(call_ok)}",
        "/-- `_to_tracer`: callable -> ConvertibleTensor(None, shape=None, concrete=(type, signature)) -/",
        f"def callableTracerShapeNone : Bool := {lean_bool(api['shapeNone'])}",
        f"def callableKeyedByTypeAndSignature : Bool := {lean_bool(api['keyed'])}",
        "/-- `_construct_graph` calls the operation only inside `with tracer.depend_on(*input_tracers)` -/",
        f"def tracesUnderDependOn : Bool := {lean_bool(api['dependOn'])}",
        "/-- api `inner`: `if graph: return code` precedes the single `function(*tensor_args)` -/",
        f"def graphReturnsBeforeRun : Bool := {lean_bool(api['graphBeforeRun'])}",
        "", "end Einx.Extracted.Factory", ""]
    return "\n".join(lines)


def fallback():
    ct = {"varKwKinds": [], "varKwDisjunct": False, "requiresDeclared": False, "declaredKinds": [], "filtered": False,
          "callArgs": ["?"], "shapeSource": "?", "condition": [], "callOnlyInsideCondition": False}
    ao = {"asserts": [], "guarded": False, "cast": False, "castShape": "?"}
    inn = {"perCall": [], "ops": [], "mergeRight": False, "callsBeforeAsserts": False, "argIndexFromEnumerate": False}
    api = {"shapeNone": False, "dependOn": False, "graphBeforeRun": False, "runArgs": False, "keyed": False}
    return render(ct, ao, inn, False, False, api)


def extract():
    lost = []
    tree = parse(F_FACTORY)
    ct = x_call_tensorfactory(tree, lost)
    ao = x_assert_output(tree, lost)
    inn = x_inner(tree, lost)
    cast_ok = x_cast_shape(lost)
    call_ok = x_python_call(lost)
    api = x_api(lost)
    facts = {"call": ct, "asserts": ao, "inner": inn, "castShape": cast_ok, "pythonCall": call_ok, "api": api}
    return render(ct, ao, inn, cast_ok, call_ok, api), facts, lost
