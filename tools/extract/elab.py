"""Facts about the elaboration layer `einx/_src/adapter/einx_from_namedtensor.py` (C07, later C02/C03):

* the keyword literals with which every per-family wrapper (`id`, `elementwise`, `dot`, `reduce`, `get_at`,
  `update_at`, `argfind`, `preserve_shape`) calls `op(...)` -- `implicit_output`, `mark_reduced_axes`, `allow_concat`,
  `allow_duplicate_el_axes`, `no_el_axis_permute`, `add_keepdims_param`, `allow_nontrivial_unmarked_reduced_axes` --
  completed with the defaults of `op`'s own signature, and the defaults of `_parse_op`'s signature;
* the source text of every wrapper's `el_op` builder (the model's `elOp` was written against these texts);
* `_name_to_op`: which wrapper every public operation name is built with (read from the imported module);
* the string constants `_parse_op` creates axes with (`output.axis`), and `Ellipsis.anonymous_variable_name`;
* the body of `einx.rearrange` (frontend/removed_ops.py): which function it forwards to, with which arguments.

A lost anchor yields the conservative value (a family without flags / a rearrange target of ""), under which the
obligations in Props/C07.lean fail.
"""
import ast
import functools
import importlib

from . import lean_str as _lean_str, lean_bool, parse as parse_ast, find_func


def lean_str(s):
    return _lean_str(s).replace("\n", "\\n")

EFN = "einx/_src/adapter/einx_from_namedtensor.py"
REMOVED = "einx/_src/frontend/removed_ops.py"
FAMILIES = ["id", "elementwise", "dot", "reduce", "get_at", "update_at", "argfind", "preserve_shape"]
FLAGS = ["allow_concat", "implicit_output", "mark_reduced_axes", "add_keepdims_param", "allow_nontrivial_unmarked_reduced_axes",
         "allow_duplicate_el_axes", "no_el_axis_permute"]
PARSE_OP_PARAMS = ["allow_concat", "implicit_output", "mark_reduced_axes", "allow_duplicate_el_axes", "keepdims"]


def _top_func(tree, name):
    for n in tree.body:
        if isinstance(n, ast.FunctionDef) and n.name == name:
            return n
    return None


def _defaults(fn):
    """{param: literal default} of a FunctionDef (positional-or-keyword parameters with constant defaults)."""
    out = {}
    args = fn.args.args
    defs = fn.args.defaults
    for a, d in zip(args[len(args) - len(defs):], defs):
        try:
            out[a.arg] = ast.literal_eval(d)
        except Exception:  # noqa: BLE001 - non-literal default (a lambda): not a flag
            pass
    return out


def _op_call(fn):
    """The call `globals()["op"](op, el_op=..., **kwargs)` inside a wrapper."""
    for n in ast.walk(fn):
        if (isinstance(n, ast.Call) and isinstance(n.func, ast.Subscript) and isinstance(n.func.value, ast.Call)
                and isinstance(n.func.value.func, ast.Name) and n.func.value.func.id == "globals"
                and isinstance(n.func.slice, ast.Constant) and n.func.slice.value == "op"):
            return n
    return None


def _kwargs_defaults(fn):
    """`if "k" not in kwargs: kwargs["k"] = literal` statements of a wrapper."""
    out = {}
    for n in ast.walk(fn):
        if (isinstance(n, ast.Assign) and len(n.targets) == 1 and isinstance(n.targets[0], ast.Subscript)
                and isinstance(n.targets[0].value, ast.Name) and n.targets[0].value.id == "kwargs"
                and isinstance(n.targets[0].slice, ast.Constant)):
            try:
                out[n.targets[0].slice.value] = ast.literal_eval(n.value)
            except Exception:  # noqa: BLE001
                pass
    return out


def _implicit_str(v):
    if v is None:
        return "none"
    if v == "bijective":
        return "bijective"
    if isinstance(v, bool):
        return "invalid"
    if isinstance(v, int):
        return f"index:{v}"
    if isinstance(v, (tuple, list)) and all(isinstance(i, int) and not isinstance(i, bool) for i in v):
        return "indices:" + ",".join(str(i) for i in v)
    return "invalid"


def _rearrange():
    tree = parse_ast(REMOVED)
    fn = _top_func(tree, "rearrange")
    if fn is None:
        return None
    imports = {}
    for n in tree.body:
        if isinstance(n, ast.ImportFrom):
            for a in n.names:
                imports[a.asname or a.name] = f"{'.' * n.level}{n.module or ''}.{a.name}"
    ret = [n for n in fn.body if isinstance(n, ast.Return)]
    others = []
    for n in fn.body:
        if isinstance(n, ast.Return):
            continue
        if isinstance(n, ast.Expr) and isinstance(n.value, ast.Constant) and isinstance(n.value.value, str):
            continue  # docstring
        if isinstance(n, ast.Expr) and isinstance(n.value, ast.Call):
            others.append(ast.unparse(n.value.func))
        else:
            others.append(type(n).__name__)
    target, forwards = "", False
    if len(ret) == 1 and isinstance(ret[0].value, ast.Call) and isinstance(ret[0].value.func, ast.Name):
        call = ret[0].value
        target = imports.get(call.func.id, call.func.id)
        pos = [ast.unparse(a) for a in call.args]
        kws = sorted((k.arg or "**", ast.unparse(k.value)) for k in call.keywords)
        params = [a.arg for a in fn.args.args]
        vararg = fn.args.vararg.arg if fn.args.vararg else None
        kwonly = [a.arg for a in fn.args.kwonlyargs]
        kwarg = fn.args.kwarg.arg if fn.args.kwarg else None
        want_pos = params + ([f"*{vararg}"] if vararg else [])
        want_kws = sorted([(k, k) for k in kwonly] + ([("**", kwarg)] if kwarg else []))
        forwards = pos == want_pos and kws == want_kws
    return target, forwards, others


def render(fams, parse_op_defaults, el_sources, name_to_op, output_axis, rearr):
    L = ["/-! GENERATED by tools/extract/elab.py from /repo -- do not edit. -/", "namespace Einx.Extracted", ""]
    L.append("/-- Keyword literals of one per-family wrapper's call of `op(...)`, completed with the defaults of `op`. -/")
    L.append("structure FamilyFlags where")
    L.append("  name : String")
    L.append("  /-- `none` | `bijective` | `index:<i>` | `indices:<i>,<j>` | `invalid` -/")
    L.append("  implicitOutput : String")
    L.append("  allowConcat : Bool")
    L.append("  markReducedAxes : Bool")
    L.append("  addKeepdimsParam : Bool")
    L.append("  allowNontrivialUnmarkedReducedAxes : Bool")
    L.append("  allowDuplicateElAxes : Bool")
    L.append("  noElAxisPermute : Bool")
    L.append("deriving Repr, DecidableEq, Inhabited")
    L.append("")
    L.append("def familyFlags : List FamilyFlags := [")
    rows = []
    for f in fams:
        rows.append("  { name := %s, implicitOutput := %s, allowConcat := %s, markReducedAxes := %s, addKeepdimsParam := %s,\n"
                    "    allowNontrivialUnmarkedReducedAxes := %s, allowDuplicateElAxes := %s, noElAxisPermute := %s }" % (
                        lean_str(f["name"]), lean_str(f["implicit_output"]), lean_bool(f["allow_concat"]), lean_bool(f["mark_reduced_axes"]),
                        lean_bool(f["add_keepdims_param"]), lean_bool(f["allow_nontrivial_unmarked_reduced_axes"]),
                        lean_bool(f["allow_duplicate_el_axes"]), lean_bool(f["no_el_axis_permute"])))
    L.append(",\n".join(rows) + "]")
    L.append("")
    L.append("/-- Defaults of `_parse_op`'s own signature (`keepdims=False`, ...), as `name=repr`. -/")
    L.append("def parseOpDefaults : List (String × String) := [" + ", ".join(f"({lean_str(k)}, {lean_str(repr(v))})" for k, v in parse_op_defaults) + "]")
    L.append("/-- Source text (`ast.unparse`) of the `el_op` builder of every wrapper. -/")
    L.append("def elOpSources : List (String × String) := [" + ",\n  ".join(f"({lean_str(k)}, {lean_str(v)})" for k, v in el_sources) + "]")
    L.append("/-- `_name_to_op`: public operation name -> wrapper it is built with. -/")
    L.append("def opFamily : List (String × String) := [" + ", ".join(f"({lean_str(k)}, {lean_str(v)})" for k, v in name_to_op) + "]")
    L.append("/-- The axis name `_parse_op` puts into the single bracket of an implicit arg-operation output. -/")
    L.append(f"def outputAxisName : String := {lean_str(output_axis)}")
    L.append("/-- `einx.rearrange` (frontend/removed_ops.py): the function its `return` statement calls, whether the call passes exactly")
    L.append("    the wrapper's own parameters (`description, *tensors, backend=backend, **parameters`), and its other statements. -/")
    L.append(f"def rearrangeTarget : String := {lean_str(rearr[0])}")
    L.append(f"def rearrangeForwardsAllArguments : Bool := {lean_bool(rearr[1])}")
    L.append("def rearrangeOtherStatements : List String := [" + ", ".join(lean_str(s) for s in rearr[2]) + "]")
    L += ["", "end Einx.Extracted", ""]
    return "\n".join(L)


def fallback():
    return render([], [], [], [], "", ("", False, []))


def extract():
    lost = []
    tree = parse_ast(EFN)
    op_fn = _top_func(tree, "op")
    po_fn = _top_func(tree, "_parse_op")
    if op_fn is None or po_fn is None:
        return fallback(), {}, [("elab:op", f"`op` / `_parse_op` not found in {EFN}")]
    op_defaults = _defaults(op_fn)
    po_defaults = _defaults(po_fn)
    for k in FLAGS:
        if k not in op_defaults:
            lost.append((f"elab:op.{k}", f"`op` has no literal default for {k}"))
    for k in PARSE_OP_PARAMS:
        if k not in po_defaults:
            lost.append((f"elab:_parse_op.{k}", f"`_parse_op` has no literal default for {k}"))
    # the flags `inner` forwards to `_parse_op` must be forwarded under their own names
    inner = find_func(op_fn, "inner")
    fwd = None
    if inner is not None:
        for n in ast.walk(inner):
            if isinstance(n, ast.Call) and isinstance(n.func, ast.Name) and n.func.id == "_parse_op":
                fwd = {k.arg: ast.unparse(k.value) for k in n.keywords if k.arg}
    for k in ("allow_concat", "implicit_output", "mark_reduced_axes", "allow_duplicate_el_axes"):
        if fwd is None or fwd.get(k) != k:
            lost.append((f"elab:inner->{k}", f"`op.inner` does not forward {k}={k} to `_parse_op`"))
    fams, el_sources = [], []
    for name in FAMILIES:
        fn = _top_func(tree, name)
        call = _op_call(fn) if fn is not None else None
        el = find_func(fn, "el_op") if fn is not None else None
        if call is None or el is None:
            lost.append((f"elab:{name}", f"wrapper `{name}` / its `op(...)` call / its el_op builder not found"))
            continue
        kw = dict(op_defaults)
        kw.update(_kwargs_defaults(fn))
        bad = False
        for k in call.keywords:
            if k.arg in FLAGS:
                try:
                    kw[k.arg] = ast.literal_eval(k.value)
                except Exception:  # noqa: BLE001
                    lost.append((f"elab:{name}.{k.arg}", f"non-literal value {ast.unparse(k.value)}"))
                    bad = True
        if bad:
            continue
        row = {"name": name, "implicit_output": _implicit_str(kw.get("implicit_output"))}
        for k in FLAGS:
            if k != "implicit_output":
                row[k] = bool(kw.get(k, False))
        fams.append(row)
        el_sources.append((name, ast.unparse(el)))
    # _name_to_op from the imported module
    name_to_op = []
    try:
        efn = importlib.import_module("einx._src.adapter.einx_from_namedtensor")
        for k, v in efn._name_to_op.items():
            f = v.func if isinstance(v, functools.partial) else v
            name_to_op.append((k, f.__name__))
        name_to_op.sort()
    except Exception as e:  # noqa: BLE001
        lost.append(("elab:_name_to_op", f"{type(e).__name__}: {e}"))
    # "output.axis"
    consts = [n.value for n in ast.walk(po_fn) if isinstance(n, ast.Constant) and isinstance(n.value, str) and n.value.endswith(".axis")]
    output_axis = consts[0] if len(set(consts)) == 1 else ""
    if not output_axis:
        lost.append(("elab:output.axis", "the axis name of the implicit arg-operation output was not found"))
    rearr = _rearrange()
    if rearr is None:
        lost.append(("elab:rearrange", f"`rearrange` not found in {REMOVED}"))
        rearr = ("", False, [])
    text = render(fams, sorted((k, po_defaults[k]) for k in PARSE_OP_PARAMS if k in po_defaults), el_sources, name_to_op, output_axis, rearr)
    facts = {"families": fams, "parse_op_defaults": po_defaults, "name_to_op": dict(name_to_op), "output_axis": output_axis,
             "rearrange": {"target": rearr[0], "forwards": rearr[1], "others": rearr[2]}}
    return text, facts, lost
