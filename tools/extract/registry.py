"""Structural facts of einx/_src/frontend/backend.py (C10, C11)."""
import ast
from . import parse, find_class, find_func, lean_bool, lean_str

FILE = "einx/_src/frontend/backend.py"
METHODS = ["register", "register_on_import", "get_by_tensors", "get_by_name", "get", "enter", "exit"]


def _assigns_state(node):
    """Does this statement (sub)tree assign to self.state (possibly as part of a tuple target)?"""
    for n in ast.walk(node):
        if isinstance(n, ast.Assign):
            for t in n.targets:
                for tt in ast.walk(t):
                    if isinstance(tt, ast.Attribute) and tt.attr == "state" and isinstance(tt.value, ast.Name) and tt.value.id == "self":
                        return True
    return False


def _reads_state(node):
    for n in ast.walk(node):
        if isinstance(n, ast.Attribute) and n.attr == "state" and isinstance(n.value, ast.Name) and n.value.id == "self" and isinstance(n.ctx, ast.Load):
            return True
    return False


def _is_lock_with(node):
    if not isinstance(node, ast.With):
        return False
    for item in node.items:
        e = item.context_expr
        if isinstance(e, ast.Attribute) and e.attr == "use_lock" and isinstance(e.value, ast.Name) and e.value.id == "self":
            return True
    return False


def method_locked(fn):
    """True iff every statement of the method that reads or assigns self.state is inside `with self.use_lock`."""
    ok = True
    touched = False
    for stmt in fn.body:
        if _is_lock_with(stmt):
            if _assigns_state(stmt) or _reads_state(stmt):
                touched = True
            continue
        if _assigns_state(stmt) or _reads_state(stmt):
            ok = False
            touched = True
    return ok and touched


def lock_kind(cls):
    init = find_func(cls, "__init__")
    for n in ast.walk(init):
        if isinstance(n, ast.Assign) and any(isinstance(t, ast.Attribute) and t.attr == "use_lock" for t in n.targets):
            v = n.value
            if isinstance(v, ast.Call) and isinstance(v.func, ast.Attribute):
                return v.func.attr
    return None


def register_clears_memo(state_cls):
    fn = find_func(state_cls, "_register")
    if fn is None:
        return None
    for n in ast.walk(fn):
        # self.tensortypes_to_backend.clear()  |  self.tensortypes_to_backend = {}
        if isinstance(n, ast.Call) and isinstance(n.func, ast.Attribute) and n.func.attr == "clear":
            v = n.func.value
            if isinstance(v, ast.Attribute) and v.attr == "tensortypes_to_backend":
                return True
        if isinstance(n, ast.Assign):
            for t in n.targets:
                if isinstance(t, ast.Attribute) and t.attr == "tensortypes_to_backend" and isinstance(n.value, ast.Dict) and not n.value.keys:
                    return True
    return False


def real_priorities():
    """(name, priority) of the numpy backends, read from the AST of impl/numpy.py."""
    tree = parse("einx/_src/frontend/impl/numpy.py")
    pr = {}
    creator = find_func(tree, "_backend_creator")
    specialised = None
    for n in ast.walk(creator):
        if isinstance(n, ast.Call) and isinstance(n.func, ast.Name) and n.func.id == "Backend":
            for kw in n.keywords:
                if kw.arg == "priority":
                    specialised = ast.literal_eval(kw.value)
    for fname in ("create_backend_numpylike", "create_backend_einsum"):
        fn = find_func(tree, fname)
        for n in ast.walk(fn):
            if isinstance(n, ast.Return) and isinstance(n.value, ast.Tuple):
                nm = n.value.elts[1]
                if isinstance(nm, ast.Constant):
                    pr[nm.value] = specialised
    fn = find_func(tree, "create_backend")
    for n in ast.walk(fn):
        if isinstance(n, ast.Call) and isinstance(n.func, ast.Name) and n.func.id == "Backend":
            name = prio = None
            for kw in n.keywords:
                if kw.arg == "priority":
                    prio = ast.literal_eval(kw.value)
                if kw.arg == "name":
                    name = ast.literal_eval(kw.value)
            pr[name] = prio
    return pr


def thread_local_stacks():
    """Module-level context stacks that must be threading.local(): (file, variable, is_thread_local)."""
    out = []
    for file, cls_or_none in (("einx/_src/tracer/graph.py", None),):
        tree = parse(file)
        for n in tree.body:
            if isinstance(n, ast.Assign) and isinstance(n.value, ast.Call):
                f = n.value.func
                is_local = isinstance(f, ast.Attribute) and f.attr == "local"
                for t in n.targets:
                    if isinstance(t, ast.Name) and ("stack" in t.id or t.id.startswith("_")):
                        out.append((file, t.id, is_local))
    return out


def fallback():
    return render({m: False for m in METHODS}, False, None, {}, [])


def render(locked, clears, lockkind, prios, tls):
    lines = ["import EinxModel.Registry.Model", "/-! GENERATED by tools/extract/registry.py from /repo -- do not edit. -/",
             "namespace Einx.Extracted", ""]
    lines.append(f"def registryCfg : Einx.Registry.Cfg := {{ registerClearsMemo := {lean_bool(bool(clears))} }}")
    lines.append("")
    lines.append("/-- For every public `BackendRegistry` method: is every read and write of `self.state` inside `with self.use_lock`? -/")
    lines.append("def registryLocked : List (String × Bool) := [" + ", ".join(f"({lean_str(m)}, {lean_bool(locked.get(m, False))})" for m in METHODS) + "]")
    lines.append(f"def registryLockKind : String := {lean_str(str(lockkind))}")
    lines.append("def realPriorities : List (String × Int) := [" + ", ".join(f"({lean_str(k)}, {v})" for k, v in sorted(prios.items())) + "]")
    lines.append("def threadLocalStacks : List (String × String × Bool) := [" + ", ".join(f"({lean_str(a)}, {lean_str(b)}, {lean_bool(c)})" for a, b, c in tls) + "]")
    lines += ["", "end Einx.Extracted", ""]
    return "\n".join(lines)


def extract():
    lost = []
    tree = parse(FILE)
    reg = find_class(tree, "BackendRegistry")
    st = find_class(tree, "BackendRegistryState")
    if reg is None or st is None:
        return fallback(), {}, [("registry:classes", "BackendRegistry / BackendRegistryState not found")]
    locked = {}
    public = [n.name for n in reg.body if isinstance(n, ast.FunctionDef) and not n.name.startswith("_")]
    for m in METHODS:
        fn = find_func(reg, m)
        if fn is None:
            lost.append((f"registry:method:{m}", "method not found"))
            locked[m] = False
        else:
            locked[m] = method_locked(fn)
    for m in public:
        if m not in METHODS:
            fn = find_func(reg, m)
            if _assigns_state(fn):
                lost.append((f"registry:method:{m}", "unmodelled public method replaces self.state"))
    clears = register_clears_memo(st)
    if clears is None:
        lost.append(("registry:_register", "_register not found"))
    try:
        prios = real_priorities()
        if set(prios) != {"numpy", "numpy.numpylike", "numpy.einsum"} or any(not isinstance(v, int) for v in prios.values()):
            lost.append(("registry:priorities", f"unexpected priorities {prios}"))
    except Exception as e:
        prios = {}
        lost.append(("registry:priorities", repr(e)))
    tls = thread_local_stacks()
    facts = {"locked": locked, "registerClearsMemo": bool(clears), "lockKind": lock_kind(reg), "priorities": prios, "threadLocal": tls}
    return render(locked, clears, lock_kind(reg), prios, tls), facts, lost
