"""Structural facts of einx/_src/frontend/backend.py (C10, C11)."""
import ast
from . import parse, find_class, find_func, lean_bool, lean_str

FILE = "einx/_src/frontend/backend.py"
METHODS = ["register", "register_on_import", "get_by_tensors", "get_by_name", "get", "enter", "exit"]


def _assigns_state(node):
    """Does this statement (sub)tree assign to self.state (possibly as part of a tuple target)?"""
    for n in ast.walk(node):
        if isinstance(n, ast.Assign):
            for t in n.targets:
                for tt in ast.walk(t):
                    if isinstance(tt, ast.Attribute) and tt.attr == "state" and isinstance(tt.value, ast.Name) and tt.value.id == "self":
                        return True
    return False


def _reads_state(node):
    for n in ast.walk(node):
        if isinstance(n, ast.Attribute) and n.attr == "state" and isinstance(n.value, ast.Name) and n.value.id == "self" and isinstance(n.ctx, ast.Load):
            return True
    return False


LOCK_ATTR = ["use_lock"]     # the attribute of BackendRegistry that holds the lock; resolved from __init__ by `resolve_lock_attr`


def resolve_lock_attr(cls):
    """The lock is the attribute of `self` that `__init__` assigns a `threading.Lock()` / `threading.RLock()` (or a bare
    `Lock()` / `RLock()`) - found by what is assigned, not by the attribute's spelling (work package "robust").  If there is
    no such attribute, or more than one, the historical name stays and the dependent facts fail conservatively."""
    init = find_func(cls, "__init__") if cls is not None else None
    found = []
    if init is not None:
        for n in ast.walk(init):
            if isinstance(n, ast.Assign) and len(n.targets) == 1 and isinstance(n.targets[0], ast.Attribute) \
                    and isinstance(n.targets[0].value, ast.Name) and n.targets[0].value.id == "self" and isinstance(n.value, ast.Call):
                f = n.value.func
                name = f.attr if isinstance(f, ast.Attribute) else (f.id if isinstance(f, ast.Name) else None)
                if name in ("Lock", "RLock"):
                    found.append(n.targets[0].attr)
    LOCK_ATTR[0] = found[0] if len(found) == 1 else "use_lock"
    return LOCK_ATTR[0]


def _is_lock_with(node):
    if not isinstance(node, ast.With):
        return False
    for item in node.items:
        e = item.context_expr
        if isinstance(e, ast.Attribute) and e.attr == LOCK_ATTR[0] and isinstance(e.value, ast.Name) and e.value.id == "self":
            return True
    return False


def method_locked(fn):
    """True iff every statement of the method that reads or assigns self.state is inside one and the same `with self.use_lock` block."""
    ok = True
    touched = False
    blocks = 0
    for stmt in fn.body:
        if _is_lock_with(stmt):
            if _assigns_state(stmt) or _reads_state(stmt):
                touched = True
                blocks += 1
                if blocks > 1:      # read and write in different critical sections: not atomic
                    ok = False
            continue
        if _assigns_state(stmt) or _reads_state(stmt):
            ok = False
            touched = True
    return ok and touched


def lock_kind(cls):
    init = find_func(cls, "__init__")
    for n in ast.walk(init):
        if isinstance(n, ast.Assign) and any(isinstance(t, ast.Attribute) and t.attr == LOCK_ATTR[0] for t in n.targets):
            v = n.value
            if isinstance(v, ast.Call) and isinstance(v.func, ast.Attribute):
                return v.func.attr
    return None


def register_clears_memo(state_cls):
    fn = find_func(state_cls, "_register")
    if fn is None:
        return None
    for n in ast.walk(fn):
        # self.tensortypes_to_backend.clear()  |  self.tensortypes_to_backend = {}
        if isinstance(n, ast.Call) and isinstance(n.func, ast.Attribute) and n.func.attr == "clear":
            v = n.func.value
            if isinstance(v, ast.Attribute) and v.attr == "tensortypes_to_backend":
                return True
        if isinstance(n, ast.Assign):
            for t in n.targets:
                if isinstance(t, ast.Attribute) and t.attr == "tensortypes_to_backend" and isinstance(n.value, ast.Dict) and not n.value.keys:
                    return True
    return False


def real_priorities():
    """(name, priority) of the numpy backends, read from the AST of impl/numpy.py."""
    tree = parse("einx/_src/frontend/impl/numpy.py")
    pr = {}
    creator = find_func(tree, "_backend_creator")
    specialised = None
    for n in ast.walk(creator):
        if isinstance(n, ast.Call) and isinstance(n.func, ast.Name) and n.func.id == "Backend":
            for kw in n.keywords:
                if kw.arg == "priority":
                    specialised = ast.literal_eval(kw.value)
    for fname in ("create_backend_numpylike", "create_backend_einsum"):
        fn = find_func(tree, fname)
        for n in ast.walk(fn):
            if isinstance(n, ast.Return) and isinstance(n.value, ast.Tuple):
                nm = n.value.elts[1]
                if isinstance(nm, ast.Constant):
                    pr[nm.value] = specialised
    fn = find_func(tree, "create_backend")
    for n in ast.walk(fn):
        if isinstance(n, ast.Call) and isinstance(n.func, ast.Name) and n.func.id == "Backend":
            name = prio = None
            for kw in n.keywords:
                if kw.arg == "priority":
                    prio = ast.literal_eval(kw.value)
                if kw.arg == "name":
                    name = ast.literal_eval(kw.value)
            pr[name] = prio
    return pr


def thread_local_stacks():
    """Module-level context stacks that must be threading.local(): (file, variable, is_thread_local)."""
    out = []
    for file, cls_or_none in (("einx/_src/tracer/graph.py", None),):
        tree = parse(file)
        for n in tree.body:
            if isinstance(n, ast.Assign) and isinstance(n.value, ast.Call):
                f = n.value.func
                is_local = isinstance(f, ast.Attribute) and f.attr == "local"
                for t in n.targets:
                    if isinstance(t, ast.Name) and ("stack" in t.id or t.id.startswith("_")):
                        out.append((file, t.id, is_local))
    return out


ADAPTER_STACKS = [("einx/_src/adapter/torch/devicestack.py", "TorchDeviceStack", ("get_device", "_enter", "_exit")),
                  ("einx/_src/adapter/arrayapi/namespacestack.py", "ArrayApiNamespaceStack", ("get_xp", "_enter", "_exit"))]


def _is_threading_local_call(v):
    return (isinstance(v, ast.Call) and isinstance(v.func, ast.Attribute) and v.func.attr == "local"
            and isinstance(v.func.value, ast.Name) and v.func.value.id == "threading" and not v.args and not v.keywords)


def _self_attr(node, attr=None):
    return (isinstance(node, ast.Attribute) and isinstance(node.value, ast.Name) and node.value.id == "self"
            and (attr is None or node.attr == attr))


def adapter_stack_is_thread_local(cls, users):
    """The context stack of an adapter class: `self.<holder> = threading.local()` in __init__ (and nowhere reassigned),
    `_get_stack` returns `self.<holder>.stack`, every user method obtains the list through `self._get_stack()`, and no
    other attribute of `self` holds a list.  Returns (holder-name or None, bool)."""
    init = find_func(cls, "__init__")
    gs = find_func(cls, "_get_stack")
    if init is None or gs is None:
        return None, False
    ret = [n.value for n in ast.walk(gs) if isinstance(n, ast.Return)]
    if len(ret) != 1 or not (isinstance(ret[0], ast.Attribute) and ret[0].attr == "stack" and _self_attr(ret[0].value)):
        return None, False
    holder = ret[0].value.attr
    ok = False
    for n in ast.walk(cls):
        if isinstance(n, ast.Assign):
            for t in n.targets:
                if _self_attr(t, holder):
                    if _is_threading_local_call(n.value) and any(n is m for m in ast.walk(init)) and not ok:
                        ok = True
                    else:
                        return holder, False
                elif _self_attr(t) and isinstance(n.value, (ast.List, ast.ListComp)):
                    return holder, False       # some other list kept on the (shared) adapter object
    for u in users:
        fn = find_func(cls, u)
        if fn is None:
            return holder, False
        calls = [n for n in ast.walk(fn) if isinstance(n, ast.Call) and _self_attr(n.func, "_get_stack")]
        if not calls:
            return holder, False
    return holder, ok


def adapter_stacks():
    out, lost = [], []
    for file, cname, users in ADAPTER_STACKS:
        try:
            cls = find_class(parse(file), cname)
            holder, ok = adapter_stack_is_thread_local(cls, users) if cls is not None else (None, False)
        except Exception:
            holder, ok = None, False
        if holder is None:
            lost.append((f"registry:stack:{cname}", "context stack anchor not found"))
        out.append((file, f"{cname}.{holder or '?'}", bool(ok)))
    # retrace-warning flag of util/lru_cache.py
    file = "einx/_src/util/lru_cache.py"
    found = None
    try:
        for n in parse(file).body:
            if isinstance(n, ast.Assign) and any(isinstance(t, ast.Name) and t.id == "_thread_local" for t in n.targets):
                found = _is_threading_local_call(n.value)
    except Exception:
        pass
    if found is None:
        lost.append(("registry:stack:lru_cache._thread_local", "anchor not found"))
    out.append((file, "_thread_local", bool(found)))
    return out, lost


def _is_sys_modules(e):
    return isinstance(e, ast.Attribute) and e.attr == "modules" and isinstance(e.value, ast.Name) and e.value.id == "sys"


def sys_modules_iterations(tree):
    """Every loop / comprehension of backend.py over `sys.modules`: (function, iterates over a snapshot?).  Iterating over the
    live dict raises RuntimeError when another thread imports a module meanwhile; `list(sys.modules)`, `tuple(..)`,
    `sys.modules.copy()` are snapshots."""
    out = []
    for fn in ast.walk(tree):
        if not isinstance(fn, (ast.FunctionDef, ast.AsyncFunctionDef)):
            continue
        for n in ast.walk(fn):
            iters = []
            if isinstance(n, (ast.For, ast.AsyncFor)):
                iters.append(n.iter)
            elif isinstance(n, (ast.ListComp, ast.SetComp, ast.GeneratorExp, ast.DictComp)):
                iters += [g.iter for g in n.generators]
            for it in iters:
                live = _is_sys_modules(it) or (isinstance(it, ast.Call) and isinstance(it.func, ast.Attribute)
                                               and it.func.attr in ("keys", "items", "values") and _is_sys_modules(it.func.value))
                snap = (isinstance(it, ast.Call) and ((isinstance(it.func, ast.Name) and it.func.id in ("list", "tuple", "sorted", "set", "frozenset")
                                                       and len(it.args) == 1 and _is_sys_modules(it.args[0]))
                                                      or (isinstance(it.func, ast.Attribute) and it.func.attr == "copy" and _is_sys_modules(it.func.value))))
                if live or snap:
                    if (fn.name, not live) not in out:
                        out.append((fn.name, not live))
    return out


def cache_wrappers():
    """Names of the `functools` members that `util/lru_cache.py:lru_cache` wraps the function with (memoisation only)."""
    fn = find_func(parse("einx/_src/util/lru_cache.py"), "lru_cache")
    if fn is None:
        return None
    names = set()
    for n in ast.walk(fn):
        if isinstance(n, ast.Attribute) and isinstance(n.value, ast.Name) and n.value.id == "functools" and n.attr != "wraps":
            names.add(n.attr)
    # any other memo container built by hand inside lru_cache() is not functools
    for n in ast.walk(fn):
        if isinstance(n, (ast.Dict, ast.DictComp)) or (isinstance(n, ast.Call) and isinstance(n.func, ast.Name) and n.func.id in ("dict", "OrderedDict", "defaultdict")):
            names.add("handmade-dict")
    return sorted(names)


def fallback():
    return render({m: False for m in METHODS}, False, None, {}, [])


def render(locked, clears, lockkind, prios, tls, adapter=(), wrappers=(), modit=(("_check_new_imports", False),)):
    lines = ["import EinxModel.Registry.Model", "/-! GENERATED by tools/extract/registry.py from /repo -- do not edit. -/",
             "namespace Einx.Extracted", ""]
    lines.append(f"def registryCfg : Einx.Registry.Cfg := {{ registerClearsMemo := {lean_bool(bool(clears))} }}")
    lines.append("")
    lines.append("/-- For every public `BackendRegistry` method: is every read and write of `self.state` inside `with self.use_lock`? -/")
    lines.append("def registryLocked : List (String × Bool) := [" + ", ".join(f"({lean_str(m)}, {lean_bool(locked.get(m, False))})" for m in METHODS) + "]")
    lines.append(f"def registryLockKind : String := {lean_str(str(lockkind))}")
    lines.append("def realPriorities : List (String × Int) := [" + ", ".join(f"({lean_str(k)}, {v})" for k, v in sorted(prios.items())) + "]")
    lines.append("def threadLocalStacks : List (String × String × Bool) := [" + ", ".join(f"({lean_str(a)}, {lean_str(b)}, {lean_bool(c)})" for a, b, c in tls) + "]")
    lines.append("/-- Context stacks of the adapters and the retrace flag of the cache: (file, holder, is `threading.local()`). -/")
    lines.append("def threadLocalAdapterStacks : List (String × String × Bool) := [" + ", ".join(f"({lean_str(a)}, {lean_str(b)}, {lean_bool(c)})" for a, b, c in adapter) + "]")
    lines.append("/-- `functools` members used by `util/lru_cache.py:lru_cache` to memoise. -/")
    lines.append("def cacheWrappers : List String := [" + ", ".join(lean_str(w) for w in wrappers) + "]")
    lines.append("/-- Loops of frontend/backend.py over `sys.modules`: (function, over a snapshot rather than the live dict). -/")
    lines.append("def sysModulesIterations : List (String × Bool) := [" + ", ".join(f"({lean_str(a)}, {lean_bool(b)})" for a, b in modit) + "]")
    lines += ["", "end Einx.Extracted", ""]
    return "\n".join(lines)


def extract():
    lost = []
    tree = parse(FILE)
    reg = find_class(tree, "BackendRegistry")
    resolve_lock_attr(reg)
    st = find_class(tree, "BackendRegistryState")
    if reg is None or st is None:
        return fallback(), {}, [("registry:classes", "BackendRegistry / BackendRegistryState not found")]
    locked = {}
    public = [n.name for n in reg.body if isinstance(n, ast.FunctionDef) and not n.name.startswith("_")]
    for m in METHODS:
        fn = find_func(reg, m)
        if fn is None:
            lost.append((f"registry:method:{m}", "method not found"))
            locked[m] = False
        else:
            locked[m] = method_locked(fn)
    for m in public:
        if m not in METHODS:
            fn = find_func(reg, m)
            if _assigns_state(fn):
                lost.append((f"registry:method:{m}", "unmodelled public method replaces self.state"))
    clears = register_clears_memo(st)
    if clears is None:
        lost.append(("registry:_register", "_register not found"))
    try:
        prios = real_priorities()
        if set(prios) != {"numpy", "numpy.numpylike", "numpy.einsum"} or any(not isinstance(v, int) for v in prios.values()):
            lost.append(("registry:priorities", f"unexpected priorities {prios}"))
    except Exception as e:
        prios = {}
        lost.append(("registry:priorities", repr(e)))
    tls = thread_local_stacks()
    adapter, lost_a = adapter_stacks()
    lost += lost_a
    try:
        wrappers = cache_wrappers()
    except Exception:
        wrappers = None
    if wrappers is None:
        lost.append(("registry:lru_cache", "lru_cache() not found"))
        wrappers = []
    if find_func(st, "_check_new_imports") is None:
        lost.append(("registry:_check_new_imports", "_check_new_imports not found"))
        modit = [("_check_new_imports", False)]
    else:
        modit = sys_modules_iterations(tree)
    facts = {"locked": locked, "registerClearsMemo": bool(clears), "lockKind": lock_kind(reg), "priorities": prios, "threadLocal": tls,
             "threadLocalAdapter": adapter, "cacheWrappers": wrappers, "sysModulesIterations": modit}
    return render(locked, clears, lock_kind(reg), prios, tls, adapter, wrappers, modit), facts, lost
