"""T-src for C15: facts about the adapters, read from /repo's AST.

* `frontend/impl/_util.py:_make_iskwarg`         which `inspect.Parameter` kinds are collected as option names, which raise
* `frontend/impl/numpy.py:adapt_numpylike_*`      the `iskwarg` lambda (names it excludes), that it is passed on as `iskwarg=`,
                                                  that `expected_type=` is passed to the decomposed-level adapter
* `adapter/einx_from_namedtensor.py:reduce/elementwise`  `add_keepdims_param` (keywords popped before the split)
* `adapter/einx_from_namedtensor.py:op.inner`     the clash check (SemanticError), the split loop, who receives which half
* `adapter/decomposednamedtensor_from_classical.py:reduce/elementwise`  the shape of the call of the user function and of
                                                  `_ensure_output`
* `adapter/decomposednamedtensor_from_classical.py:_expr_to_axis`   translated statement by statement into a Lean fold
* `adapter/_util.py:_ensure_output`               the order isinstance-assert, shape-assert, cast

Anything unrecognised yields the conservative value (no option kinds, `false`, an `_expr_to_axis` that returns `[]`),
under which the dependent obligations of `Props/C15.lean` fail, plus a lost anchor.
"""
import ast
from . import parse, find_func, lean_bool, lean_str

F_UTIL = "einx/_src/frontend/impl/_util.py"
F_NUMPY = "einx/_src/frontend/impl/numpy.py"
F_EFN = "einx/_src/adapter/einx_from_namedtensor.py"
F_DNC = "einx/_src/adapter/decomposednamedtensor_from_classical.py"
F_AUTIL = "einx/_src/adapter/_util.py"

KINDS = {"POSITIONAL_ONLY": ".posOnly", "POSITIONAL_OR_KEYWORD": ".posOrKw", "VAR_POSITIONAL": ".varPos",
         "KEYWORD_ONLY": ".kwOnly", "VAR_KEYWORD": ".varKw"}


def dotted(node):
    if isinstance(node, ast.Name):
        return node.id
    if isinstance(node, ast.Attribute):
        b = dotted(node.value)
        return None if b is None else b + "." + node.attr
    return None


def top_func(tree, name):
    for n in tree.body:
        if isinstance(n, ast.FunctionDef) and n.name == name:
            return n
    return None


def inner_of(fn, name="inner"):
    if fn is None:
        return None
    for n in fn.body:
        if isinstance(n, ast.FunctionDef) and n.name == name:
            return n
    return None


# ---------------------------------------------------------------------------------------------- _make_iskwarg

def make_iskwarg_kinds(tree):
    """-> (option kinds, rejected kinds) as lists of inspect.Parameter kind names."""
    fn = top_func(tree, "_make_iskwarg")
    if fn is None:
        raise LookupError("_make_iskwarg not found")
    loops = [s for s in fn.body if isinstance(s, ast.For)]
    if len(loops) != 1:
        raise LookupError(f"{len(loops)} loops in _make_iskwarg")
    loop = loops[0]
    if not (ast.unparse(loop.iter) == "parameters.items()" and ast.unparse(loop.target) == "(name, param)"):
        raise LookupError("loop is not `for name, param in parameters.items()`")
    # parameters must be the signature's parameters
    src = ast.unparse(fn)
    if "signature = inspect.signature(op)" not in src or "parameters = {**signature.parameters}" not in src:
        raise LookupError("`parameters` is not the signature of `op`")
    option, rejected = [], []
    if len(loop.body) != 1 or not isinstance(loop.body[0], ast.If):
        raise LookupError("loop body is not a single if/elif chain")
    node = loop.body[0]
    while node is not None:
        t = node.test
        if not (isinstance(t, ast.Compare) and ast.unparse(t.left) == "param.kind" and len(t.ops) == 1 and isinstance(t.ops[0], (ast.Is, ast.Eq))
                and (dotted(t.comparators[0]) or "").startswith("inspect.Parameter.")):
            raise LookupError(f"unrecognised test {ast.unparse(t)}")
        kind = dotted(t.comparators[0]).split(".")[-1]
        if kind not in KINDS:
            raise LookupError(f"unknown kind {kind}")
        body = node.body
        if len(body) == 1 and ast.unparse(body[0]) == "kwargnames.append(name)":
            option.append(kind)
        elif len(body) == 1 and isinstance(body[0], ast.Raise):
            rejected.append(kind)
        else:
            raise LookupError(f"unrecognised branch for {kind}")
        if not node.orelse:
            node = None
        elif len(node.orelse) == 1 and isinstance(node.orelse[0], ast.If):
            node = node.orelse[0]
        else:
            raise LookupError("else branch in the kind dispatch")
    ret = fn.body[-1]
    if not (isinstance(ret, ast.Return) and ast.unparse(ret.value) == "lambda name: name in kwargnames"):
        raise LookupError("does not return `lambda name: name in kwargnames`")
    return option, rejected


# ---------------------------------------------------------------------------------------------- adapt_numpylike_*

def adapter_facts(tree, fname, family):
    """-> dict(excluded=[...], passes_iskwarg, passes_expected_type, constant)"""
    fn = top_func(tree, fname)
    if fn is None:
        raise LookupError(f"{fname} not found")
    excluded = None
    for s in fn.body:
        if isinstance(s, ast.Assign) and len(s.targets) == 1 and isinstance(s.targets[0], ast.Name) and s.targets[0].id == "iskwarg":
            v = s.value
            if ast.unparse(v) == "_make_iskwarg(op)":
                excluded = []
            elif (isinstance(v, ast.Lambda) and [a.arg for a in v.args.args] == ["name", "iskwarg"] and len(v.args.defaults) == 1
                  and ast.unparse(v.args.defaults[0]) == "_make_iskwarg(op)" and isinstance(v.body, ast.BoolOp) and isinstance(v.body.op, ast.And)):
                ex = []
                ok = False
                for part in v.body.values:
                    if (isinstance(part, ast.Compare) and isinstance(part.left, ast.Name) and part.left.id == "name" and len(part.ops) == 1
                            and isinstance(part.ops[0], ast.NotEq) and isinstance(part.comparators[0], ast.Constant) and isinstance(part.comparators[0].value, str)):
                        ex.append(part.comparators[0].value)
                    elif ast.unparse(part) == "iskwarg(name)":
                        ok = True
                    else:
                        raise LookupError(f"unrecognised conjunct {ast.unparse(part)}")
                if not ok:
                    raise LookupError("lambda does not consult _make_iskwarg")
                excluded = ex
            else:
                raise LookupError(f"unrecognised iskwarg: {ast.unparse(v)}")
    if excluded is None:
        raise LookupError("no assignment to iskwarg")
    src = [ast.unparse(s) for s in fn.body]
    passes = any(f"adapter.einx_from_namedtensor.{family}(op, iskwarg=iskwarg)" in s for s in src)
    exp = any(f"adapter.decomposednamedtensor_from_classical.{family}(op" in s and "expected_type=np.ndarray" in s for s in src)
    const = any(s == "op = tracer.signature.python.constant(op)" for s in src)
    return {"excluded": excluded, "passes_iskwarg": passes, "passes_expected_type": exp, "constant": const}


# ---------------------------------------------------------------------------------------------- einx_from_namedtensor

def family_reserved(tree, family):
    """Keywords popped by op.inner for this family (add_keepdims_param=True -> what the `if add_keepdims_param:` block pops)."""
    fn = top_func(tree, family)
    if fn is None:
        raise LookupError(f"einx_from_namedtensor.{family} not found")
    ret = fn.body[-1]
    if not (isinstance(ret, ast.Return) and isinstance(ret.value, ast.Call) and ast.unparse(ret.value.func) == "globals()['op']"):
        raise LookupError(f"{family} does not end in a call of op(...)")
    akp = False
    star = False
    for kw in ret.value.keywords:
        if kw.arg == "add_keepdims_param":
            if not isinstance(kw.value, ast.Constant):
                raise LookupError("add_keepdims_param is not a literal")
            akp = bool(kw.value.value)
        if kw.arg is None:
            star = ast.unparse(kw.value) == "kwargs"
    if not star:
        raise LookupError(f"{family} does not forward **kwargs (iskwarg=) to op")
    if not akp:
        return []
    inner = inner_of(top_func(tree, "op"))
    if inner is None:
        raise LookupError("op.inner not found")
    for s in inner.body:
        if isinstance(s, ast.If) and ast.unparse(s.test) == "add_keepdims_param":
            pops = []
            for n in ast.walk(ast.Module(body=s.body, type_ignores=[])):
                if (isinstance(n, ast.Call) and ast.unparse(n.func) == "kwargs.pop" and n.args and isinstance(n.args[0], ast.Constant)):
                    pops.append(n.args[0].value)
            return pops
    raise LookupError("`if add_keepdims_param:` not found in op.inner")


def op_inner_facts(tree):
    inner = inner_of(top_func(tree, "op"))
    if inner is None:
        raise LookupError("op.inner not found")
    clash = split = solve_line = None
    assign_kwargs = None
    for s in inner.body:
        if isinstance(s, ast.If) and ast.unparse(s.test) == "any((iskwarg(name) for name in used_axis_names))":
            if any(isinstance(n, ast.Raise) and "SemanticError" in ast.unparse(n) for n in s.body):
                clash = s.lineno
        if isinstance(s, ast.For) and ast.unparse(s.iter) == "kwargs.items()" and ast.unparse(s.target) == "(key, value)":
            b = s.body
            if (len(b) == 1 and isinstance(b[0], ast.If) and ast.unparse(b[0].test) == "iskwarg(key)"
                    and [ast.unparse(x) for x in b[0].body] == ["new_kwargs[key] = value"]
                    and [ast.unparse(x) for x in b[0].orelse] == ["parameters[key] = value"] and not s.orelse):
                split = s.lineno
        if isinstance(s, ast.Assign) and ast.unparse(s) == "kwargs = new_kwargs":
            assign_kwargs = s.lineno
        if isinstance(s, ast.Assign) and isinstance(s.value, ast.Call) and isinstance(s.value.func, ast.Name) and s.value.func.id == "solve":
            a = s.value.args
            if len(a) >= 5 and ast.unparse(a[4]) == "parameters":
                solve_line = s.lineno
    used_ok = any(isinstance(s, ast.Assign) and ast.unparse(s.targets[0]) == "used_axis_names"
                  and ast.unparse(s.value) == "{expr.name for expr in exprs_in + exprs_out for expr in expr.nodes() if isinstance(expr, stage1.Axis)}"
                  for s in inner.body)
    # the call of the wrapped op receives **kwargs (after `kwargs = new_kwargs`)
    op_call = None
    for n in ast.walk(inner):
        if isinstance(n, ast.Call) and isinstance(n.func, ast.Name) and n.func.id == "op" and any(k.arg is None and ast.unparse(k.value) == "kwargs" for k in n.keywords):
            op_call = n.lineno
    # nothing else may write into parameters / new_kwargs
    writes = [ast.unparse(n) for n in ast.walk(inner) if isinstance(n, (ast.Assign, ast.AugAssign)) and any(
        isinstance(t, ast.Subscript) and ast.unparse(t.value) in ("parameters", "new_kwargs") for t in (n.targets if isinstance(n, ast.Assign) else [n.target]))]
    only_loop_writes = sorted(writes) == ["new_kwargs[key] = value", "parameters[key] = value"]
    return {
        "clash": clash is not None and used_ok and split is not None and clash < split,
        "split": split is not None and assign_kwargs is not None and split < assign_kwargs and only_loop_writes,
        "solver": solve_line is not None and split is not None and split < solve_line,
        "op": op_call is not None and assign_kwargs is not None and assign_kwargs < op_call,
    }


# ---------------------------------------------------------------------------------------------- decomposed-level adapters

def decomposed_facts(tree):
    out = {"reduce_call": False, "reduce_shape": False, "elementwise_call": False, "elementwise_shape": False, "axis_keyword": None}
    r = inner_of(top_func(tree, "reduce"))
    if r is not None:
        src = [ast.unparse(s) for s in r.body]
        if "tensor = op(tensor, axis=_expr_to_axis(expr_in), **kwargs)" in src and "expr_in = tensor.expr" in src and "tensor = tensor.value" in src:
            out["reduce_call"] = True
            out["axis_keyword"] = "axis"
        if ("expr_out = stage3.remove(expr_in, stage3.Brackets, keep_children=False)" in src
                and "op = _ensure_output(op_in, (expr_out.shape,), expected_type=expected_type)" in src
                and ast.unparse(r.body[-1]) == "return NamedTensor(tensor, expr_out)"):
            out["reduce_shape"] = True
    e = inner_of(top_func(tree, "elementwise"))
    if e is not None:
        src = [ast.unparse(s) for s in e.body]
        if "tensor = op(*tensors, **kwargs)" in src:
            out["elementwise_call"] = True
        full = ast.unparse(e)
        if ("op = _ensure_output(op_in, (expr_out.shape,), expected_type=expected_type)" in src and "expr_out = stage3.List.create(out_axes)" in src
                and "idx = np.argmax([axis.value for axis in in_axes_i])" in full and "out_axis_i = in_axes_i[idx].__deepcopy__()" in full
                and "assert len({len(a) for a in in_axes}) == 1" in full
                and "_squeeze_transpose_broadcast(classical, expr_in, tensor, out, broadcast_to_unitary=True)" in full):
            out["elementwise_shape"] = True
    return out


def translate_expr_to_axis(tree):
    """Lean text of `def exprToAxis (expr : List Bool) : List Nat` from `_expr_to_axis`.
    Subset: `L = []`; `for I, V in enumerate(expr): if [not] stage3.is_in_brackets(V): L.append(I [+ c])`; `return tuple(L)`.
    A root dim of a flat expression is modelled by its mark (`stage3.is_in_brackets(V)` ↦ `V`)."""
    fn = top_func(tree, "_expr_to_axis")
    if fn is None:
        raise LookupError("_expr_to_axis not found")
    if [a.arg for a in fn.args.args] != ["expr"]:
        raise LookupError("signature of _expr_to_axis changed")
    b = fn.body
    if len(b) != 3:
        raise LookupError("_expr_to_axis: expected init / loop / return")
    init, loop, ret = b
    if not (isinstance(init, ast.Assign) and isinstance(init.targets[0], ast.Name) and isinstance(init.value, ast.List) and not init.value.elts):
        raise LookupError("init is not `L = []`")
    L = init.targets[0].id
    if not (isinstance(loop, ast.For) and not loop.orelse and isinstance(loop.target, ast.Tuple) and len(loop.target.elts) == 2
            and all(isinstance(x, ast.Name) for x in loop.target.elts) and ast.unparse(loop.iter) == "enumerate(expr)"):
        raise LookupError("loop is not `for I, V in enumerate(expr)`")
    I, V = [x.id for x in loop.target.elts]
    if not (len(loop.body) == 1 and isinstance(loop.body[0], ast.If) and not loop.body[0].orelse and len(loop.body[0].body) == 1):
        raise LookupError("loop body is not a single `if`")
    cond = loop.body[0].test
    neg = False
    if isinstance(cond, ast.UnaryOp) and isinstance(cond.op, ast.Not):
        neg = True
        cond = cond.operand
    if ast.unparse(cond) != f"stage3.is_in_brackets({V})":
        raise LookupError(f"condition outside the subset: {ast.unparse(loop.body[0].test)}")
    app = loop.body[0].body[0]
    if not (isinstance(app, ast.Expr) and isinstance(app.value, ast.Call) and ast.unparse(app.value.func) == f"{L}.append" and len(app.value.args) == 1):
        raise LookupError("conditional statement is not `L.append(...)`")
    e = app.value.args[0]
    if isinstance(e, ast.Name) and e.id == I:
        val = I
    elif (isinstance(e, ast.BinOp) and isinstance(e.op, (ast.Add, ast.Sub)) and isinstance(e.left, ast.Name) and e.left.id == I
          and isinstance(e.right, ast.Constant) and isinstance(e.right.value, int) and e.right.value >= 0):
        val = f"({I} {'+' if isinstance(e.op, ast.Add) else '-'} {e.right.value})"
    elif isinstance(e, ast.Name) and e.id == V:
        raise LookupError("appends the axis (a name), not its position")
    else:
        raise LookupError(f"appended expression outside the subset: {ast.unparse(e)}")
    if ast.unparse(ret) != f"return tuple({L})":
        raise LookupError(f"does not `return tuple({L})` (a tuple of ints)")
    c = f"(!{V})" if neg else V
    lines = [f"/-- Translated from `_expr_to_axis` ({F_DNC}, line {fn.lineno}):", "```"]
    lines += ast.unparse(fn).split("\n")
    lines += ["```", "A root dim of the flat expression is represented by its bracket mark. -/",
              "def exprToAxis (expr : List Bool) : List Nat :=",
              f"  let {L} : List Nat := []",
              f"  let {L} := (expr.zipIdx).foldl (fun ({L} : List Nat) (it : Bool × Nat) =>",
              f"    let {V} := it.1",
              f"    let {I} := it.2",
              f"    let _ := {V}",
              f"    if {c} then {L} ++ [{val}] else {L}) {L}",
              f"  {L}"]
    return "\n".join(lines)


AXIS_FALLBACK = """/-- Conservative stand-in: `_expr_to_axis` could not be translated. -/
def exprToAxis (expr : List Bool) : List Nat :=
  let _ := expr
  []"""


# ---------------------------------------------------------------------------------------------- _ensure_output

def ensure_output_checks(tree):
    """The run-time checks `_ensure_output` traces for a result that is a general tracer, in source order."""
    fn = top_func(tree, "_ensure_output")
    inner = inner_of(fn)
    if inner is None:
        raise LookupError("_ensure_output.inner not found")
    found = []
    for n in ast.walk(inner):
        if isinstance(n, ast.Assign) and ast.unparse(n.targets[0]) == "tensor" and isinstance(n.value, ast.Call):
            f = ast.unparse(n.value.func)
            if f == "tracer.signature.python.assert_" and len(n.value.args) >= 2 and ast.unparse(n.value.args[0]) == "tensor":
                c = ast.unparse(n.value.args[1])
                if c == "tracer.signature.python.builtins.isinstance(tensor, expected_type)":
                    found.append((n.lineno, "isinstance"))
                elif c == "tracer.signature.python.equal(tracer.signature.python.builtins.tuple(tensor.shape), expected_out_shape)":
                    found.append((n.lineno, "shape"))
                else:
                    found.append((n.lineno, "other-assert"))
            elif f == "tracer.cast" and "tracer.signature.classical.Tensor(origin, shape=expected_out_shape)" in ast.unparse(n.value):
                found.append((n.lineno, "cast"))
    found.sort()
    # the result of `op(*args, **kwargs)` must be the thing that is checked, and the checked value the thing returned
    src = ast.unparse(inner)
    if "tensors_out = op(*args, **kwargs)" not in src or "tensors_out2.append(tensor)" not in src:
        raise LookupError("_ensure_output no longer checks the result of op(*args, **kwargs)")
    return [k for _, k in found]


# ---------------------------------------------------------------------------------------------- rendering

def cfg_text(name, doc, option, rejected, excluded, reserved, axis_kw):
    kinds = lambda ks: "[" + ", ".join(KINDS[k] for k in ks) + "]"
    strs = lambda ss: "[" + ", ".join(lean_str(s) for s in ss) + "]"
    ak = "none" if axis_kw is None else f"some {lean_str(axis_kw)}"
    return (f"/-- {doc} -/\ndef {name} : Cfg :=\n  {{ optionKinds := {kinds(option)}, rejectedKinds := {kinds(rejected)}, excluded := {strs(excluded)},\n"
            f"    reserved := {strs(reserved)}, axisKeyword := {ak} }}")


def render(f, axis_text):
    lines = ["import EinxModel.Adapt.Model",
             "/-! GENERATED by tools/extract/adapt.py from /repo -- do not edit. -/",
             "namespace Einx.Extracted.Adapt", "open Einx.Adapt", ""]
    lines.append(cfg_text("reduceCfg", "`adapt_numpylike_reduce` as the source tree defines it now.", f["option"] if f["reduce_ok"] else [], f["rejected"],
                          f["reduce_excluded"], f["reduce_reserved"], f["axis_keyword"]))
    lines.append(cfg_text("elementwiseCfg", "`adapt_numpylike_elementwise` as the source tree defines it now.", f["option"] if f["elementwise_ok"] else [], f["rejected"],
                          f["elementwise_excluded"], f["elementwise_reserved"], None))
    lines.append("")
    for name, doc in [
        ("clashCheckBeforeSplit", "`op.inner` raises SemanticError when an axis name of the description satisfies `iskwarg`, before the keywords are split."),
        ("splitLoopPartitions", "The split loop sends every keyword to exactly one of `new_kwargs` (if `iskwarg(key)`) and `parameters`; nothing else writes to them; `kwargs = new_kwargs`."),
        ("solverGetsParameters", "`solve(…, parameters, …)` receives the `parameters` half."),
        ("opGetsOptions", "The wrapped operation is called with `**kwargs` (the options half)."),
        ("reduceCallShape", "`reduce.inner` calls `op(tensor, axis=_expr_to_axis(expr_in), **kwargs)` on the value/expression of its named tensor."),
        ("reduceExpectedShape", "`reduce.inner` wraps the function in `_ensure_output(op_in, (expr_out.shape,), expected_type)` with `expr_out` = `expr_in` without bracketed axes."),
        ("elementwiseCallShape", "`elementwise.inner` calls `op(*tensors, **kwargs)`."),
        ("elementwiseExpectedShape", "`elementwise.inner` aligns every input to the output and expects the per-position maximum shape."),
        ("adaptersPassExpectedType", "Both numpy adapters pass `expected_type=np.ndarray` and wrap the user function in a `Constant`."),
    ]:
        lines.append(f"/-- {doc} -/")
        lines.append(f"def {name} : Bool := {lean_bool(bool(f[name]))}")
    lines.append("")
    lines.append("/-- The run-time checks `_ensure_output` traces on a result of unknown type, in source order. -/")
    lines.append("def ensureOutputChecks : List String := [" + ", ".join(lean_str(s) for s in f["ensure"]) + "]")
    lines.append("")
    lines.append(axis_text)
    lines += ["", "end Einx.Extracted.Adapt", ""]
    return "\n".join(lines)


CONSERVATIVE = {
    "option": [], "rejected": [], "reduce_ok": False, "elementwise_ok": False, "reduce_excluded": [], "elementwise_excluded": [],
    "reduce_reserved": [], "elementwise_reserved": [], "axis_keyword": None,
    "clashCheckBeforeSplit": False, "splitLoopPartitions": False, "solverGetsParameters": False, "opGetsOptions": False,
    "reduceCallShape": False, "reduceExpectedShape": False, "elementwiseCallShape": False, "elementwiseExpectedShape": False,
    "adaptersPassExpectedType": False, "ensure": [],
}


def fallback():
    return render(dict(CONSERVATIVE), AXIS_FALLBACK)


def extract():
    lost = []
    f = dict(CONSERVATIVE)
    try:
        f["option"], f["rejected"] = make_iskwarg_kinds(parse(F_UTIL))
    except LookupError as e:
        lost.append(("adapt:_make_iskwarg", str(e)))
    tnp = parse(F_NUMPY)
    exp = []
    for fam in ("reduce", "elementwise"):
        try:
            a = adapter_facts(tnp, f"adapt_numpylike_{fam}", fam)
            f[f"{fam}_excluded"] = a["excluded"]
            f[f"{fam}_ok"] = a["passes_iskwarg"]
            if not a["passes_iskwarg"]:
                lost.append((f"adapt:adapt_numpylike_{fam}", "the adapter no longer passes iskwarg= to einx_from_namedtensor"))
            exp.append(a["passes_expected_type"] and a["constant"])
        except LookupError as e:
            lost.append((f"adapt:adapt_numpylike_{fam}", str(e)))
            exp.append(False)
    f["adaptersPassExpectedType"] = all(exp)
    tefn = parse(F_EFN)
    for fam in ("reduce", "elementwise"):
        try:
            f[f"{fam}_reserved"] = family_reserved(tefn, fam)
        except LookupError as e:
            lost.append((f"adapt:einx_from_namedtensor.{fam}", str(e)))
            f[f"{fam}_ok"] = False
    try:
        o = op_inner_facts(tefn)
        f["clashCheckBeforeSplit"], f["splitLoopPartitions"], f["solverGetsParameters"], f["opGetsOptions"] = o["clash"], o["split"], o["solver"], o["op"]
        for k, v in o.items():
            if not v:
                lost.append((f"adapt:op.inner:{k}", "statement shape not recognised"))
    except LookupError as e:
        lost.append(("adapt:op.inner", str(e)))
    tdn = parse(F_DNC)
    d = decomposed_facts(tdn)
    f["reduceCallShape"], f["reduceExpectedShape"] = d["reduce_call"], d["reduce_shape"]
    f["elementwiseCallShape"], f["elementwiseExpectedShape"] = d["elementwise_call"], d["elementwise_shape"]
    f["axis_keyword"] = d["axis_keyword"]
    for k in ("reduce_call", "reduce_shape", "elementwise_call", "elementwise_shape"):
        if not d[k]:
            lost.append((f"adapt:decomposed:{k}", "statement shape not recognised"))
    try:
        axis_text = translate_expr_to_axis(tdn)
        axis_ok = True
    except LookupError as e:
        axis_text, axis_ok = AXIS_FALLBACK, False
        lost.append(("adapt:_expr_to_axis", str(e)))
    try:
        f["ensure"] = ensure_output_checks(parse(F_AUTIL))
        if f["ensure"] != ["isinstance", "shape", "cast"]:
            lost.append(("adapt:_ensure_output", f"checks traced on the result: {f['ensure']}"))
    except LookupError as e:
        lost.append(("adapt:_ensure_output", str(e)))
    facts = dict(f)
    facts["expr_to_axis_translated"] = axis_ok
    return render(f, axis_text), facts, lost
