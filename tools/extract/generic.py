"""T-src for C17: inventory of the places in einx's lowering modules where Python control flow can depend
on an axis length or on a shape, with a classification; the node kinds of the traced IR; keywords in the
emitter's text fragments.

A light intra-function taint analysis finds *length-valued* expressions (`.value` of a solved axis,
an entry of a shape, arithmetic on those, `np.prod` of a shape, a loop variable that ranges over a
shape …) and *shape-valued* expressions (`.shape`, `tuple(shape)`, a tuple/list/comprehension of lengths,
a name that contains "shape" …).  Over-approximation is harmless: it only adds sites that then have to be
of an allowed form.  Recorded sites:

  compare     every comparison (except `is` / `is not`) with a length- or shape-valued operand
  loop        every `for` / comprehension whose iterable is `range(<length>)` or a shape; every `while`
              whose test mentions a length
  select      every call of an order-sensitive selector (argmax, max, sorted, maximum …) on lengths
  repeat      `[...] * <length>`
  truth       a length used directly as the test of `if` / `while` / a conditional expression

Classification (Lean: `Einx.Generic.SizeClass`): eq1, shapeEq, validationRaises, iterShapeEntries and three
anchored special cases are allowed; everything else (rangeLen, whileLen, repeatLen, truthiness, otherCompare,
otherSelect, lostAnchor) makes `extracted_size_decisions_allowed` fail.
"""
import ast

from . import parse, lean_str

MODULES = [
    "einx/_src/adapter/_util.py",
    "einx/_src/adapter/namedtensor_from_decomposednamedtensor.py",
    "einx/_src/adapter/decomposednamedtensor_from_classical.py",
    "einx/_src/adapter/numpy/classical_from_numpy.py",
    "einx/_src/adapter/classical_from_classical.py",
    "einx/_src/tracer/optimizer/classical.py",
]
# functions that must exist (otherwise the inventory silently covers less than it claims)
ANCHORS = {
    "einx/_src/adapter/_util.py": ["_squeeze_transpose_broadcast", "_unravel", "_squeeze_shape", "_stack", "_unsqueeze", "_ensure_output"],
    "einx/_src/adapter/namedtensor_from_decomposednamedtensor.py": ["Decomposer.__call__", "Decomposer._decompose_single", "Decomposer._compose_next", "_matchable"],
    "einx/_src/adapter/decomposednamedtensor_from_classical.py": ["_ravel", "argfind", "elementwise", "reduce", "dot", "_join_exprs"],
    "einx/_src/adapter/numpy/classical_from_numpy.py": ["reshape", "transpose", "broadcast_to", "update_at", "get_at", "split"],
    "einx/_src/tracer/optimizer/classical.py": ["SkipReshape.__call__", "SkipBroadcastTo.__call__", "SkipTranspose.__call__"],
}
SIGNATURE = "einx/_src/tracer/signature/python.py"
GRAPH = "einx/_src/tracer/graph.py"
COMPILER = "einx/_src/tracer/compiler/python/__init__.py"

LEN, SHAPE = "len", "shape"
SELECTORS = {"argmax", "argmin", "max", "min", "sorted", "argsort", "sort", "maximum", "minimum", "amax", "amin", "nanargmax", "nanargmin"}
TO_SEQ = {"tuple", "list", "sorted", "reversed", "set", "asarray", "array", "cumsum", "diff", "maximum", "minimum", "tolist", "_squeeze_shape", "t", "frozenset"}
TO_LEN = {"int", "abs", "prod", "sum", "max", "min", "amax", "amin", "float"}


def _callname(f):
    if isinstance(f, ast.Name):
        return f.id
    if isinstance(f, ast.Attribute):
        return f.attr
    return None


class Scope:
    """Taint environment of one outermost function (nested functions share it: closures)."""

    def __init__(self, fn):
        self.fn = fn
        self.env = {}
        changed = True
        n = 0
        while changed and n < 20:
            changed = False
            n += 1
            for node in ast.walk(fn):
                if isinstance(node, ast.Assign):
                    for t in node.targets:
                        changed |= self.bind(t, node.value)
                elif isinstance(node, ast.AugAssign):
                    k = self.kind(node.value)
                    if k == LEN and isinstance(node.target, ast.Name):
                        changed |= self.set(node.target.id, LEN)
                elif isinstance(node, ast.AnnAssign) and node.value is not None:
                    changed |= self.bind(node.target, node.value)
                elif isinstance(node, (ast.For, ast.comprehension)):
                    changed |= self.bind_iter(node.target, node.iter)
                elif isinstance(node, ast.NamedExpr):
                    changed |= self.bind(node.target, node.value)

    def set(self, name, k):
        if k is None:
            return False
        old = self.env.get(name)
        if old == k or (old == LEN and k == SHAPE):   # keep the first non-trivial kind; LEN is the stronger claim
            return False
        if old is None or (old == SHAPE and k == LEN):
            self.env[name] = k
            return True
        return False

    def bind(self, target, value):
        if isinstance(target, ast.Name):
            return self.set(target.id, self.kind(value))
        if isinstance(target, (ast.Tuple, ast.List)):
            ch = False
            if isinstance(value, (ast.Tuple, ast.List)) and len(value.elts) == len(target.elts):
                for t, v in zip(target.elts, value.elts):
                    ch |= self.bind(t, v)
            return ch
        return False

    def elem_kinds(self, it):
        """Kinds of the components produced by iterating `it` (a list for tuple targets, or one kind)."""
        if isinstance(it, ast.Call):
            nm = _callname(it.func)
            if nm in ("reversed", "list", "tuple", "sorted") and it.args:
                return self.elem_kinds(it.args[0])
            if nm == "enumerate" and it.args:
                return [None, self.elem_kinds(it.args[0])]
            if nm == "zip":
                return [self.elem_kinds(a) for a in it.args]
        k = self.kind(it)
        return LEN if k == SHAPE else None

    def bind_iter(self, target, it):
        ek = self.elem_kinds(it)

        def go(t, k):
            if isinstance(t, ast.Name):
                return self.set(t.id, k if isinstance(k, str) else None)
            if isinstance(t, (ast.Tuple, ast.List)) and isinstance(k, list):
                ch = False
                for tt, kk in zip(t.elts, k):
                    ch |= go(tt, kk)
                return ch
            return False
        return go(target, ek)

    def kind(self, e):
        if e is None:
            return None
        if isinstance(e, ast.Name):
            if e.id in self.env:
                return self.env[e.id]
            if "shape" in e.id.lower():
                return SHAPE
            return None
        if isinstance(e, ast.Attribute):
            if e.attr == "shape":
                return SHAPE
            if e.attr == "value":
                return LEN
            return None
        if isinstance(e, ast.Subscript):
            b = self.kind(e.value)
            if b == SHAPE:
                return SHAPE if isinstance(e.slice, ast.Slice) else LEN
            if b == LEN:
                return LEN
            return None
        if isinstance(e, ast.Call):
            nm = _callname(e.func)
            args = list(e.args)
            if nm == "len":
                return None
            if isinstance(e.func, ast.Attribute) and e.func.attr in ("tolist", "copy") and self.kind(e.func.value) == SHAPE:
                return SHAPE
            ks = [self.kind(a) for a in args]
            if nm in TO_LEN and any(k in (LEN, SHAPE) for k in ks) and nm not in ("max", "min", "maximum", "minimum") :
                return LEN
            if nm in ("max", "min", "amax", "amin") and any(k in (LEN, SHAPE) for k in ks):
                return LEN
            if nm in TO_SEQ and any(k == SHAPE for k in ks):
                return SHAPE
            return None
        if isinstance(e, ast.BinOp):
            l, r = self.kind(e.left), self.kind(e.right)
            if l == LEN or r == LEN:
                if isinstance(e.op, ast.Mult) and (isinstance(e.left, (ast.List, ast.Tuple)) or isinstance(e.right, (ast.List, ast.Tuple))):
                    return SHAPE
                return LEN
            if l == SHAPE or r == SHAPE:
                return SHAPE
            return None
        if isinstance(e, ast.UnaryOp):
            return self.kind(e.operand)
        if isinstance(e, (ast.Tuple, ast.List, ast.Set)):
            ks = [self.kind(x) for x in e.elts]
            return SHAPE if any(k in (LEN, SHAPE) for k in ks) else None
        if isinstance(e, (ast.ListComp, ast.GeneratorExp, ast.SetComp)):
            return SHAPE if self.kind(e.elt) in (LEN, SHAPE) else None
        if isinstance(e, ast.IfExp):
            return self.kind(e.body) or self.kind(e.orelse)
        if isinstance(e, ast.Starred):
            return self.kind(e.value)
        return None


def _functions(tree):
    """(qualified name, node) for every outermost function (module level or method)."""
    out = []
    for n in tree.body:
        if isinstance(n, ast.FunctionDef):
            out.append((n.name, n))
        elif isinstance(n, ast.ClassDef):
            for m in n.body:
                if isinstance(m, ast.FunctionDef):
                    out.append((f"{n.name}.{m.name}", m))
    return out


def _raises(stmts):
    return bool(stmts) and isinstance(stmts[-1], ast.Raise)


def _is_one(e):
    return isinstance(e, ast.Constant) and type(e.value) is int and e.value == 1


def _src(node):
    s = ast.unparse(node)
    return s if len(s) <= 160 else s[:157] + "..."


def sites_of_function(rel, qual, fn):
    sc = Scope(fn)
    sites = []
    raising_tests = set()       # id() of test expressions whose only effect is to raise
    for n in ast.walk(fn):
        if isinstance(n, ast.Assert):
            for c in ast.walk(n.test):
                raising_tests.add(id(c))
        elif isinstance(n, ast.If) and _raises(n.body) and not n.orelse:
            for c in ast.walk(n.test):
                raising_tests.add(id(c))
        elif isinstance(n, ast.If) and n.orelse and _raises(n.orelse) and len(n.orelse) == 1 and False:
            pass

    def add(node, construct, cls):
        sites.append({"file": rel, "line": node.lineno, "func": qual, "construct": construct, "cls": cls})

    for n in ast.walk(fn):
        if isinstance(n, ast.Compare):
            operands = [n.left] + list(n.comparators)
            kinds = [sc.kind(o) for o in operands]
            ops = n.ops
            if all(isinstance(o, (ast.Is, ast.IsNot)) for o in ops):
                continue
            if all(isinstance(o, (ast.In, ast.NotIn)) for o in ops) and kinds[0] != LEN:
                continue
            if not any(k in (LEN, SHAPE) for k in kinds):
                continue
            cls = "otherCompare"
            if len(ops) == 1 and isinstance(ops[0], (ast.Eq, ast.NotEq)):
                a, b = operands
                ka, kb = kinds
                if (ka == LEN and _is_one(b)) or (kb == LEN and _is_one(a)):
                    cls = "eq1"
                elif LEN not in kinds and SHAPE in kinds:
                    cls = "shapeEq"
            if cls == "otherCompare" and id(n) in raising_tests:
                cls = "validationRaises"
            add(n, _src(n), cls)
        elif isinstance(n, (ast.For, ast.comprehension)):
            it = n.iter
            where = n if isinstance(n, ast.For) else it
            if isinstance(it, ast.Call) and _callname(it.func) == "range" and any(sc.kind(a) in (LEN, SHAPE) for a in it.args):
                cls = "rangeLen"
                if qual == "_ravel" and _src(it) == "range(ndim)" and _ravel_ndim_is_coordinate_axis(fn):
                    cls = "coordComponents"
                add(where, "for " + _src(n.target) + " in " + _src(it), cls)
            else:
                ek = sc.elem_kinds(it)

                def has_len(k):
                    return k == LEN or (isinstance(k, list) and any(has_len(x) for x in k))
                if has_len(ek):
                    add(where, "for " + _src(n.target) + " in " + _src(it), "iterShapeEntries")
        elif isinstance(n, ast.While):
            if any(sc.kind(c) == LEN for c in ast.walk(n.test) if isinstance(c, ast.expr)):
                add(n, "while " + _src(n.test), "whileLen")
        elif isinstance(n, ast.Call):
            nm = _callname(n.func)
            if nm in SELECTORS and any(sc.kind(a) in (LEN, SHAPE) for a in n.args):
                cls = "otherSelect"
                s = _src(n)
                if qual == "elementwise" and s == "np.argmax([axis.value for axis in in_axes_i])":
                    cls = "selectUnitOrCommon"
                elif qual == "update_at" and s == "_np.maximum(_np.asarray(indices.shape), _np.asarray(updates.shape))":
                    cls = "broadcastShapeMax"
                add(n, s, cls)
            if nm == "range" and any(sc.kind(a) in (LEN, SHAPE) for a in n.args):
                # a range over a length outside a loop header (e.g. list(range(length)))
                if not any(isinstance(p, (ast.For, ast.comprehension)) and p.iter is n for p in ast.walk(fn)):
                    add(n, _src(n), "rangeLen")
        elif isinstance(n, ast.BinOp) and isinstance(n.op, ast.Mult):
            for a, b in ((n.left, n.right), (n.right, n.left)):
                if isinstance(a, (ast.List, ast.Tuple)) and sc.kind(b) == LEN:
                    add(n, _src(n), "repeatLen")
        if isinstance(n, (ast.If, ast.While, ast.IfExp)):
            t = n.test
            if not isinstance(t, (ast.Compare, ast.BoolOp, ast.Call)) and sc.kind(t) == LEN:
                add(n, "if " + _src(t), "truthiness")
    return sites


def _ravel_ndim_is_coordinate_axis(fn):
    """`ndim = shape[axis[0]]` with `axis = _expr_to_axis(expr_coord)`: the length of the bracketed coordinate axis."""
    ok1 = ok2 = False
    for n in ast.walk(fn):
        if isinstance(n, ast.Assign) and len(n.targets) == 1 and isinstance(n.targets[0], ast.Name):
            if n.targets[0].id == "ndim" and ast.unparse(n.value) == "shape[axis[0]]":
                ok1 = True
            if n.targets[0].id == "axis" and ast.unparse(n.value) == "_expr_to_axis(expr_coord)":
                ok2 = True
    n_ndim_assign = sum(1 for n in ast.walk(fn) if isinstance(n, ast.Assign) and any(isinstance(t, ast.Name) and t.id == "ndim" for t in n.targets))
    return ok1 and ok2 and n_ndim_assign == 1


def node_kinds():
    """Subclasses of tracer.Application: the node kinds of the traced IR."""
    kinds = []
    for rel in (SIGNATURE, GRAPH):
        tree = parse(rel)
        for n in ast.walk(tree):
            if isinstance(n, ast.ClassDef):
                for b in n.bases:
                    bn = b.attr if isinstance(b, ast.Attribute) else (b.id if isinstance(b, ast.Name) else None)
                    if bn == "Application":
                        kinds.append(n.name)
    return kinds


KEYWORDS = ("for", "while", "if", "else", "elif", "lambda", "try", "except", "with", "yield", "class", "async", "await", "and", "or", "not")


def emitter_keywords():
    """String fragments inside the emitter's `*to_code` functions / lambdas that contain a Python keyword
    which would open a loop, a branch, a comprehension … in the emitted text."""
    import re
    tree = parse(COMPILER)
    hits = []
    rx = re.compile(r"(?<![A-Za-z0-9_])(" + "|".join(KEYWORDS) + r")(?![A-Za-z0-9_])")
    n_frag = 0
    for fn in ast.walk(tree):
        if (isinstance(fn, ast.FunctionDef) and fn.name.endswith("to_code")) or isinstance(fn, ast.Lambda):
            for c in ast.walk(fn):
                if isinstance(c, ast.Constant) and isinstance(c.value, str):
                    n_frag += 1
                    if rx.search(c.value):
                        hits.append((c.lineno, c.value))
    return hits, n_frag


def _lean_sites(sites):
    rows = []
    for s in sites:
        rows.append(f"  ⟨{lean_str(s['file'])}, {s['line']}, {lean_str(s['func'])}, {lean_str(s['construct'])}, .{s['cls']}⟩")
    return "[\n" + ",\n".join(rows) + "\n]" if rows else "[]"


def _render(sites, kinds, kw, nfrag):
    return (
        "import EinxModel.Generic.Sites\n"
        "/-! GENERATED by tools/extract/generic.py from /repo -- do not edit. -/\n"
        "namespace Einx.Extracted\nopen Einx.Generic\n\n"
        "/-- Every place in the lowering modules where Python control flow looks at an axis length or a shape. -/\n"
        f"def sizeSites : List SizeSite := {_lean_sites(sites)}\n\n"
        "/-- Subclasses of `tracer.Application` (the node kinds of the traced IR). -/\n"
        f"def nodeKinds : List String := [{', '.join(lean_str(k) for k in kinds)}]\n\n"
        "/-- Text fragments of the emitter's `to_code` functions that contain a control-flow keyword. -/\n"
        f"def emitterKeywordFragments : List (Nat × String) := [{', '.join(f'({ln}, {lean_str(v)})' for ln, v in kw)}]\n"
        f"def emitterFragmentCount : Nat := {nfrag}\n\n"
        "end Einx.Extracted\n"
    )


def extract():
    lost = []
    sites = []
    for rel in MODULES:
        try:
            tree = parse(rel)
        except (OSError, SyntaxError) as e:
            lost.append((f"generic:{rel}", f"cannot read/parse: {e}"))
            sites.append({"file": rel, "line": 0, "func": "*", "construct": "module missing", "cls": "lostAnchor"})
            continue
        fns = _functions(tree)
        names = {q for q, _ in fns}
        for a in ANCHORS.get(rel, []):
            if a not in names:
                lost.append((f"generic:{rel}:{a}", "anchor function not found"))
                sites.append({"file": rel, "line": 0, "func": a, "construct": "anchor function not found", "cls": "lostAnchor"})
        for q, fn in fns:
            sites.extend(sites_of_function(rel, q, fn))
    sites.sort(key=lambda s: (s["file"], s["line"], s["construct"], s["cls"]))
    # de-duplicate (a comprehension inside a nested function is reached once per outermost function only)
    seen = set()
    uniq = []
    for s in sites:
        key = (s["file"], s["line"], s["construct"], s["cls"])
        if key not in seen:
            seen.add(key)
            uniq.append(s)
    try:
        kinds = node_kinds()
        if not kinds:
            raise ValueError("no Application subclasses found")
    except Exception as e:
        lost.append(("generic:node-kinds", str(e)))
        kinds = ["<lost>"]
    try:
        kw, nfrag = emitter_keywords()
        if nfrag == 0:
            raise ValueError("no to_code fragments found")
    except Exception as e:
        lost.append(("generic:emitter-keywords", str(e)))
        kw, nfrag = [(0, "<lost>")], 0
    facts = {"sites": uniq, "node_kinds": kinds, "emitter_keyword_fragments": kw, "emitter_fragments": nfrag,
             "by_class": {c: sum(1 for s in uniq if s["cls"] == c) for c in sorted({s["cls"] for s in uniq})}}
    return _render(uniq, kinds, kw, nfrag), facts, lost


def fallback():
    return _render([{"file": "*", "line": 0, "func": "*", "construct": "extractor failed", "cls": "lostAnchor"}], ["<lost>"], [(0, "<lost>")], 0)
