"""T-src for C02 (CSE part): `_value_range`, `_has_repeated_axis` and the filter that uses them, read from /repo's AST.

* `einx/_src/namedtensor/stage2/cse.py`
  - `_value_range`: the dispatch (`Axis` / `FlattenedAxis, Brackets` -> recursion on `.inner` /
    `list, List, ConcatenatedAxis` -> children) is recognised structurally; the `Axis` rule and the combination of
    the children's ranges (any-None guard, `unbounded` / `fixed` comprehensions, sum rule, product of constants,
    product rule) are translated expression by expression into Lean (`valueRangeAxis`, `valueRangeCombine`) by a
    mini translator for the subset of Python these lines use; `valueRangeX` is the recursion assembled from them.
  - `_has_repeated_axis`: recognised as `names = [v.name … if isinstance(v, Axis)]; return len(names) != len(set(names))`.
  - `cse`: the candidate filter `all(_value_range(exprlist) is not None and not _has_repeated_axis(exprlist) …)`,
    that no later statement enlarges `common_exprs`, and that both replacement `Axis(f"cse.{idx}", …)` calls pass
    `min_value=_value_range(<what is replaced>)[0]` and the value of what is replaced.
* `einx/_src/namedtensor/stage3/solve.py`: a solution with `axis_values[id(expr)] < expr.min_value` is rejected with
  `SolveExceptionNoSolution`.
* `einx/_src/namedtensor/stage2/tree.py`: `Axis.__init__(…, min_value=1)` stores `min_value`, `__deepcopy__` keeps it.

Anything unrecognised yields the conservative value (`false`; a `valueRangeCombine` that always answers `none`), under
which the obligations of `Props/C02.lean` fail, plus a lost anchor.
"""
import ast
from . import parse, find_class, find_func, lean_bool

FILE_CSE = "einx/_src/namedtensor/stage2/cse.py"
FILE_S3 = "einx/_src/namedtensor/stage3/solve.py"
FILE_TREE = "einx/_src/namedtensor/stage2/tree.py"


class Untranslatable(Exception):
    pass


def unparse(n):
    return ast.unparse(n)


# ---------------------------------------------------------------------------------------------- mini translator

class Tr:
    """Python expression -> Lean, for the lines of `_value_range` after `ranges = […]`.

    Typing: `ranges : List (Nat × Bool)` (after the None guard), `unbounded`, `fixed : List Nat`; tuple variables of a
    comprehension `for minimum, unbounded in ranges` are the projections `r.1`, `r.2` of the element."""

    CMP = {ast.Gt: ">", ast.GtE: "≥", ast.Lt: "<", ast.LtE: "≤"}

    def __init__(self):
        self.env = {}          # python name -> lean term (comprehension variables)
        self.lists = set()     # names bound to List Nat

    def name(self, n):
        if n in self.env:
            return self.env[n]
        return n

    def nat(self, e):
        """expression of type Nat"""
        if isinstance(e, ast.Constant) and isinstance(e.value, int) and not isinstance(e.value, bool) and e.value >= 0:
            return str(e.value)
        if isinstance(e, ast.Name):
            return self.name(e.id)
        if isinstance(e, ast.BinOp) and isinstance(e.op, ast.Add):
            return f"({self.nat(e.left)} + {self.nat(e.right)})"
        if isinstance(e, ast.Call) and not e.keywords and len(e.args) == 1:
            f = unparse(e.func)
            a = e.args[0]
            if f == "sum" and isinstance(a, ast.Name) and a.id in self.lists:
                return f"{a.id}.sum"
            if f == "sum" and isinstance(a, ast.GeneratorExp):
                # the counting idiom  sum(1 for v in xs if cond)
                if (isinstance(a.elt, ast.Constant) and a.elt.value == 1 and len(a.generators) == 1):
                    g = a.generators[0]
                    if isinstance(g.target, ast.Name) and isinstance(g.iter, ast.Name) and g.iter.id in self.lists and len(g.ifs) == 1 and not g.is_async:
                        saved = dict(self.env)
                        self.env[g.target.id] = g.target.id
                        cond = self.boolean(g.ifs[0])
                        self.env = saved
                        return f"({g.iter.id}.filter (fun {g.target.id} => {cond})).length"
            if f == "math.prod" and isinstance(a, ast.Name) and a.id in self.lists:
                return f"natProd {a.id}"
            if f == "max" and isinstance(a, ast.Name) and a.id in self.lists:
                return f"listMax {a.id}"
            if f == "len" and isinstance(a, ast.Name) and a.id in self.lists:
                return f"{a.id}.length"
        raise Untranslatable(f"integer expression outside the subset: {unparse(e)}")

    def boolean(self, e):
        """expression of type Bool"""
        if isinstance(e, ast.Constant) and isinstance(e.value, bool):
            return lean_bool(e.value)
        if isinstance(e, ast.Name) and e.id in self.env:
            return self.env[e.id]
        if isinstance(e, ast.UnaryOp) and isinstance(e.op, ast.Not):
            return f"!{self.boolean(e.operand)}"
        if isinstance(e, ast.BoolOp) and isinstance(e.op, ast.And):
            return "(" + " && ".join(self.boolean(v) for v in e.values) + ")"
        if isinstance(e, ast.Compare) and len(e.ops) == 1:
            op = e.ops[0]
            if type(op) in self.CMP:
                return f"decide ({self.nat(e.left)} {self.CMP[type(op)]} {self.nat(e.comparators[0])})"
            if isinstance(op, ast.Eq):
                return f"({self.nat(e.left)} == {self.nat(e.comparators[0])})"
        if isinstance(e, ast.Call) and unparse(e.func) == "all" and len(e.args) == 1 and isinstance(e.args[0], ast.GeneratorExp):
            a = e.args[0]
            if len(a.generators) == 1:
                g = a.generators[0]
                if isinstance(g.target, ast.Name) and isinstance(g.iter, ast.Name) and g.iter.id in self.lists and not g.ifs:
                    saved = dict(self.env)
                    self.env[g.target.id] = g.target.id
                    body = self.boolean(a.elt)
                    self.env = saved
                    return f"{g.iter.id}.all (fun {g.target.id} => {body})"
        if (isinstance(e, ast.Call) and unparse(e.func) == "isinstance" and len(e.args) == 2
                and unparse(e.args[0]) == "expr" and unparse(e.args[1]) == "ConcatenatedAxis"):
            return "isConcat"
        raise Untranslatable(f"boolean expression outside the subset: {unparse(e)}")

    def projection_list(self, e):
        """[minimum for minimum, unbounded in ranges if <unbounded | not unbounded>] -> (ranges.filter …).map (·.1)"""
        if not (isinstance(e, ast.ListComp) and len(e.generators) == 1):
            raise Untranslatable(f"not a comprehension: {unparse(e)}")
        g = e.generators[0]
        if not (isinstance(g.target, ast.Tuple) and len(g.target.elts) == 2 and all(isinstance(t, ast.Name) for t in g.target.elts)
                and isinstance(g.iter, ast.Name) and g.iter.id == "ranges" and len(g.ifs) == 1):
            raise Untranslatable(f"comprehension outside the subset: {unparse(e)}")
        a, b = (t.id for t in g.target.elts)
        saved = dict(self.env)
        self.env[a] = "r.1"
        self.env[b] = "r.2"
        cond = self.boolean(g.ifs[0])
        if not isinstance(e.elt, ast.Name):
            raise Untranslatable(f"comprehension element outside the subset: {unparse(e.elt)}")
        elt = self.name(e.elt.id)
        self.env = saved
        if elt not in ("r.1",):
            raise Untranslatable(f"comprehension element is not the minimum: {unparse(e.elt)}")
        return f"(ranges.filter (fun r => {cond})).map (fun r => {elt})"

    def result(self, e):
        """a returned value: None | (nat, bool)"""
        if isinstance(e, ast.Constant) and e.value is None:
            return "none"
        if isinstance(e, ast.Tuple) and len(e.elts) == 2:
            return f"some ({self.nat(e.elts[0])}, {self.boolean(e.elts[1])})"
        raise Untranslatable(f"returned value outside the subset: {unparse(e)}")

    def ifchain(self, s, ind):
        """if/elif/else whose branches are single returns"""
        if isinstance(s, ast.Return):
            return " " * ind + self.result(s.value)
        if isinstance(s, ast.If) and len(s.body) == 1 and len(s.orelse) == 1:
            return (" " * ind + f"if {self.boolean(s.test)} then\n" + self.ifchain(s.body[0], ind + 2) + "\n"
                    + " " * ind + "else\n" + self.ifchain(s.orelse[0], ind + 2))
        raise Untranslatable(f"statement outside the subset: {unparse(s)[:80]}")


def is_isinstance(test, var, classes):
    """`isinstance(<var>, C)` / `isinstance(<var>, (C1, C2, …))` with exactly these classes, in this order"""
    if not (isinstance(test, ast.Call) and unparse(test.func) == "isinstance" and len(test.args) == 2 and unparse(test.args[0]) == var):
        return False
    c = test.args[1]
    names = [unparse(x) for x in c.elts] if isinstance(c, ast.Tuple) else [unparse(c)]
    return names == list(classes)


def translate_value_range(tree):
    """-> (lean text of valueRangeAxis, lean text of valueRangeCombine)"""
    fn = find_func(tree, "_value_range")
    if fn is None:
        raise Untranslatable("_value_range not found")
    if [a.arg for a in fn.args.args] != ["expr"]:
        raise Untranslatable("signature of _value_range changed")
    body = [s for s in fn.body if not (isinstance(s, ast.Expr) and isinstance(s.value, ast.Constant) and isinstance(s.value.value, str))]
    if len(body) != 1 or not isinstance(body[0], ast.If):
        raise Untranslatable("_value_range is not a single if/elif chain")
    s = body[0]
    # --- branch 1: Axis
    if not is_isinstance(s.test, "expr", ["Axis"]):
        raise Untranslatable("first branch is not isinstance(expr, Axis)")
    if not (len(s.body) == 1 and isinstance(s.body[0], ast.Return) and isinstance(s.body[0].value, ast.IfExp)):
        raise Untranslatable("Axis branch is not a single conditional return")
    ie = s.body[0].value
    if unparse(ie.test) != "expr.value is None":
        raise Untranslatable(f"Axis rule tests {unparse(ie.test)}")

    def axis_pair(t):
        if not (isinstance(t, ast.Tuple) and len(t.elts) == 2 and isinstance(t.elts[1], ast.Constant) and isinstance(t.elts[1].value, bool)):
            raise Untranslatable(f"Axis rule result {unparse(t)}")
        src = unparse(t.elts[0])
        if src not in ("expr.min_value", "expr.value"):
            raise Untranslatable(f"Axis rule result {unparse(t)}")
        return src, t.elts[1].value
    (n_src, n_ub), (s_src, s_ub) = axis_pair(ie.body), axis_pair(ie.orelse)
    if n_src != "expr.min_value":
        raise Untranslatable("Axis rule for an unknown value does not use expr.min_value")   # expr.value is None there
    s_term = "v" if s_src == "expr.value" else "min_value"
    axis_text = ("def valueRangeAxis (value : Option Nat) (min_value : Nat) : Nat × Bool :=\n"
                 "  match value with\n"
                 f"  | none => (min_value, {lean_bool(n_ub)})\n"
                 f"  | some v => ({s_term}, {lean_bool(s_ub)})")
    # --- branch 2: FlattenedAxis / Brackets -> recursion on inner
    if len(s.orelse) != 1 or not isinstance(s.orelse[0], ast.If):
        raise Untranslatable("no second branch")
    s2 = s.orelse[0]
    if not is_isinstance(s2.test, "expr", ["FlattenedAxis", "Brackets"]):
        raise Untranslatable("second branch is not isinstance(expr, (FlattenedAxis, Brackets))")
    if not (len(s2.body) == 1 and isinstance(s2.body[0], ast.Return) and unparse(s2.body[0].value) == "_value_range(expr.inner)"):
        raise Untranslatable("FlattenedAxis/Brackets branch is not `return _value_range(expr.inner)`")
    # --- branch 3: list / List / ConcatenatedAxis
    if len(s2.orelse) != 1 or not isinstance(s2.orelse[0], ast.If):
        raise Untranslatable("no third branch")
    s3 = s2.orelse[0]
    if not is_isinstance(s3.test, "expr", ["list", "List", "ConcatenatedAxis"]):
        raise Untranslatable("third branch is not isinstance(expr, (list, List, ConcatenatedAxis))")
    if not (len(s3.orelse) == 1 and isinstance(s3.orelse[0], ast.Raise)):
        raise Untranslatable("the chain does not end in `else: raise`")
    b = s3.body
    if len(b) != 5:
        raise Untranslatable(f"combination branch has {len(b)} statements, expected 5")
    if not (isinstance(b[0], ast.Assign) and unparse(b[0].targets[0]) == "ranges"
            and unparse(b[0].value) == "[_value_range(c) for c in (expr if isinstance(expr, list) else expr.children)]"):
        raise Untranslatable("`ranges` is not the list of the children's ranges")
    if not (isinstance(b[1], ast.If) and unparse(b[1].test) == "any((r is None for r in ranges))" and not b[1].orelse
            and len(b[1].body) == 1 and isinstance(b[1].body[0], ast.Return) and unparse(b[1].body[0].value) == "None"):
        raise Untranslatable("the any-None guard changed")
    tr = Tr()
    lets = []
    for st in b[2:4]:
        if not (isinstance(st, ast.Assign) and len(st.targets) == 1 and isinstance(st.targets[0], ast.Name)):
            raise Untranslatable(f"statement outside the subset: {unparse(st)}")
        nm = st.targets[0].id
        lets.append((nm, tr.projection_list(st.value)))
        tr.lists.add(nm)
    if [n for n, _ in lets] != ["unbounded", "fixed"]:
        raise Untranslatable("expected `unbounded = …; fixed = …`")
    chain = tr.ifchain(b[4], 4)
    lines = ["/-- Translated from the `list / List / ConcatenatedAxis` branch of `_value_range` (" + FILE_CSE + f", line {s3.lineno}):",
             "```"]
    for st in b[1:]:
        lines += unparse(st).split("\n")
    lines += ["```",
              "`ranges` holds `Option`s before the guard and pairs after it; `isConcat` is `isinstance(expr, ConcatenatedAxis)`. -/",
              "def valueRangeCombine (isConcat : Bool) (ranges : List (Option (Nat × Bool))) : Option (Nat × Bool) :=",
              "  if ranges.any (fun r => r.isNone) then none",
              "  else",
              "    let ranges : List (Nat × Bool) := ranges.filterMap id"]
    for nm, val in lets:
        lines.append(f"    let {nm} : List Nat := {val}")
    lines.append(chain)
    return axis_text, "\n".join(lines)


AXIS_FALLBACK = """/-- Conservative stand-in: the `Axis` rule of `_value_range` could not be translated. -/
def valueRangeAxis (value : Option Nat) (min_value : Nat) : Nat × Bool :=
  let _ := value
  (min_value + 1, false)"""

COMBINE_FALLBACK = """/-- Conservative stand-in: the combination rule of `_value_range` could not be translated. -/
def valueRangeCombine (isConcat : Bool) (ranges : List (Option (Nat × Bool))) : Option (Nat × Bool) :=
  let _ := isConcat
  let _ := ranges
  none"""


# ---------------------------------------------------------------------------------------------- structural facts

def has_repeated_axis_ok(tree):
    fn = find_func(tree, "_has_repeated_axis")
    if fn is None or [a.arg for a in fn.args.args] != ["exprlist"] or len(fn.body) != 2:
        return False, "_has_repeated_axis not found or reshaped"
    a, r = fn.body
    ok_a = (isinstance(a, ast.Assign) and unparse(a.targets[0]) == "names"
            and unparse(a.value) == "[v.name for expr in exprlist for v in expr.nodes() if isinstance(v, Axis)]")
    ok_r = isinstance(r, ast.Return) and unparse(r.value) == "len(names) != len(set(names))"
    if not (ok_a and ok_r):
        return False, "_has_repeated_axis no longer compares len(names) with len(set(names)) over all Axis names"
    return True, ""


FILTER_SRC = "all((_value_range(exprlist) is not None and (not _has_repeated_axis(exprlist)) for exprlist in common_expr))"


def cse_filter_facts(tree):
    """-> (filter_ok, monotone_ok, why)"""
    fn = find_func(tree, "cse")
    if fn is None:
        return False, False, "cse not found"
    assigns = [(i, s) for i, s in enumerate(fn.body)
               if isinstance(s, ast.Assign) and len(s.targets) == 1 and unparse(s.targets[0]) == "common_exprs"]
    filt = None
    for i, s in assigns:
        v = s.value
        if (isinstance(v, ast.ListComp) and unparse(v.elt) == "common_expr" and len(v.generators) == 1
                and unparse(v.generators[0].target) == "common_expr" and unparse(v.generators[0].iter) == "common_exprs"
                and len(v.generators[0].ifs) == 1 and unparse(v.generators[0].ifs[0]) == FILTER_SRC):
            filt = i
    if filt is None:
        return False, False, "the filter `_value_range(…) is not None and not _has_repeated_axis(…)` over every exprlist of a candidate is gone"
    # the filter is a top-level statement of cse (not under an `if`), before `replace` is defined / called
    rep = [i for i, s in enumerate(fn.body) if isinstance(s, ast.FunctionDef) and s.name == "replace"]
    if not rep or rep[0] < filt:
        return True, False, "the filter no longer precedes `replace`"

    def only_filters(stmts):
        for s in stmts:
            for n in ast.walk(s):
                if isinstance(n, (ast.Assign, ast.AugAssign, ast.AnnAssign)):
                    tg = n.targets if isinstance(n, ast.Assign) else [n.target]
                    if any(unparse(t) == "common_exprs" for t in tg):
                        v = n.value
                        if not (isinstance(n, ast.Assign) and isinstance(v, ast.ListComp) and unparse(v.elt) == "common_expr"
                                and len(v.generators) == 1 and unparse(v.generators[0].target) == "common_expr"
                                and unparse(v.generators[0].iter) == "common_exprs"):
                            return False
                if isinstance(n, ast.Call) and isinstance(n.func, ast.Attribute) and unparse(n.func.value) == "common_exprs" \
                        and n.func.attr in ("append", "extend", "insert", "__iadd__", "add"):
                    return False
        return True
    if not only_filters(fn.body[filt + 1:]):
        return True, False, "a statement after the filter does something other than filtering `common_exprs`"
    return True, True, ""


def replacement_facts(tree):
    """Every `Axis(f"cse.{idx}", …)` in `replace` passes min_value=_value_range(<replaced>)[0] and the value of <replaced>."""
    fn = find_func(tree, "cse")
    rep = find_func(fn, "replace") if fn is not None else None
    if rep is None:
        return False, False, "cse.replace not found"
    calls = []
    for n in ast.walk(rep):
        if (isinstance(n, ast.Call) and unparse(n.func) == "Axis" and n.args and isinstance(n.args[0], ast.JoinedStr)
                and unparse(n.args[0]).startswith("f'cse.")):
            calls.append(n)
    if len(calls) != 2:
        return False, False, f"{len(calls)} replacement Axis constructions, expected 2"
    min_ok, val_ok = True, True
    for c in calls:
        kw = {k.arg: k.value for k in c.keywords}
        mv = unparse(kw["min_value"]) if "min_value" in kw else ""
        val = unparse(c.args[1]) if len(c.args) > 1 else ""
        if mv == "_value_range(expr)[0]":
            val_ok = val_ok and val == "expr.value"
        elif mv == "_value_range(exprlist)[0]":
            val_ok = val_ok and val == "value"
        else:
            min_ok = False
    # `value` of a run of children: None if any child's value is None, else the product
    src = unparse(rep)
    if "values = [e.value for e in exprlist]" not in src or "value = math.prod(values)" not in src:
        val_ok = False
    why = "" if (min_ok and val_ok) else "a replacement axis no longer records min_value=_value_range(…)[0] / the value of what it replaces"
    return min_ok, val_ok, why


def stage3_min_check(tree):
    fn = find_func(tree, "solve")
    if fn is None:
        return False, "stage3.solve not found"
    for n in ast.walk(fn):
        if isinstance(n, ast.If) and unparse(n.test) == "isinstance(expr, stage2.Axis) and axis_values[id(expr)] < expr.min_value":
            if len(n.body) == 1 and unparse(n.body[0]) == "failed_exprs.add(expr)" and not n.orelse:
                # … and a non-empty failed_exprs raises SolveExceptionNoSolution
                for m in ast.walk(fn):
                    if (isinstance(m, ast.If) and unparse(m.test) == "len(failed_exprs) > 0" and len(m.body) == 1
                            and isinstance(m.body[0], ast.Raise) and unparse(m.body[0].exc) == "solver.SolveExceptionNoSolution()"):
                        return True, ""
    return False, "stage3/solve.py no longer rejects axis values below expr.min_value with SolveExceptionNoSolution"


def axis_min_facts(tree):
    """-> (default min_value or None, stored_and_copied)"""
    cls = find_class(tree, "Axis")
    init = find_func(cls, "__init__") if cls is not None else None
    if init is None:
        return None, False, "stage2.Axis.__init__ not found"
    names = [a.arg for a in init.args.args]
    default = None
    if "min_value" in names:
        k = names.index("min_value") - (len(names) - len(init.args.defaults))
        if 0 <= k < len(init.args.defaults):
            d = init.args.defaults[k]
            if isinstance(d, ast.Constant) and isinstance(d.value, int) and not isinstance(d.value, bool) and d.value >= 0:
                default = d.value
    stored = any(isinstance(s, ast.Assign) and unparse(s.targets[0]) == "self.min_value" and unparse(s.value) == "min_value" for s in init.body)
    dc = find_func(cls, "__deepcopy__")
    copied = dc is not None and "min_value=self.min_value" in unparse(dc)
    ok = default is not None and stored and copied
    return default, stored and copied, "" if ok else "stage2.Axis no longer takes/stores/copies min_value (default a constant)"


# ---------------------------------------------------------------------------------------------- rendering

def render(axis_text, combine_text, f):
    lines = ["import EinxModel.Solve.Cse",
             "/-! GENERATED by tools/extract/cse.py from /repo -- do not edit. -/",
             "namespace Einx.Extracted.Cse", "open Einx.Solve", "",
             axis_text, "", combine_text, "",
             "mutual",
             "/-- `_value_range` as the source tree defines it now: the recognised dispatch over the translated rules. -/",
             "def valueRangeX : VExpr → Option (Nat × Bool)",
             "  | .axis _ value minValue => some (valueRangeAxis value minValue)",
             "  | .flat e => valueRangeX e",
             "  | .brackets e => valueRangeX e",
             "  | .list cs => valueRangeCombine false (valueRangesX cs)",
             "  | .concat cs => valueRangeCombine true (valueRangesX cs)",
             "def valueRangesX : List VExpr → List (Option (Nat × Bool))",
             "  | [] => []",
             "  | c :: cs => valueRangeX c :: valueRangesX cs",
             "end", "",
             "/-- `_has_repeated_axis` compares `len(names)` with `len(set(names))` over the names of all `Axis` nodes. -/",
             f"def hasRepeatedAxisRecognised : Bool := {lean_bool(f['has_repeated_ok'])}",
             "/-- `cse` keeps a candidate only if `_value_range(l) is not None and not _has_repeated_axis(l)` for every occurrence `l`. -/",
             f"def filterPresent : Bool := {lean_bool(f['filter_ok'])}",
             "/-- the filter precedes `replace`, and every later statement only filters `common_exprs` further. -/",
             f"def filterFinal : Bool := {lean_bool(f['monotone_ok'])}",
             "/-- both replacement axes are built with `min_value=_value_range(<what is replaced>)[0]`. -/",
             f"def replacementRecordsMin : Bool := {lean_bool(f['min_ok'])}",
             "/-- both replacement axes carry the value of what they replace (`None` if any part is unknown, else the product). -/",
             f"def replacementKeepsValue : Bool := {lean_bool(f['val_ok'])}",
             "/-- stage3/solve.py rejects `axis_values[id(expr)] < expr.min_value` with `SolveExceptionNoSolution`. -/",
             f"def stage3ChecksMin : Bool := {lean_bool(f['stage3_ok'])}",
             "/-- default `min_value` of `stage2.Axis` (`0` = not recognised; the obligation demands `1`). -/",
             f"def axisDefaultMin : Nat := {f['axis_default'] if f['axis_default'] is not None else 0}",
             "/-- `stage2.Axis` stores `min_value` and `__deepcopy__` keeps it. -/",
             f"def axisKeepsMin : Bool := {lean_bool(f['axis_keeps'])}",
             "", "end Einx.Extracted.Cse", ""]
    return "\n".join(lines)


CONSERVATIVE = {"has_repeated_ok": False, "filter_ok": False, "monotone_ok": False, "min_ok": False, "val_ok": False,
                "stage3_ok": False, "axis_default": None, "axis_keeps": False}


def fallback():
    return render(AXIS_FALLBACK, COMBINE_FALLBACK, dict(CONSERVATIVE))


def extract():
    lost = []
    tree = parse(FILE_CSE)
    f = dict(CONSERVATIVE)
    try:
        axis_text, combine_text = translate_value_range(tree)
        f["translated"] = True
    except Untranslatable as e:
        axis_text, combine_text = AXIS_FALLBACK, COMBINE_FALLBACK
        f["translated"] = False
        lost.append(("cse:_value_range", str(e)))
    ok, why = has_repeated_axis_ok(tree)
    f["has_repeated_ok"] = ok
    if not ok:
        lost.append(("cse:_has_repeated_axis", why))
    fo, mo, why = cse_filter_facts(tree)
    f["filter_ok"], f["monotone_ok"] = fo, mo
    if not (fo and mo):
        lost.append(("cse:filter", why))
    mi, va, why = replacement_facts(tree)
    f["min_ok"], f["val_ok"] = mi, va
    if not (mi and va):
        lost.append(("cse:replacement", why))
    ok, why = stage3_min_check(parse(FILE_S3))
    f["stage3_ok"] = ok
    if not ok:
        lost.append(("cse:stage3-min-check", why))
    d, keeps, why = axis_min_facts(parse(FILE_TREE))
    f["axis_default"], f["axis_keeps"] = d, keeps
    if why:
        lost.append(("cse:axis-min_value", why))
    facts = dict(f)
    facts["valueRangeCombine"] = combine_text
    return render(axis_text, combine_text, f), facts, lost
