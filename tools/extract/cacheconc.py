"""Structural facts behind the interleaving model of the compiled-function cache (C10, `Cache/Concurrent.lean`).

The model's micro steps (lookup / miss / compute / insert, nothing else shared) are those of `functools.cache`.
They apply to einx only while

* `util/lru_cache.py:lru_cache` memoises with `functools.cache` / `functools.lru_cache` and nothing else
  (no dictionary, lock or in-progress marker of its own)                                         -> `memoIsFunctools`
* the wrappers around it (`_freeze_args.func_frozen`, `_unfreeze_scalar_args.func_unfrozen`) only rebind their
  local `args` / `kwargs` and call through                                                     -> `wrappersStateless`
* the retrace warning (the only other shared mutable state of the file, a `defaultdict` of counters) is off by
  default: `EINX_WARN_ON_RETRACE` defaults to 0 and `_with_retrace_warning` then returns `func` itself
                                                                                                -> `retraceOffByDefault`
* `frontend/api.py` creates one cache per `api` object outside `inner`, `inner` calls it exactly once and neither
  `inner` nor `_construct_graph` stores to globals, nonlocals or attributes                      -> `cachePerApiShared`

A construct that is not recognised yields `false`, the value under which the obligations of `Props/C10Cache.lean` fail.
"""
import ast
from . import parse, find_func, lean_bool

LRU = "einx/_src/util/lru_cache.py"
API = "einx/_src/frontend/api.py"


def _dotted(n):
    if isinstance(n, ast.Name):
        return n.id
    if isinstance(n, ast.Attribute):
        b = _dotted(n.value)
        return None if b is None else f"{b}.{n.attr}"
    return None


def _stores_outside_locals(fn, allowed_locals=None):
    """Does the function (not looking into nested defs) rebind a global / nonlocal, store to an attribute, or store to /
    delete from a subscript of something that is not one of its own local names?  With `allowed_locals`, assignments to
    any other plain name count as well."""
    nested = [n for n in ast.walk(fn) if isinstance(n, (ast.FunctionDef, ast.Lambda)) and n is not fn]
    inside_nested = set()
    for nd in nested:
        for m in ast.walk(nd):
            if m is not nd:
                inside_nested.add(id(m))
    own = [n for n in ast.walk(fn) if id(n) not in inside_nested]
    params = {a.arg for a in fn.args.args + fn.args.kwonlyargs + fn.args.posonlyargs}
    if fn.args.vararg:
        params.add(fn.args.vararg.arg)
    if fn.args.kwarg:
        params.add(fn.args.kwarg.arg)
    assigned = set(params)
    for n in own:
        if isinstance(n, (ast.Assign, ast.AugAssign, ast.AnnAssign)):
            for t in (n.targets if isinstance(n, ast.Assign) else [n.target]):
                for m in ast.walk(t):
                    if isinstance(m, ast.Name) and isinstance(m.ctx, ast.Store):
                        assigned.add(m.id)
    for n in own:
        if isinstance(n, (ast.Global, ast.Nonlocal)):
            return True
        if isinstance(n, ast.Attribute) and isinstance(n.ctx, (ast.Store, ast.Del)):
            return True
        if isinstance(n, ast.Subscript) and isinstance(n.ctx, (ast.Store, ast.Del)):
            if not (isinstance(n.value, ast.Name) and n.value.id in assigned):
                return True
        if allowed_locals is not None and isinstance(n, (ast.Assign, ast.AugAssign, ast.AnnAssign)):
            for t in (n.targets if isinstance(n, ast.Assign) else [n.target]):
                for m in ast.walk(t):
                    if isinstance(m, ast.Name) and isinstance(m.ctx, ast.Store) and m.id not in allowed_locals:
                        return True
    return False


def memo_is_functools(tree):
    lc = find_func(tree, "lru_cache")
    if lc is None:
        return False, "lru_cache not found"
    src = ast.unparse(lc)
    memo_calls = []
    for n in ast.walk(lc):
        if isinstance(n, ast.Assign) and len(n.targets) == 1 and isinstance(n.targets[0], ast.Name) and n.targets[0].id == "func":
            memo_calls.append(ast.unparse(n.value))
    allowed = {"_with_retrace_warning(func)", "_unfreeze_scalar_args(func)", "_freeze_args(func)", "functools.cache(func)",
               "functools.lru_cache(maxsize=None)(func)", "functools.lru_cache(maxsize=max_cache_size if max_cache_size > 0 else None)(func)"}
    if not memo_calls or any(c not in allowed for c in memo_calls):
        return False, f"lru_cache rebinds func in an unrecognised way: {[c for c in memo_calls if c not in allowed]}"
    if "functools.cache(func)" not in memo_calls:
        return False, "functools.cache(func) is not applied"
    # nothing but rebinding `func`, the two size tests and the return
    for n in ast.walk(lc):
        if isinstance(n, (ast.With, ast.Try, ast.While, ast.For, ast.Global, ast.Nonlocal, ast.Dict, ast.DictComp)):
            return False, f"lru_cache contains a {type(n).__name__} statement/expression"
    if "return func" not in src:
        return False, "lru_cache does not return the wrapped func"
    # the module keeps no dictionary / lock of its own at top level besides the thread-local warning flag
    for n in tree.body:
        if isinstance(n, ast.Assign):
            v = ast.unparse(n.value)
            if any(w in v for w in ("dict(", "{}", "Lock(", "defaultdict(", "OrderedDict(")):
                return False, f"module-level mutable state: {ast.unparse(n)[:80]}"
    return True, ""


def wrappers_stateless(tree):
    for outer, inner in (("_freeze_args", "func_frozen"), ("_unfreeze_scalar_args", "func_unfrozen")):
        o = find_func(tree, outer)
        f = find_func(o, inner) if o is not None else None
        if f is None:
            return False, f"{outer}.{inner} not found"
        if _stores_outside_locals(f, allowed_locals={"args", "kwargs"}):
            return False, f"{inner} stores to something other than its locals args / kwargs"
        rets = [n for n in ast.walk(f) if isinstance(n, ast.Return)]
        if len(rets) != 1 or ast.unparse(rets[0]) != "return func(*args, **kwargs)":
            return False, f"{inner} does not end in `return func(*args, **kwargs)`"
        if any(isinstance(n, (ast.With, ast.Try)) for n in ast.walk(f)):
            return False, f"{inner} contains with/try"
    return True, ""


def retrace_off_by_default(tree):
    ok_default = False
    for n in tree.body:
        if isinstance(n, ast.Assign) and ast.unparse(n.targets[0]) == "warn_on_retrace_num":
            ok_default = ast.unparse(n.value) == "int(os.environ.get('EINX_WARN_ON_RETRACE', 0))"
    w = find_func(tree, "_with_retrace_warning")
    if w is None or not ok_default:
        return False, "warn_on_retrace_num default / _with_retrace_warning not recognised"
    top = [s for s in w.body if not (isinstance(s, ast.Expr) and isinstance(s.value, ast.Constant))]
    if len(top) != 1 or not isinstance(top[0], ast.If) or ast.unparse(top[0].test) != "warn_on_retrace_num > 0":
        return False, "_with_retrace_warning is not `if warn_on_retrace_num > 0: … else: return func`"
    if [ast.unparse(s) for s in top[0].orelse] != ["return func"]:
        return False, "_with_retrace_warning's else-branch is not `return func`"
    return True, ""


def cache_per_api_shared(tree):
    cg = find_func(tree, "_construct_graph")
    if cg is None or _stores_outside_locals(cg):
        return False, "_construct_graph not found or stores to globals / attributes"
    for name in ("_api_withoutbackend", "_api_withbackend"):
        fn = find_func(tree, name)
        inner = find_func(fn, "inner") if fn is not None else None
        if inner is None:
            return False, f"{name}.inner not found"
        own = [s for s in fn.body if isinstance(s, ast.Assign) and ast.unparse(s.targets[0]) == "construct_graph_with_cache"]
        if len(own) != 1 or not ast.unparse(own[0].value).startswith("lru_cache(partial(_construct_graph, func=func"):
            return False, f"{name}: construct_graph_with_cache is not created once per api object by lru_cache(partial(_construct_graph, …))"
        calls = [n for n in ast.walk(inner) if isinstance(n, ast.Call) and _dotted(n.func) == "construct_graph_with_cache"]
        if len(calls) != 1:
            return False, f"{name}.inner calls the cache {len(calls)} times"
        if any(isinstance(n, ast.Name) and n.id == "construct_graph_with_cache" and isinstance(n.ctx, ast.Store) for n in ast.walk(inner)):
            return False, f"{name}.inner rebinds the cache"
        if _stores_outside_locals(inner):
            return False, f"{name}.inner stores to globals / attributes"
    return True, ""


NAMES = ["memoIsFunctools", "wrappersStateless", "retraceOffByDefault", "cachePerApiShared"]
DOC = {
    "memoIsFunctools": "`lru_cache` memoises with `functools.cache` / `functools.lru_cache` only (no dictionary, lock or marker of its own).",
    "wrappersStateless": "`func_frozen` / `func_unfrozen` only rebind their locals `args`, `kwargs` and `return func(*args, **kwargs)`.",
    "retraceOffByDefault": "`EINX_WARN_ON_RETRACE` defaults to 0 and `_with_retrace_warning` then returns `func` itself.",
    "cachePerApiShared": "one cache per `api` object, created outside `inner`; `inner` calls it once; no stores to globals / attributes in `inner`, `_construct_graph`.",
}


def render(vals):
    lines = ["/-! GENERATED by tools/extract/cacheconc.py from /repo -- do not edit. -/", "namespace Einx.Extracted", ""]
    for n in NAMES:
        lines.append(f"/-- {DOC[n]} -/")
        lines.append(f"def {n} : Bool := {lean_bool(vals.get(n, False))}")
    lines += ["", "end Einx.Extracted", ""]
    return "\n".join(lines)


def fallback():
    return render({})


def extract():
    lost = []
    lru = parse(LRU)
    api = parse(API)
    vals = {}
    for name, (ok, why) in (("memoIsFunctools", memo_is_functools(lru)), ("wrappersStateless", wrappers_stateless(lru)),
                            ("retraceOffByDefault", retrace_off_by_default(lru)), ("cachePerApiShared", cache_per_api_shared(api))):
        vals[name] = bool(ok)
        if not ok:
            lost.append((f"cacheconc:{name}", why))
    return render(vals), dict(vals), lost
