"""Constants of the stage-1 notation (C12, later C03/C07): read from the *imported* module
`einx._src.namedtensor.stage1.parse` / `.tree` of the current EINX_REPO working tree, plus the
character classes of the running Python that `parse_op` consults (`str.isdigit`, and `int()` which
accepts exactly the `str.isdecimal` characters).

The Lean model iterates over `naryOps` in this order, lexes with `literals` in this order, and
prints with `anonymousVariableName`; the obligations in Props/C12.lean pin the exact values the
proofs were written against, so any change of precedence/literals/regex breaks an obligation.
"""
import ast
import importlib.util
import os
import sys
import unicodedata

from lib import core
from . import lean_str, parse as parse_ast, find_func, find_class

PARSE = "einx/_src/namedtensor/stage1/parse.py"
TREE = "einx/_src/namedtensor/stage1/tree.py"


def _module_constants():
    """Evaluate the module-level constant assignments of parse.py (not the whole module, so that a broken
    import elsewhere in einx cannot hide the constants) and read Ellipsis.anonymous_variable_name from tree.py."""
    tree = parse_ast(PARSE)
    env = {}
    import re
    glb = {"re": re, "set": set, "list": list}
    wanted = {"_parentheses", "_delimiters_front", "_delimiters_back", "_nary_ops", "_ellipsis", "_axis_name", "_literals"}
    for node in tree.body:
        is_regex = (isinstance(node, ast.Assign) and isinstance(node.value, ast.Call) and isinstance(node.value.func, ast.Attribute)
                    and node.value.func.attr == "compile" and isinstance(node.value.func.value, ast.Name) and node.value.func.value.id == "re")
        if isinstance(node, ast.Assign) and len(node.targets) == 1 and isinstance(node.targets[0], ast.Name) and (node.targets[0].id in wanted or is_regex):
            code = compile(ast.Module(body=[node], type_ignores=[]), PARSE, "exec")
            exec(code, glb, env)
            glb.update(env)
    t2 = parse_ast(TREE)
    anon = None
    cls = find_class(t2, "Ellipsis")
    if cls is not None:
        for n in cls.body:
            if isinstance(n, ast.Assign) and any(isinstance(t, ast.Name) and t.id == "anonymous_variable_name" for t in n.targets):
                anon = ast.literal_eval(n.value)
    return env, anon


def _ranges(pred):
    out = []
    lo = None
    for cp in range(0x110000):
        if 0xD800 <= cp <= 0xDFFF:
            ok = False
        else:
            ok = pred(chr(cp))
        if ok and lo is None:
            lo = cp
        if not ok and lo is not None:
            out.append((lo, cp - 1))
            lo = None
    if lo is not None:
        out.append((lo, 0x10FFFF))
    return out


def _digit_predicates(env):
    """Which predicate decides "unnamed axis" in `next_token` and in the `Axis` case of `parse`?
    Returns (is_digit_char, accepted_by_int_char) as functions on one character, or None if the source uses
    something this extractor does not know (tie lost)."""
    tree = parse_ast(PARSE)
    fn = find_func(tree, "parse_op")
    if fn is None:
        return None
    methods, regexes = set(), set()
    for n in ast.walk(fn):
        if isinstance(n, ast.Call) and isinstance(n.func, ast.Attribute):
            if n.func.attr in ("isdigit", "isdecimal", "isnumeric") and not n.args:
                methods.add(n.func.attr)
            if n.func.attr == "fullmatch" and isinstance(n.func.value, ast.Name) and n.func.value.id != "_axis_name":
                regexes.add(n.func.value.id)
    if methods == {"isdigit"} and not regexes:
        return str.isdigit, str.isdecimal
    if methods == {"isdecimal"} and not regexes:
        return str.isdecimal, str.isdecimal
    if not methods and len(regexes) == 1:
        name = next(iter(regexes))
        rx = env.get(name)
        if rx is None:
            return None
        # the model treats the predicate as "every character is in the class": check that shape on samples
        for sample in ("0", "12", "007", "1a", "a1", "", "٣", "²", "1 ", "-1"):
            whole = rx.fullmatch(sample) is not None
            per_char = len(sample) > 0 and all(rx.fullmatch(c) is not None for c in sample)
            if whole != per_char:
                return None
        return (lambda c: rx.fullmatch(c) is not None), (lambda c: rx.fullmatch(c) is not None and c.isdecimal())
    return None


def _handlers():
    """String literals compared with `nary_op` inside `parse` (the operators that have a handler), in source order."""
    tree = parse_ast(PARSE)
    fn = find_func(tree, "parse_op")
    inner = find_func(fn, "parse") if fn else None
    found = []
    if inner is None:
        return None
    for n in ast.walk(inner):
        if isinstance(n, ast.Compare) and isinstance(n.left, ast.Name) and n.left.id == "nary_op" and len(n.ops) == 1 and isinstance(n.ops[0], ast.Eq):
            c = n.comparators[0]
            if isinstance(c, ast.Constant) and isinstance(c.value, str) and c.value not in found:
                found.append(c.value)
    return found


def _ellipsis_str_uses_braces():
    """Does Ellipsis.__str__ contain the string constants '{' and '}' (D11)?"""
    t2 = parse_ast(TREE)
    cls = find_class(t2, "Ellipsis")
    fn = find_func(cls, "__str__") if cls else None
    if fn is None:
        return None
    nodes = [n for n in ast.walk(fn) if isinstance(n, ast.Constant) and isinstance(n.value, str)]
    nodes.sort(key=lambda n: (n.lineno, n.col_offset))
    consts = [n.value for n in nodes]
    return ("{" in consts, "}" in consts, consts)


def render(nary, parens, ell, pattern, anon, handled, digit_ranges, decimal_ranges, open_brace, close_brace):
    fronts = sorted(k for k, _ in parens)
    backs = sorted(v for _, v in parens)
    L = ["/-! GENERATED by tools/extract/notation.py from /repo -- do not edit. -/", "namespace Einx.Extracted", ""]
    sl = lambda xs: "[" + ", ".join(lean_str(x) for x in xs) + "]"
    L.append("/-- `_nary_ops`: operators in the order `parse` tries them (lowest precedence first). -/")
    L.append(f"def naryOps : List String := {sl(nary)}")
    L.append("/-- `_parentheses` as (front, back) pairs, sorted by front delimiter. -/")
    L.append("def parentheses : List (String × String) := [" + ", ".join(f"({lean_str(k)}, {lean_str(v)})" for k, v in sorted(parens)) + "]")
    L.append(f"def delimitersFront : List String := {sl(fronts)}")
    L.append(f"def delimitersBack : List String := {sl(backs)}")
    L.append(f"def ellipsis : String := {lean_str(ell)}")
    L.append("/-- `_literals` = `_nary_ops + list(_delimiters_front) + list(_delimiters_back) + [_ellipsis]`; the two sets are listed sorted")
    L.append("    (their iteration order depends on the hash seed; `literals_prefix_free` makes the order irrelevant). -/")
    L.append(f"def literals : List String := {sl(list(nary) + fronts + backs + [ell])}")
    L.append(f"def axisNamePattern : String := {lean_str(pattern)}")
    L.append(f"def anonymousVariableName : String := {lean_str(anon)}")
    L.append("/-- String constants that `parse` compares `nary_op` with: the operators that have a handler. -/")
    L.append(f"def handledOps : List String := {sl(handled)}")
    L.append("/-- What `Ellipsis.__str__` wraps a multi-element list in. -/")
    L.append(f"def ellipsisOpen : String := {lean_str(open_brace)}")
    L.append(f"def ellipsisClose : String := {lean_str(close_brace)}")
    rl = lambda rs: "[" + ", ".join(f"({a}, {b})" for a, b in rs) + "]"
    L.append("/-- Code point ranges with `str.isdigit()` true in the running Python (token validation and the `Axis` case use it). -/")
    L.append(f"def digitRanges : List (Nat × Nat) := {rl(digit_ranges)}")
    L.append("/-- Code point ranges with `str.isdecimal()` true: exactly the digits `int()` accepts; every range is ten long and starts at the zero digit. -/")
    L.append(f"def decimalRanges : List (Nat × Nat) := {rl(decimal_ranges)}")
    L += ["", "end Einx.Extracted", ""]
    return "\n".join(L)


def fallback():
    # conservative: an empty operator list and no literals -- every obligation about them fails
    return render([], [], "", "", "", [], [], [], "", "")


def extract():
    lost = []
    env, anon = _module_constants()
    for k in ("_nary_ops", "_parentheses", "_ellipsis", "_axis_name"):
        if k not in env:
            lost.append((f"notation:{k}", f"module constant {k} not found in {PARSE}"))
    if anon is None:
        lost.append(("notation:anonymous_variable_name", f"Ellipsis.anonymous_variable_name not found in {TREE}"))
    if lost:
        return fallback(), {}, lost
    nary = list(env["_nary_ops"])
    parens = sorted(env["_parentheses"].items())
    ell = env["_ellipsis"]
    pattern = env["_axis_name"].pattern
    # `_literals` must still be built the way the model assumes
    expect = set(nary) | {k for k, _ in parens} | {v for _, v in parens} | {ell}
    if "_literals" not in env or set(env["_literals"]) != expect or list(env["_literals"])[:len(nary)] != nary or list(env["_literals"])[-1] != ell:
        lost.append(("notation:_literals", "_literals is no longer _nary_ops + fronts + backs + [_ellipsis]"))
        return fallback(), {}, lost
    handled = _handlers()
    if handled is None:
        lost.append(("notation:handlers", "parse_op.parse not found"))
        handled = []
    br = _ellipsis_str_uses_braces()
    if br is None:
        lost.append(("notation:Ellipsis.__str__", "Ellipsis.__str__ not found"))
        ob, cb = "?", "?"
    else:
        consts = br[2]
        # the wrapping constants are the two single-character non-dot constants of __str__, in source order
        wraps = [c for c in consts if len(c) == 1 and c != "."]
        ob, cb = (wraps[0], wraps[1]) if len(wraps) >= 2 else ("", "")
    preds = _digit_predicates(env)
    if preds is None:
        lost.append(("notation:digit-predicate", "parse_op no longer decides unnamed axes with str.isdigit / str.isdecimal / one compiled regex"))
        preds = (lambda c: False, lambda c: False)
    digit_ranges = _ranges(preds[0])
    decimal_ranges = []
    for lo, hi in _ranges(lambda c: preds[0](c) and preds[1](c)):
        # contiguous runs of several digit sets (mathematical digits) are cut into tens
        while hi - lo > 9:
            decimal_ranges.append((lo, lo + 9))
            lo += 10
        decimal_ranges.append((lo, hi))
    for lo, hi in decimal_ranges:
        if hi - lo != 9 or any(unicodedata.decimal(chr(lo + k)) != k for k in range(10)):
            # the model computes int() as (code point - start of range); a range of another shape cannot be modelled
            lost.append(("notation:decimal-ranges", f"decimal range {lo:x}-{hi:x} is not a run 0..9"))
    text = render(nary, parens, ell, pattern, anon, handled, digit_ranges, decimal_ranges, ob, cb)
    facts = {"naryOps": nary, "parentheses": parens, "ellipsis": ell, "axisNamePattern": pattern, "anonymousVariableName": anon,
             "handledOps": handled, "ellipsisWrap": [ob, cb], "n_digit_ranges": len(digit_ranges), "n_decimal_ranges": len(decimal_ranges),
             "python": sys.version.split()[0], "unicodedata": unicodedata.unidata_version}
    return text, facts, lost
