"""T-src for C14: facts about the indexed-update lowering, read from /repo's AST.

* `einx/_src/adapter/numpy/classical_from_numpy.py`: for each of `set_at` / `add_at` / `subtract_at` the numpy
  primitive that `ops.__init__` wraps with `update_at(...)` and whether the registration passes `broadcast=`;
  and whether `update_at` itself still uses `broadcast` the way the model assumes (indices *and* updates are
  broadcast to the elementwise maximum of their shapes iff `broadcast is not None`).
* `einx/_src/adapter/decomposednamedtensor_from_classical.py`: the multiplier loop of `_ravel`, translated
  statement by statement into a Lean `foldl` by a mini translator for a small pure subset of Python.

Anything unrecognised yields the conservative value (`broadcasts = false`, primitive `"unknown"`, a kernel
without multipliers), under which the dependent obligations of `Props/C14.lean` fail, plus a lost anchor.
"""
import ast
from . import parse, find_class, find_func, lean_bool, lean_str

FILE_NP = "einx/_src/adapter/numpy/classical_from_numpy.py"
FILE_DN = "einx/_src/adapter/decomposednamedtensor_from_classical.py"
OPS = ["set_at", "add_at", "subtract_at"]
PRIMS = {"np.put": "put", "np.add.at": "add.at", "np.subtract.at": "subtract.at"}


def dotted(node):
    if isinstance(node, ast.Name):
        return node.id
    if isinstance(node, ast.Attribute):
        b = dotted(node.value)
        return None if b is None else b + "." + node.attr
    return None


# ---------------------------------------------------------------------------------------------- registrations

def registrations(tree):
    """{op: (primitive, broadcasts)} from `self.<op> = adapter.classical_from_numpy.update_at(<prim>, ..., broadcast=...)`."""
    cls = find_class(tree, "ops")
    out, lost = {}, []
    init = find_func(cls, "__init__") if cls is not None else None
    if init is None:
        return {}, [("update:registrations", "class ops / __init__ not found")]
    seen = {}
    for n in ast.walk(init):
        if isinstance(n, ast.Assign) and len(n.targets) == 1:
            t = n.targets[0]
            if isinstance(t, ast.Attribute) and isinstance(t.value, ast.Name) and t.value.id == "self" and t.attr in OPS:
                seen.setdefault(t.attr, []).append(n.value)
    for op in OPS:
        vals = seen.get(op, [])
        if len(vals) != 1:
            lost.append((f"update:registration:{op}", f"{len(vals)} assignments to self.{op}"))
            continue
        v = vals[0]
        if not (isinstance(v, ast.Call) and (dotted(v.func) or "").endswith("update_at") and len(v.args) >= 1):
            lost.append((f"update:registration:{op}", "not a call of update_at(<primitive>, ...)"))
            continue
        prim = PRIMS.get(dotted(v.args[0]) or "", "unknown")
        if prim == "unknown":
            lost.append((f"update:registration:{op}", f"unrecognised primitive {ast.unparse(v.args[0])}"))
        b = False
        if len(v.args) >= 3:           # update_at(op, to_tensor, broadcast, ...)
            b = not (isinstance(v.args[2], ast.Constant) and v.args[2].value is None)
        for kw in v.keywords:
            if kw.arg == "broadcast":
                b = not (isinstance(kw.value, ast.Constant) and kw.value.value is None)
                # only `self.broadcast_to` is known to be numpy.broadcast_to
                if b and dotted(kw.value) != "self.broadcast_to":
                    lost.append((f"update:registration:{op}", f"unrecognised broadcast function {ast.unparse(kw.value)}"))
                    b = False
            if kw.arg == "reshape" and not (isinstance(kw.value, ast.Constant) and kw.value.value is None):
                lost.append((f"update:registration:{op}", "registration passes reshape= (not modelled for numpy)"))
                b = False
            if kw.arg is None:
                lost.append((f"update:registration:{op}", "registration uses **kwargs"))
                b = False
        out[op] = (prim, b)
    return out, lost


def wrapper_uses_broadcast(tree):
    """Does `update_at(op, to_tensor, broadcast=None, reshape=None)` still (1) broadcast both `indices` and `updates` to
    `maximum(indices.shape, updates.shape)` under `if broadcast is not None`, and (2) end in `return op(x, indices, updates)`?"""
    fn = None
    for n in tree.body:
        if isinstance(n, ast.FunctionDef) and n.name == "update_at":
            fn = n
    if fn is None:
        return False, "update_at not found"
    inner = find_func(ast.Module(body=fn.body, type_ignores=[]), "inner")
    if inner is None:
        return False, "update_at.inner not found"
    ok_if = False
    for n in inner.body:
        if isinstance(n, ast.If):
            t = n.test
            if (isinstance(t, ast.Compare) and isinstance(t.left, ast.Name) and t.left.id == "broadcast" and len(t.ops) == 1
                    and isinstance(t.ops[0], ast.IsNot) and isinstance(t.comparators[0], ast.Constant) and t.comparators[0].value is None):
                targets = {}
                shape_ok = False
                for s in n.body:
                    if isinstance(s, ast.Assign) and len(s.targets) == 1 and isinstance(s.targets[0], ast.Name):
                        nm = s.targets[0].id
                        if nm == "shape":
                            src = ast.unparse(s.value)
                            shape_ok = "maximum" in src and "indices.shape" in src and "updates.shape" in src
                        if isinstance(s.value, ast.Call) and isinstance(s.value.func, ast.Name) and s.value.func.id == "broadcast":
                            a = s.value.args
                            if len(a) == 2 and isinstance(a[0], ast.Name) and a[0].id == nm and isinstance(a[1], ast.Name) and a[1].id == "shape":
                                targets[nm] = True
                ok_if = shape_ok and targets.get("indices") and targets.get("updates") and not n.orelse
    last = inner.body[-1]
    ok_ret = (isinstance(last, ast.Return) and isinstance(last.value, ast.Call) and isinstance(last.value.func, ast.Name)
              and last.value.func.id == "op" and [ast.unparse(a) for a in last.value.args] == ["x", "indices", "updates"]
              and not last.value.keywords)
    if not ok_if:
        return False, "`if broadcast is not None:` no longer broadcasts indices and updates to maximum(indices.shape, updates.shape)"
    if not ok_ret:
        return False, "update_at.inner no longer ends in `return op(x, indices, updates)`"
    return True, ""


# ---------------------------------------------------------------------------------------------- mini translator

class Untranslatable(Exception):
    pass


class Kernel:
    """Translates
           <init statements>
           for <targets> in reversed(list(zip(A, B, ...))):   |  in zip(A, B, ...):
               <body>
       into a Lean foldl.  Subset: integer constants, names, + - *, comparisons, `classical.multiply/add(a, b)`,
       `<loopvar>.value` (a stage-3 axis is modelled by its length), `x = e`, `x *= e`, `x += e`, `if c: x = e`,
       `l.insert(0, e)`, `l.append(e)`, list literal `[]`."""

    CLASSICAL = {"multiply": "*", "add": "+", "subtract": "-"}
    BINOP = {ast.Add: "+", ast.Mult: "*", ast.Sub: "-"}
    CMP = {ast.NotEq: "!=", ast.Eq: "==", ast.Lt: "<", ast.LtE: "<=", ast.Gt: ">", ast.GtE: ">="}

    def __init__(self, axis_vars):
        self.axis_vars = set(axis_vars)   # loop variables that range over stage-3 axes (modelled by `.value`)

    def expr(self, e):
        if isinstance(e, ast.Constant) and isinstance(e.value, int) and not isinstance(e.value, bool) and e.value >= 0:
            return str(e.value)
        if isinstance(e, ast.Name):
            if e.id in self.axis_vars:
                raise Untranslatable(f"axis variable {e.id} used without .value")
            return e.id
        if isinstance(e, ast.Attribute) and e.attr == "value" and isinstance(e.value, ast.Name) and e.value.id in self.axis_vars:
            return e.value.id
        if isinstance(e, ast.BinOp) and type(e.op) in self.BINOP:
            return f"({self.expr(e.left)} {self.BINOP[type(e.op)]} {self.expr(e.right)})"
        if isinstance(e, ast.Compare) and len(e.ops) == 1 and type(e.ops[0]) in self.CMP:
            return f"({self.expr(e.left)} {self.CMP[type(e.ops[0])]} {self.expr(e.comparators[0])})"
        if (isinstance(e, ast.Call) and isinstance(e.func, ast.Attribute) and isinstance(e.func.value, ast.Name)
                and e.func.value.id == "classical" and e.func.attr in self.CLASSICAL and len(e.args) == 2 and not e.keywords):
            return f"({self.expr(e.args[0])} {self.CLASSICAL[e.func.attr]} {self.expr(e.args[1])})"
        if isinstance(e, ast.List) and not e.elts:
            return "[]"
        raise Untranslatable(f"expression outside the subset: {ast.unparse(e)}")

    def stmt(self, s):
        """-> (assigned name, lean expression)"""
        if isinstance(s, ast.Assign) and len(s.targets) == 1 and isinstance(s.targets[0], ast.Name):
            return s.targets[0].id, self.expr(s.value)
        if isinstance(s, ast.AugAssign) and isinstance(s.target, ast.Name) and type(s.op) in self.BINOP:
            return s.target.id, f"({s.target.id} {self.BINOP[type(s.op)]} {self.expr(s.value)})"
        if isinstance(s, ast.If) and not s.orelse and len(s.body) == 1:
            name, val = self.stmt(s.body[0])
            return name, f"(if {self.expr(s.test)} then {val} else {name})"
        if (isinstance(s, ast.Expr) and isinstance(s.value, ast.Call) and isinstance(s.value.func, ast.Attribute)
                and isinstance(s.value.func.value, ast.Name) and not s.value.keywords):
            lst = s.value.func.value.id
            if s.value.func.attr == "insert" and len(s.value.args) == 2 and isinstance(s.value.args[0], ast.Constant) and s.value.args[0].value == 0:
                return lst, f"({self.expr(s.value.args[1])} :: {lst})"
            if s.value.func.attr == "append" and len(s.value.args) == 1:
                return lst, f"({lst} ++ [{self.expr(s.value.args[0])}])"
        raise Untranslatable(f"statement outside the subset: {ast.unparse(s)}")


def translate_ravel_kernel(tree):
    """Lean text of `def ravelKernel (coords expr_tensor : List Nat) : List Nat` from the multiplier loop of `_ravel`."""
    fn = find_func(tree, "_ravel")
    if fn is None:
        raise Untranslatable("_ravel not found")
    body = fn.body
    loop_i = None
    for i, s in enumerate(body):
        if isinstance(s, ast.For) and any(isinstance(n, ast.AugAssign) and isinstance(n.target, ast.Name) and n.target.id == "multiplier" for n in ast.walk(s)):
            if loop_i is not None:
                raise Untranslatable("more than one multiplier loop")
            loop_i = i
    if loop_i is None:
        raise Untranslatable("multiplier loop not found in _ravel")
    loop = body[loop_i]
    if loop.orelse:
        raise Untranslatable("for/else")
    # iterator:  reversed(list(zip(coords, expr_tensor, strict=False)))  |  zip(coords, expr_tensor)
    it = loop.iter
    rev = False
    if isinstance(it, ast.Call) and isinstance(it.func, ast.Name) and it.func.id == "reversed" and len(it.args) == 1:
        rev = True
        it = it.args[0]
    if isinstance(it, ast.Call) and isinstance(it.func, ast.Name) and it.func.id == "list" and len(it.args) == 1 and not it.keywords:
        it = it.args[0]
    if not (isinstance(it, ast.Call) and isinstance(it.func, ast.Name) and it.func.id == "zip" and len(it.args) == 2
            and all(isinstance(a, ast.Name) for a in it.args)):
        raise Untranslatable(f"iterator outside the subset: {ast.unparse(loop.iter)}")
    for kw in it.keywords:
        if not (kw.arg == "strict" and isinstance(kw.value, ast.Constant) and kw.value.value is False):
            raise Untranslatable("zip(strict=True) is not modelled")
    src_names = [a.id for a in it.args]
    if src_names != ["coords", "expr_tensor"]:
        raise Untranslatable(f"loop ranges over {src_names}, expected coords, expr_tensor")
    if not (isinstance(loop.target, ast.Tuple) and len(loop.target.elts) == 2 and all(isinstance(e, ast.Name) for e in loop.target.elts)):
        raise Untranslatable("loop target outside the subset")
    v_coord, v_axis = [e.id for e in loop.target.elts]
    tr = Kernel(axis_vars=[v_axis])
    # initialisations: the maximal run of simple assignments directly before the loop
    inits = []
    j = loop_i - 1
    while j >= 0 and isinstance(body[j], ast.Assign) and len(body[j].targets) == 1 and isinstance(body[j].targets[0], ast.Name):
        try:
            inits.insert(0, Kernel(axis_vars=[]).stmt(body[j]))
        except Untranslatable:
            break
        j -= 1
    init = dict(inits)
    steps = [tr.stmt(s) for s in loop.body]
    state = [n for n in dict.fromkeys(n for n, _ in steps) if n in init]
    for n, _ in steps:
        if n not in init and n != v_coord:
            raise Untranslatable(f"variable {n} assigned in the loop is neither state nor the loop variable")
    if "multiplier" not in state:
        raise Untranslatable("multiplier is not initialised directly before the loop")
    # result: the statement after the loop must be `coords = <list state variable>`
    after = body[loop_i + 1] if loop_i + 1 < len(body) else None
    if not (isinstance(after, ast.Assign) and len(after.targets) == 1 and isinstance(after.targets[0], ast.Name) and after.targets[0].id == "coords"
            and isinstance(after.value, ast.Name) and after.value.id in state and init[after.value.id] == "[]"):
        raise Untranslatable("the loop result is not assigned to `coords`")
    result = after.value.id
    ty = {n: ("List Nat" if init[n] == "[]" else "Nat") for n in state}
    if len(state) != 2:
        raise Untranslatable(f"expected two state variables, found {state}")
    a, b = state
    lines = []
    lines.append("/-- Translated from the multiplier loop of `_ravel` (" + FILE_DN + f", line {loop.lineno}):")
    lines.append("```")
    for s in body[j + 1: loop_i + 2]:
        lines += ast.unparse(s).split("\n")
    lines.append("```")
    lines.append("A stage-3 axis is represented by its length, a coordinate tensor by its value at one position. -/")
    lines.append("def ravelKernel (coords : List Nat) (expr_tensor : List Nat) : List Nat :=")
    for n in state:
        lines.append(f"  let {n} : {ty[n]} := {init[n]}")
    seq = f"(coords.zip expr_tensor)" + (".reverse" if rev else "")
    lines.append(f"  let st := {seq}.foldl (fun (st : {ty[a]} × {ty[b]}) (it : Nat × Nat) =>")
    lines.append(f"    let {a} := st.1")
    lines.append(f"    let {b} := st.2")
    lines.append(f"    let {v_coord} := it.1")
    lines.append(f"    let {v_axis} := it.2")
    for n, val in steps:
        lines.append(f"    let {n} := {val}")
    lines.append(f"    ({a}, {b})) ({a}, {b})")
    lines.append(f"  st.{1 if result == a else 2}")
    return "\n".join(lines)


KERNEL_FALLBACK = """/-- Conservative stand-in: the multiplier loop of `_ravel` could not be translated. -/
def ravelKernel (coords : List Nat) (expr_tensor : List Nat) : List Nat :=
  let _ := expr_tensor
  coords"""


# ---------------------------------------------------------------------------------------------- index dtype of `_ravel`

DTYPE_BITS = {"int8": 8, "int16": 16, "int32": 32, "int64": 64, "uint8": 8, "uint16": 16, "uint32": 32, "uint64": 64}
CAST_ATTRS = ("astype", "to_dtype", "cast", "asarray", "view")


def index_dtype(tree):
    """(dtype literal of the index ranges `_ravel` creates when the classical backend has no `.dtype` (tracing), list of
    dtype-changing calls in `_ravel` / `get_at_ravelled` / `update_at_ravelled`, does the branch for backends with `.dtype`
    take the dtype of a coordinate tensor, lost anchors).  Conservative value: dtype "unknown" (0 bits)."""
    lost = []
    fn = find_func(tree, "_ravel")
    if fn is None:
        return "unknown", ["?"], False, [("update:index-dtype", "_ravel not found")]
    # every `classical.arange(...)` must pass `dtype=<variable>`; collect the variables
    vars_ = set()
    n_arange = 0
    for n in ast.walk(fn):
        if isinstance(n, ast.Call) and (dotted(n.func) or "").endswith(".arange"):
            n_arange += 1
            kw = [k for k in n.keywords if k.arg == "dtype"]
            if len(kw) == 1 and isinstance(kw[0].value, ast.Name):
                vars_.add(kw[0].value.id)
            elif len(kw) == 1 and isinstance(kw[0].value, ast.Constant) and isinstance(kw[0].value.value, str):
                vars_.add("=" + kw[0].value.value)
            else:
                lost.append(("update:index-dtype", f"arange without a recognisable dtype=: {ast.unparse(n)}"))
    if n_arange == 0:
        lost.append(("update:index-dtype", "no classical.arange call in _ravel"))
    lits, follows = set(), False
    for v in vars_:
        if v.startswith("="):
            lits.add(v[1:])
            continue
        for n in ast.walk(fn):
            if isinstance(n, ast.Assign) and len(n.targets) == 1 and isinstance(n.targets[0], ast.Name) and n.targets[0].id == v:
                if isinstance(n.value, ast.Constant) and isinstance(n.value.value, str):
                    lits.add(n.value.value)
                elif isinstance(n.value, ast.Call) and (dotted(n.value.func) or "").endswith(".dtype"):
                    follows = True        # `classical.dtype(coord)`: only for backends that have `.dtype` (not while tracing)
                else:
                    lost.append(("update:index-dtype", f"unrecognised assignment {ast.unparse(n)}"))
    # the literal must be the value of the branch without `classical.dtype`: `if hasattr(classical, "dtype"): … else: v = "<lit>"`
    guarded = False
    for n in ast.walk(fn):
        if isinstance(n, ast.If) and isinstance(n.test, ast.Call) and dotted(n.test.func) == "hasattr" and len(n.test.args) == 2 \
                and isinstance(n.test.args[1], ast.Constant) and n.test.args[1].value == "dtype":
            if any(isinstance(m, ast.Assign) and isinstance(m.value, ast.Constant) for m in n.orelse) and \
                    not any(isinstance(m, ast.Constant) and isinstance(m.value, str) and m.value in DTYPE_BITS for b in n.body for m in ast.walk(b)):
                guarded = True
    if follows and not guarded:
        lost.append(("update:index-dtype", "the dtype of the index ranges is taken from a coordinate tensor without the hasattr(classical, 'dtype') guard"))
    casts = []
    for name in ("_ravel", "get_at_ravelled", "update_at_ravelled"):
        f = find_func(tree, name)
        if f is None:
            lost.append(("update:index-dtype", f"{name} not found"))
            continue
        for n in ast.walk(f):
            if isinstance(n, ast.Call) and isinstance(n.func, ast.Attribute) and n.func.attr in CAST_ATTRS:
                casts.append(f"{name}:{ast.unparse(n.func)}")
    lit = sorted(lits)[0] if len(lits) == 1 and not lost else "unknown"
    if len(lits) != 1:
        lost.append(("update:index-dtype", f"{len(lits)} dtype literals for the index ranges: {sorted(lits)}"))
    return lit, casts, follows, lost


# ---------------------------------------------------------------------------------------------- rendering

def render(regs, kernel_text, dtype_lit="unknown", casts=("?",)):
    b = {op: bool(regs.get(op, ("unknown", False))[1]) for op in OPS}
    p = {op: regs.get(op, ("unknown", False))[0] for op in OPS}
    lines = ["import EinxModel.Update.Model",
             "/-! GENERATED by tools/extract/update.py from /repo -- do not edit. -/",
             "namespace Einx.Extracted", "open Einx.Update", ""]
    lines.append("/-- Is the numpy wrapper of the operation registered with `broadcast=` (indices and updates are brought to a common shape)? -/")
    lines.append("def scatterBroadcasts : List (String × Bool) := [" + ", ".join(f"({lean_str(op)}, {lean_bool(b[op])})" for op in OPS) + "]")
    lines.append("/-- The numpy primitive the wrapper of the operation calls. -/")
    lines.append("def scatterPrimitive : List (String × String) := [" + ", ".join(f"({lean_str(op)}, {lean_str(p[op])})" for op in OPS) + "]")
    lines.append("")
    lines.append("def broadcasts (op : String) : Bool := match scatterBroadcasts.lookup op with | some b => b | none => false")
    lines.append('def primitive (op : String) : String := match scatterPrimitive.lookup op with | some p => p | none => "unknown"')
    lines.append("")
    lines.append(kernel_text)
    lines.append("")
    lines.append('def opName : Mode → String | .set => "set_at" | .add => "add_at" | .sub => "subtract_at"')
    lines.append('def primOf : String → Prim | "put" => .put | "add.at" => .addAt | "subtract.at" => .subAt | _ => .unknown')
    lines.append("")
    lines.append("/-- dtype of the index ranges `_ravel` creates (`classical.arange(axis.value, dtype=coord_dtype)`) when the classical backend has")
    lines.append("no `.dtype` (every traced call): the literal of the `else` branch; its width in bits (0 = not recognised). -/")
    lines.append(f"def arangeDtype : String := {lean_str(dtype_lit)}")
    lines.append(f"def arangeDtypeBits : Nat := {DTYPE_BITS.get(dtype_lit, 0)}")
    lines.append("/-- dtype-changing calls (`astype`, …) inside `_ravel` / `get_at_ravelled` / `update_at_ravelled`. -/")
    lines.append("def ravelCasts : List String := [" + ", ".join(lean_str(c) for c in casts) + "]")
    lines.append("")
    lines.append("/-- The lowering as the source tree defines it now. -/")
    lines.append("def updateLowering : Lowering :=")
    lines.append("  { kernel := ravelKernel, broadcasts := fun m => broadcasts (opName m), prim := fun m => primOf (primitive (opName m)) }")
    lines += ["", "end Einx.Extracted", ""]
    return "\n".join(lines)


def fallback():
    return render({}, KERNEL_FALLBACK)


def extract():
    lost = []
    tree = parse(FILE_NP)
    regs, l1 = registrations(tree)
    lost += l1
    ok, why = wrapper_uses_broadcast(tree)
    if not ok:
        lost.append(("update:wrapper", why))
        regs = {op: (regs.get(op, ("unknown", False))[0], False) for op in OPS}
    try:
        kernel = translate_ravel_kernel(parse(FILE_DN))
        kernel_ok = True
    except Untranslatable as e:
        kernel = KERNEL_FALLBACK
        kernel_ok = False
        lost.append(("update:_ravel-kernel", str(e)))
    try:
        dlit, casts, follows, l3 = index_dtype(parse(FILE_DN))
    except Exception as e:      # conservative
        dlit, casts, follows, l3 = "unknown", ["?"], False, [("update:index-dtype", f"{type(e).__name__}: {e}")]
    lost += l3
    facts = {"arange_dtype": dlit, "arange_dtype_wide": DTYPE_BITS.get(dlit, 0) >= 32 and not casts, "ravel_casts": list(casts),
             "index_dtype_follows_coordinates_for_backends_with_dtype": follows,
             "broadcasts": {op: bool(regs.get(op, ("unknown", False))[1]) for op in OPS},
             "primitive": {op: regs.get(op, ("unknown", False))[0] for op in OPS},
             "wrapper_ok": ok, "kernel_translated": kernel_ok, "kernel": kernel}
    return render(regs, kernel, dlit, casts), facts, lost
