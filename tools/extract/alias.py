"""T-src for C09: which numpy functions does einx trace, and which of them as *in-place*?

Read from the AST of `einx/_src/tracer/signature/classical/numpy.py` (class `numpy`, `__init__`): every
`self.<name> = signature.classical.<kind>(np.<path>, ...)` registration gives one entry
`("numpy.<path>", "<kind>")`; `kind == "inplace"` (`tracer.signature.python.call_inplace`) marks the functions
whose first argument is written.  `Props/C09.lean` proves by `decide` that

* every function traced in-place has an in-place row in `Einx.Alias.aliasTable` (a new in-place function
  without a row is a lost tie), and the table has no other in-place rows,
* every traced function has a row at all.

Also read: `einx/_src/tracer/signature/classical/functions.py:inplace` must still pass its first argument
as the written object (`call_inplace(x, op, [x, *args], kwargs)`): `inplaceTargetIsFirstArg`.

From `einx/_src/tracer/compiler/python/__init__.py`: the branches for `CallInplace` and `UpdateItem` still emit the
call / item update as a statement and define the node's output as the code of the written object (`xs` / `obj`), i.e. the
traced result *is* the target (`inplaceResultIsTarget`), which is what `Node.inplace` assumes.

Anything unrecognised yields the conservative value (a function name without a table row), under which
the obligations fail, plus a lost anchor.
"""
import ast
from . import parse, find_class, find_func, lean_bool, lean_str

FILE_SIG = "einx/_src/tracer/signature/classical/numpy.py"
FILE_FUN = "einx/_src/tracer/signature/classical/functions.py"
FILE_CMP = "einx/_src/tracer/compiler/python/__init__.py"
LOST = "<lost anchor>"


def dotted(node):
    if isinstance(node, ast.Name):
        return node.id
    if isinstance(node, ast.Attribute):
        b = dotted(node.value)
        return None if b is None else b + "." + node.attr
    return None


def registrations(tree):
    """-> ([(function, kind)], lost)"""
    cls = find_class(tree, "numpy")
    init = find_func(cls, "__init__") if cls is not None else None
    if init is None:
        return [], [("alias:registrations", "class numpy / __init__ not found in " + FILE_SIG)]
    out, lost = [], []
    for s in init.body:
        if isinstance(s, ast.If):
            continue        # `if np is None: np = import_("numpy", as_="np")`
        if not (isinstance(s, ast.Assign) and len(s.targets) == 1):
            lost.append(("alias:registrations", f"statement outside the subset: {ast.unparse(s)[:80]}"))
            continue
        target = dotted(s.targets[0])
        if target is None or not target.startswith("self."):
            lost.append(("alias:registrations", f"assignment target outside the subset: {ast.unparse(s)[:80]}"))
            continue
        v = s.value
        if dotted(v) is not None and dotted(v).startswith("np."):
            continue        # self.ndarray = np.ndarray  (a plain re-export, not a traced function)
        if not (isinstance(v, ast.Call) and (dotted(v.func) or "").startswith("signature.classical.")):
            lost.append(("alias:registrations", f"value outside the subset: {ast.unparse(s)[:80]}"))
            continue
        kind = dotted(v.func)[len("signature.classical."):]
        if kind == "getitem" and not v.args:
            out.append(("numpy." + target[len("self."):], "getitem"))
            continue
        fn = dotted(v.args[0]) if v.args else None
        if fn is None or not fn.startswith("np."):
            lost.append(("alias:registrations", f"traced object is not np.<path>: {ast.unparse(s)[:80]}"))
            continue
        if any(kw.arg is None for kw in v.keywords):
            lost.append(("alias:registrations", f"registration uses **kwargs: {ast.unparse(s)[:80]}"))
            continue
        out.append(("numpy." + fn[len("np."):], kind))
    return out, lost


def inplace_passes_first_argument(tree):
    """`def inplace(op)` ... `return tracer.signature.python.call_inplace(x, op, [x, *args], kwargs)`"""
    fn = None
    for n in tree.body:
        if isinstance(n, ast.FunctionDef) and n.name == "inplace":
            fn = n
    if fn is None:
        return False, "signature.classical.inplace not found"
    inner = find_func(ast.Module(body=fn.body, type_ignores=[]), "inner")
    if inner is None or not inner.args.args or inner.args.args[0].arg != "x":
        return False, "inplace.inner(x, *args, **kwargs) not found"
    rets = [n for n in ast.walk(inner) if isinstance(n, ast.Return)]
    if len(rets) != 1 or len(inner.body) != 1:
        return False, "inplace.inner is no longer a single return statement"
    c = rets[0].value
    ok = (isinstance(c, ast.Call) and (dotted(c.func) or "").endswith("call_inplace") and len(c.args) == 4 and not c.keywords
          and ast.unparse(c.args[0]) == "x" and ast.unparse(c.args[1]) == "op" and ast.unparse(c.args[2]) == "[x, *args]"
          and ast.unparse(c.args[3]) == "kwargs")
    if not ok:
        return False, f"inplace.inner returns {ast.unparse(c)[:120]} instead of call_inplace(x, op, [x, *args], kwargs)"
    return True, ""


def compiler_result_is_target(tree):
    """In `compile`'s dispatch on `origin`: the `CallInplace` branch ends in
    `def to_code(v): return v(xs)` + `code.define(origin.output, Inlined(to_code, inputs=[xs], ...), force_inline=True)`,
    the `UpdateItem` branch likewise with `obj`."""
    want = {"CallInplace": "xs", "UpdateItem": "obj"}
    seen = {}
    for n in ast.walk(tree):
        if not isinstance(n, ast.If):
            continue
        t = n.test
        if not (isinstance(t, ast.Call) and isinstance(t.func, ast.Name) and t.func.id == "isinstance" and len(t.args) == 2):
            continue
        cls = (dotted(t.args[1]) or "").split(".")[-1]
        if cls not in want or ast.unparse(t.args[0]) != "origin":
            continue
        var = want[cls]
        body = n.body
        # a statement is appended to the block
        appended = any(isinstance(s, ast.Expr) and isinstance(s.value, ast.Call) and (dotted(s.value.func) or "").endswith("block.append") for s in body)
        last = body[-1] if body else None
        # skip trailing comments-as-strings: the last *statement* must be the define
        defs = [s for s in body if isinstance(s, ast.Expr) and isinstance(s.value, ast.Call) and (dotted(s.value.func) or "") == "code.define"]
        funcs = [s for s in body if isinstance(s, ast.FunctionDef) and s.name == "to_code"]
        ok = False
        if appended and len(defs) == 1 and funcs:
            d = defs[0].value
            f = funcs[-1]
            ret_ok = (len(f.body) == 1 and isinstance(f.body[0], ast.Return) and ast.unparse(f.body[0].value) == f"value_to_code({var})")
            def_ok = (len(d.args) == 2 and ast.unparse(d.args[0]) == "origin.output" and isinstance(d.args[1], ast.Call)
                      and ast.unparse(d.args[1].func) == "Inlined" and ast.unparse(d.args[1].args[0]) == "to_code"
                      and any(kw.arg == "inputs" and ast.unparse(kw.value) == f"[{var}]" for kw in d.args[1].keywords))
            order_ok = body.index(funcs[-1]) < body.index(defs[0])
            ok = ret_ok and def_ok and order_ok
        seen[cls] = ok
        del last
    missing = [c for c in want if not seen.get(c)]
    if missing:
        return False, f"compiler branch for {', '.join(missing)} no longer defines the output as the written object"
    return True, ""


def render(regs, first_arg, result_is_target=False):
    inpl = [f for f, k in regs if k == "inplace"]
    lines = ["/-! GENERATED by tools/extract/alias.py from /repo -- do not edit. -/",
             "namespace Einx.Extracted", ""]
    lines.append("/-- Every numpy function that `tracer/signature/classical/numpy.py` traces, with the signature wrapper it is registered with. -/")
    lines.append("def tracedFunctions : List (String × String) := [")
    lines.append(",\n".join(f"  ({lean_str(f)}, {lean_str(k)})" for f, k in regs) + "]")
    lines.append("")
    lines.append("/-- The functions registered with `signature.classical.inplace` (traced as `CallInplace`). -/")
    lines.append("def inplaceTraced : List String := [" + ", ".join(lean_str(f) for f in inpl) + "]")
    lines.append("")
    lines.append("/-- `signature.classical.inplace` passes its first argument as the written object: `call_inplace(x, op, [x, *args], kwargs)`. -/")
    lines.append(f"def inplaceTargetIsFirstArg : Bool := {lean_bool(first_arg)}")
    lines.append("")
    lines.append("/-- The python compiler emits `CallInplace` / `UpdateItem` as a statement and defines the node's output as the written object. -/")
    lines.append(f"def inplaceResultIsTarget : Bool := {lean_bool(result_is_target)}")
    lines += ["", "end Einx.Extracted", ""]
    return "\n".join(lines)


def fallback():
    return render([(LOST, "inplace")], False, False)


def extract():
    lost = []
    regs, l1 = registrations(parse(FILE_SIG))
    lost += l1
    if l1:
        regs = regs + [(LOST, "inplace")]
    if not any(k == "inplace" for _, k in regs):
        # not an error by itself (einx may stop using in-place primitives), but the table then has rows nobody uses
        pass
    ok, why = inplace_passes_first_argument(parse(FILE_FUN))
    if not ok:
        lost.append(("alias:inplace-target", why))
    ok2, why2 = compiler_result_is_target(parse(FILE_CMP))
    if not ok2:
        lost.append(("alias:compiler-inplace", why2))
    facts = {"traced": regs, "inplace": [f for f, k in regs if k == "inplace"], "inplace_target_is_first_arg": ok, "inplace_result_is_target": ok2}
    return render(regs, ok, ok2), facts, lost
