"""Typed mini translator: a pure, small subset of Python (`ast`) -> Lean 4 definitions.

Used by the T-src extractors that *regenerate* a Lean definition from a function of /repo on every run, so that a
theorem `extracted_X_eq : handModel = Extracted.X` breaks as soon as the Python function is edited (see
`tools/extract/stb.py`, `tools/extract/diag.py`).  The reading of Python's builtins is `lean/EinxModel/Basic/PyPrelude.lean`.

Subset
------
statements   `x = e`, `(x,) = e`, `a, b = e`, `x += e` (and `-= *=`), `l.append(e)`, `l.insert(i, e)`, `d[k] = v`, `l[i] = v`,
             `if/elif/else` (with or without `return`/`raise` inside), `for <targets> in <list>:` without break/continue/return
             (a left fold over the loop-carried variables), `while <cond>:` only through `Domain.while_fuel` (bounded
             iteration with an explicit fuel expression; running out of fuel is the error "FuelExhausted"),
             `assert e`, `return e`, `raise X(...)` (the message is dropped; statements of a block that ends in `raise`
             must be message-building only), nested `def` (translated as a separate definition; must not capture
             locals), docstrings, `pass`.
expressions  names, `int`/`bool`/`str` constants, tuples, lists, `+ - * // %`, unary `-`/`not`, `and`/`or` (short-circuit
             is kept when an operand can raise), comparisons incl. `in`/`not in` and chains, `a if c else b`,
             list/generator/set comprehensions with conditions and tuple targets (one or more `for` clauses),
             `len tuple list set range enumerate zip sum sorted reversed any all min max`, `l.index(x)`, `l.count(x)`,
             `d.get(k, default)`, indexing `l[i]` (Option-free: `Except`, error "IndexError"), slices, fixed-tuple projection,
             and whatever the `Domain` of the extractor declares (attributes of model types, calls of domain functions,
             `isinstance` guards that are true in the typed model).
Everything else raises `Outside`; the extractor then emits the *conservative* definition (under which the dependent
obligation fails) and reports a lost anchor.  Nothing is ever guessed.

Typing: `Nat` for integers that are non-negative by construction (lengths, counts, positions, non-negative literals and
their sums/products), `Int` as soon as a subtraction, a negation or an `Int`-typed operand is involved (a `Nat` operand
is then embedded by `Int.ofNat`).  Sets are duplicate-free lists with only order-insensitive operations.
Partiality: an expression that can raise has Lean type `Except String τ`; such values are sequenced in evaluation order.
"""
import ast

KEYWORDS = {"in", "at", "from", "end", "open", "fun", "let", "do", "then", "else", "if", "match", "with", "show", "have", "by", "def",
            "theorem", "example", "instance", "structure", "where", "namespace", "section", "variable", "universe", "import", "return",
            "for", "mut", "try", "catch", "finally", "unless", "break", "continue", "Type", "Prop", "Sort", "forall", "exists",
            "macro", "syntax", "notation", "local", "private", "protected", "axiom", "opaque", "abbrev", "deriving", "class",
            "extends", "using", "calc", "nomatch", "nofun", "this", "suffices", "obtain", "set_option", "attribute", "export", "id"}


class Outside(Exception):
    """The construct is outside the translated subset."""


# ------------------------------------------------------------------------------------------------------------- types

class Var:
    """A type not yet known (element type of `[]`, `{}`)."""
    _n = 0

    def __init__(self):
        Var._n += 1
        self.n = Var._n
        self.ref = None

    def __repr__(self):
        return f"?{self.n}" if self.ref is None else repr(self.ref)


NAT, INT, BOOL, STR = ("nat",), ("int",), ("bool",), ("str",)


def LIST(t):
    return ("list", t)


def SET(t):
    return ("set", t)


def TUPLE(*ts):
    return ("tuple", tuple(ts))


def DICT(k, v):
    return ("dict", k, v)


def NAMED(name):
    return ("named", name)


def OPT(t):
    """`None` or a value of type t."""
    return ("opt", t)


def prune(t):
    """Resolve type variables (deeply, so that resolved types can be compared with ==)."""
    while isinstance(t, Var) and t.ref is not None:
        t = t.ref
    if isinstance(t, Var):
        return t
    if t[0] in ("list", "set", "opt"):
        return (t[0], prune(t[1]))
    if t[0] == "tuple":
        return ("tuple", tuple(prune(x) for x in t[1]))
    if t[0] == "dict":
        return ("dict", prune(t[1]), prune(t[2]))
    return t


def unify(a, b):
    """Make the two types equal (no coercion); False if impossible."""
    a, b = prune(a), prune(b)
    if a is b:
        return True
    if isinstance(a, Var):
        a.ref = b
        return True
    if isinstance(b, Var):
        b.ref = a
        return True
    if a[0] != b[0]:
        return False
    if a[0] in ("list", "set", "opt"):
        return unify(a[1], b[1])
    if a[0] == "tuple":
        return len(a[1]) == len(b[1]) and all(unify(x, y) for x, y in zip(a[1], b[1]))
    if a[0] == "dict":
        return unify(a[1], b[1]) and unify(a[2], b[2])
    if a[0] == "named":
        return a[1] == b[1]
    return True


def lean_ty(t):
    t = prune(t)
    if isinstance(t, Var):
        raise Outside("a type could not be determined (empty literal never used)")
    k = t[0]
    if k == "nat":
        return "Nat"
    if k == "int":
        return "Int"
    if k == "bool":
        return "Bool"
    if k == "str":
        return "String"
    if k in ("list", "set"):
        return f"(List {lean_ty(t[1])})"
    if k == "opt":
        return f"(Option {lean_ty(t[1])})"
    if k == "tuple":
        if len(t[1]) == 1:
            return lean_ty(t[1][0])
        return "(" + " × ".join(lean_ty(x) for x in t[1]) + ")"
    if k == "dict":
        return f"(List ({lean_ty(t[1])} × {lean_ty(t[2])}))"
    if k == "named":
        return t[1]
    raise Outside(f"type {t}")


def tykey(t):
    t = prune(t)
    if isinstance(t, Var):
        return "?"
    if t[0] in ("list", "set", "opt"):
        return f"{t[0]}[{tykey(t[1])}]"
    if t[0] == "tuple":
        return "tuple[" + ",".join(tykey(x) for x in t[1]) + "]"
    if t[0] == "dict":
        return f"dict[{tykey(t[1])},{tykey(t[2])}]"
    if t[0] == "named":
        return t[1]
    return t[0]


class Val:
    """A translated expression: Lean code, its type, and whether the code has type `Except String <ty>`."""

    def __init__(self, code, ty, partial=False):
        self.code, self.ty, self.partial = code, ty, partial


def ident(name):
    return "py_" + name if name in KEYWORDS or name.startswith("_") else name


def indent(text, n=2):
    pad = " " * n
    return "\n".join(pad + line if line else line for line in text.split("\n"))


# ------------------------------------------------------------------------------------------------------------- domain

class Domain:
    """What the extractor declares about the model types.

    attrs        {(tykey, attribute): (lean format with {0} for the object, result type)}
    methods      {(tykey, method): handler(tr, node, obj_val, env) -> Val}
    calls        {dotted python source of the callee: handler(tr, node, env) -> Val}
    isinstance_true  {(tykey of the object, python source of the class): reason}  -- guards that hold in the typed model
    iter_as      {tykey: (lean format, element type)}  -- how iterating over a model object reads
    while_fuel   {python source of the loop test: python-independent Lean fuel expression over the variables in scope}
    """

    def __init__(self, attrs=None, methods=None, calls=None, isinstance_true=None, iter_as=None, while_fuel=None):
        self.attrs = dict(attrs or {})
        self.methods = dict(methods or {})
        self.calls = dict(calls or {})
        self.isinstance_true = dict(isinstance_true or {})
        self.iter_as = dict(iter_as or {})
        self.while_fuel = dict(while_fuel or {})


# ------------------------------------------------------------------------------------------------------------- frames

class Frame:
    """Bindings that precede a result: `let x := e` / `let x ← e` lines."""

    def __init__(self):
        self.lines = []
        self.partial = False

    def let(self, pat, code):
        self.lines.append(f"let {pat} := {code}")

    def bind(self, pat, code):
        self.lines.append(f"let {pat} ← {code}")
        self.partial = True

    def close(self, result):
        """The term `bindings; result` as a Val; `result` is a Val (its code is monadic iff result.partial)."""
        if not self.lines:
            return result
        if self.partial or result.partial:
            last = result.code if result.partial else f"pure {atom(result.code)}"
            body = "\n".join(self.lines + [last])
            return Val("(do\n" + indent(body) + ")", result.ty, True)
        body = "\n".join(self.lines + [result.code])
        return Val("(\n" + indent(body) + ")", result.ty, False)


def atom(code):
    """Parenthesise unless obviously atomic."""
    c = code.strip()
    if c.startswith("(") and _balanced_outer(c):
        return c
    if all(ch.isalnum() or ch in "_.'" for ch in c) and c:
        return c
    if c.startswith('"') and c.endswith('"') and c.count('"') == 2:
        return c
    if c.startswith("[") and c.endswith("]") and _balanced_outer(c, "[", "]"):
        return c
    return f"({c})"


def _balanced_outer(c, o="(", cl=")"):
    depth = 0
    in_str = False
    for i, ch in enumerate(c):
        if ch == '"':
            in_str = not in_str
        if in_str:
            continue
        if ch == o:
            depth += 1
        elif ch == cl:
            depth -= 1
            if depth == 0 and i != len(c) - 1:
                return False
    return depth == 0


# ------------------------------------------------------------------------------------------------------------- translator

RET = ("ret",)

PURE_MESSAGE_CALLS = {"set", "len", "str", "repr", "sorted", "list", "tuple", "type"}


class Translator:
    def __init__(self, domain, namespace_funcs=None):
        self.dom = domain
        self.funcs = dict(namespace_funcs or {})   # python name -> (lean name, [param types], result type, partial)
        self.assumed = []                           # isinstance guards read as `true`
        self.notes = []                             # other recorded readings
        self.tmp = 0
        self.frames = []
        self.func_nodes = {}
        self.captured = {}                          # python name of a nested def -> [(captured variable, type)]
        self.holes = []
        self.ret_ty = None

    # ---- helpers

    def fresh(self, base="t"):
        self.tmp += 1
        return f"{base}_{self.tmp}"

    def frame(self):
        return self.frames[-1]

    def pure(self, v):
        """Code of a total value for `v`; a partial one is sequenced into the current frame first."""
        if not v.partial:
            return v.code
        n = self.fresh()
        self.frame().bind(n, v.code)
        return n

    def scoped(self, fn):
        """Run `fn()` (returning a Val) in a new frame and close it."""
        self.frames.append(Frame())
        try:
            v = fn()
            return self.frames[-1].close(v)
        finally:
            self.frames.pop()

    def coerce(self, v, ty):
        """Total code of `v` at type `ty`.  Coercions: Nat -> Int and List Nat -> List Int (embeddings); Int -> Nat and
        List Int -> List Nat are *narrowings*: a negative value is the error "ModelDomain:negative" (the model types the
        target as non-negative; nothing is clipped)."""
        code = self.pure(v)
        a, b = prune(v.ty), prune(ty)
        if not isinstance(a, Var) and not isinstance(b, Var):
            if a == NAT and b == INT:
                return f"(Int.ofNat {atom(code)})"
            if a == LIST(NAT) and b == LIST(INT):
                return f"({atom(code)}.map Int.ofNat)"
            if a == INT and b == NAT:
                n = self.fresh()
                self.frame().bind(n, f"Py.natOfInt {atom(code)}")
                return n
            if a == LIST(INT) and b == LIST(NAT):
                n = self.fresh()
                self.frame().bind(n, f"{atom(code)}.mapM Py.natOfInt")
                return n
            if b[0] == "opt" and a[0] != "opt" and unify(v.ty, b[1]):
                return f"(some {atom(code)})"
        if not unify(v.ty, ty):
            raise Outside(f"type mismatch: {tykey(v.ty)} where {tykey(ty)} is expected")
        return code

    def numeric_join(self, a, b):
        ta, tb = prune(a.ty), prune(b.ty)
        if ta == INT or tb == INT:
            return INT
        return NAT

    # ---- expressions

    def expr(self, n, env):
        m = getattr(self, "e_" + type(n).__name__, None)
        if m is None:
            raise Outside(f"expression {type(n).__name__}: {ast.unparse(n)[:60]}")
        return m(n, env)

    def e_Name(self, n, env):
        if n.id in env:
            return Val(ident(n.id), env[n.id])
        raise Outside(f"free name {n.id}")

    def e_Constant(self, n, env):
        v = n.value
        if isinstance(v, bool):
            return Val("true" if v else "false", BOOL)
        if isinstance(v, int):
            if v >= 0:
                return Val(str(v), NAT)
            return Val(f"({v} : Int)", INT)
        if isinstance(v, str):
            return Val('"' + v.replace("\\", "\\\\").replace('"', '\\"') + '"', STR)
        if v is None:
            return Val("none", OPT(Var()))
        raise Outside(f"constant {v!r}")

    def e_Tuple(self, n, env):
        if any(isinstance(e, ast.Starred) for e in n.elts):
            raise Outside("starred element")
        vs = [self.expr(e, env) for e in n.elts]
        codes = [self.pure(v) for v in vs]
        if len(vs) == 0:
            return Val("[]", LIST(Var()))
        if len(vs) == 1:
            return Val(codes[0], TUPLE(vs[0].ty))
        return Val("(" + ", ".join(codes) + ")", TUPLE(*[v.ty for v in vs]))

    def as_list(self, n, env):
        """A tuple/list display read as a homogeneous list."""
        if any(isinstance(e, ast.Starred) for e in n.elts):
            raise Outside("starred element")
        vs = [self.expr(e, env) for e in n.elts]
        if not vs:
            return Val("[]", LIST(Var()))
        t = vs[0].ty
        if any(prune(v.ty) == INT for v in vs):
            t = INT
        codes = [self.coerce(v, t) for v in vs]
        return Val("[" + ", ".join(codes) + "]", LIST(t))

    def e_List(self, n, env):
        return self.as_list(n, env)

    def e_Dict(self, n, env):
        if not n.keys:
            return Val("[]", DICT(Var(), Var()))
        if any(k is None for k in n.keys):
            raise Outside("dict display with ** unpacking")
        ks = [self.expr(k, env) for k in n.keys]
        vs = [self.expr(v, env) for v in n.values]
        kt = ks[0].ty
        vt = INT if any(prune(v.ty) == INT for v in vs) else vs[0].ty
        code = "[]"
        for k, v in zip(ks, vs):
            code = f"(Py.dictSet {code} {atom(self.coerce(k, kt))} {atom(self.coerce(v, vt))})"
        return Val(code, DICT(kt, vt))

    def listy(self, n, env):
        """Translate `n` where a list is expected: tuple displays are read as lists."""
        if isinstance(n, (ast.Tuple, ast.List)):
            return self.as_list(n, env)
        return self.expr(n, env)

    def e_UnaryOp(self, n, env):
        v = self.expr(n.operand, env)
        if isinstance(n.op, ast.Not):
            c = self.coerce(v, BOOL)
            return Val(f"(!{atom(c)})", BOOL)
        if isinstance(n.op, ast.USub):
            if isinstance(n.operand, ast.Constant) and isinstance(n.operand.value, int) and not isinstance(n.operand.value, bool):
                return Val(f"(-{n.operand.value} : Int)", INT)
            c = self.coerce(v, INT)
            return Val(f"(-{atom(c)})", INT)
        raise Outside(f"unary operator {type(n.op).__name__}")

    def e_BinOp(self, n, env):
        op = n.op
        if isinstance(op, ast.Add):
            # list concatenation?
            if isinstance(n.left, (ast.List, ast.Tuple)) or isinstance(n.right, (ast.List, ast.Tuple)):
                a, b = self.listy(n.left, env), self.listy(n.right, env)
            else:
                a, b = self.expr(n.left, env), self.expr(n.right, env)
            ta = prune(a.ty)
            tb = prune(b.ty)
            if (not isinstance(ta, Var) and ta[0] == "list") or (not isinstance(tb, Var) and tb[0] == "list"):
                ca = self.pure(a)
                cb = self.pure(b)
                if not unify(a.ty, b.ty):
                    # list of Nat with list of Int
                    raise Outside(f"concatenation of {tykey(a.ty)} and {tykey(b.ty)}")
                return Val(f"({ca} ++ {cb})", a.ty)
            if not isinstance(ta, Var) and ta == STR:
                ca, cb = self.pure(a), self.coerce(b, STR)
                return Val(f"({ca} ++ {cb})", STR)
            t = self.numeric_join(a, b)
            ca, cb = self.coerce(a, t), self.coerce(b, t)
            return Val(f"({ca} + {cb})", t)
        a, b = self.expr(n.left, env), self.expr(n.right, env)
        ta = prune(a.ty)
        if isinstance(op, ast.Sub):
            if not isinstance(ta, Var) and ta[0] == "set":
                ca = self.pure(a)
                cb = self.coerce(b, a.ty)
                return Val(f"(Py.setDiff {atom(ca)} {atom(cb)})", a.ty)
            ca, cb = self.coerce(a, INT), self.coerce(b, INT)
            return Val(f"({ca} - {cb})", INT)
        if isinstance(op, ast.BitOr) and not isinstance(ta, Var) and ta[0] == "set":
            ca = self.pure(a)
            cb = self.coerce(b, a.ty)
            return Val(f"(Py.setUnion {atom(ca)} {atom(cb)})", a.ty)
        if isinstance(op, ast.BitAnd) and not isinstance(ta, Var) and ta[0] == "set":
            ca = self.pure(a)
            cb = self.coerce(b, a.ty)
            return Val(f"(Py.setInter {atom(ca)} {atom(cb)})", a.ty)
        if isinstance(op, ast.Mult) and not isinstance(ta, Var) and ta[0] == "list":
            if not (isinstance(n.left, ast.List) and len(n.left.elts) == 1):
                raise Outside("list repetition other than [e] * n")
            e = self.expr(n.left.elts[0], env)
            cnt = self.coerce(b, NAT)
            return Val(f"(List.replicate {atom(cnt)} {atom(self.pure(e))} : {lean_ty_late(self, LIST(e.ty))})", LIST(e.ty))
        if isinstance(op, ast.Mult):
            t = self.numeric_join(a, b)
            ca, cb = self.coerce(a, t), self.coerce(b, t)
            return Val(f"({ca} * {cb})", t)
        if isinstance(op, (ast.FloorDiv, ast.Mod)):
            t = self.numeric_join(a, b)
            ca, cb = self.coerce(a, t), self.coerce(b, t)
            f = {("nat", True): "Py.natDiv", ("nat", False): "Py.natMod", ("int", True): "Py.floorDiv", ("int", False): "Py.floorMod"}[
                (t[0], isinstance(op, ast.FloorDiv))]
            return Val(f"({f} {atom(ca)} {atom(cb)})", t, True)
        raise Outside(f"binary operator {type(op).__name__}")

    def e_BoolOp(self, n, env):
        is_and = isinstance(n.op, ast.And)
        # translate the operands right to left so that a partial later operand becomes a guarded monadic term
        vals = []
        for v in n.values:
            vals.append(self.scoped(lambda v=v: self._bool_val(v, env)))
        acc = vals[-1]
        for v in reversed(vals[:-1]):
            if acc.partial:
                # v must be evaluated first; it is sequenced into the current frame by pure()
                c = self.pure(v)
                if is_and:
                    acc = Val(f"(if {c} then {acc.code} else pure false)", BOOL, True)
                else:
                    acc = Val(f"(if {c} then pure true else {acc.code})", BOOL, True)
            else:
                if v.partial:
                    # left operand partial, right total:  do let a ← v; pure (a && acc)
                    acc_code = acc.code
                    t = self.fresh()
                    op = "&&" if is_and else "||"
                    acc = Val(f"(do\n  let {t} ← {v.code}\n  pure ({t} {op} {acc_code}))", BOOL, True)
                else:
                    op = "&&" if is_and else "||"
                    acc = Val(f"({v.code} {op} {acc.code})", BOOL, False)
        return acc

    def _bool_val(self, node, env):
        v = self.expr(node, env)
        if not unify(v.ty, BOOL):
            raise Outside(f"truth value of a {tykey(v.ty)}: {ast.unparse(node)[:50]}")
        return v

    def e_IfExp(self, n, env):
        c = self.coerce(self.expr(n.test, env), BOOL)
        a = self.scoped(lambda: self.expr(n.body, env))
        b = self.scoped(lambda: self.expr(n.orelse, env))
        ta, tb = prune(a.ty), prune(b.ty)
        t = a.ty
        if (ta == INT) != (tb == INT) and {ta, tb} == {NAT, INT}:
            t = INT
            if ta == NAT:
                a = Val(f"(Int.ofNat {atom(a.code)})", INT, False) if not a.partial else self._lift_int(a)
            else:
                b = Val(f"(Int.ofNat {atom(b.code)})", INT, False) if not b.partial else self._lift_int(b)
        elif not unify(a.ty, b.ty):
            raise Outside(f"conditional expression with branches of types {tykey(a.ty)} and {tykey(b.ty)}")
        if a.partial or b.partial:
            ca = a.code if a.partial else f"pure {atom(a.code)}"
            cb = b.code if b.partial else f"pure {atom(b.code)}"
            return Val(f"(if {c} then {ca} else {cb})", t, True)
        return Val(f"(if {c} then {a.code} else {b.code})", t, False)

    def _lift_int(self, v):
        return Val(f"(do\n  let t_ ← {v.code}\n  pure (Int.ofNat t_))", INT, True)

    CMP_NUM = {ast.Lt: "<", ast.LtE: "≤", ast.Gt: ">", ast.GtE: "≥"}

    def compare1(self, a, op, b):
        """a, b: Vals already total (codes usable several times)."""
        ta, tb = prune(a.ty), prune(b.ty)
        if type(op) in self.CMP_NUM:
            t = self.numeric_join(a, b)
            ca, cb = self.coerce(a, t), self.coerce(b, t)
            return Val(f"(decide ({ca} {self.CMP_NUM[type(op)]} {cb}))", BOOL)
        if isinstance(op, (ast.Eq, ast.NotEq)):
            neg = isinstance(op, ast.NotEq)
            if (not isinstance(ta, Var) and ta[0] == "set") or (not isinstance(tb, Var) and tb[0] == "set"):
                if not unify(a.ty, b.ty):
                    raise Outside("comparison of a set with a non-set")
                c = f"(Py.setEq {atom(a.code)} {atom(b.code)})"
                return Val(f"(!{c})" if neg else c, BOOL)
            if {ta, tb} == {NAT, INT}:
                ca, cb = self.coerce(a, INT), self.coerce(b, INT)
            else:
                if not unify(a.ty, b.ty):
                    raise Outside(f"comparison of {tykey(a.ty)} with {tykey(b.ty)}")
                ca, cb = a.code, b.code
            return Val(f"({ca} != {cb})" if neg else f"({ca} == {cb})", BOOL)
        if isinstance(op, (ast.Is, ast.IsNot)):
            if b.code != "none" or isinstance(ta, Var) or ta[0] != "opt":
                raise Outside("`is` other than `<optional value> is None`")
            return Val(f"{atom(a.code)}.isSome" if isinstance(op, ast.IsNot) else f"{atom(a.code)}.isNone", BOOL)
        if isinstance(op, (ast.In, ast.NotIn)):
            neg = isinstance(op, ast.NotIn)
            if isinstance(tb, Var) or tb[0] not in ("list", "set", "dict"):
                raise Outside(f"membership in a {tykey(b.ty)}")
            if tb[0] == "dict":
                ca = self.coerce(a, tb[1])
                c = f"(Py.dictHas {atom(b.code)} {atom(ca)})"
            else:
                elem = tb[1]
                if prune(elem) == INT and ta == NAT:
                    ca = self.coerce(a, INT)
                else:
                    ca = self.coerce(a, elem)
                c = f"({atom(b.code)}.contains {atom(ca)})"
            return Val(f"(!{c})" if neg else c, BOOL)
        raise Outside(f"comparison operator {type(op).__name__}")

    def e_Compare(self, n, env):
        operands = [n.left] + list(n.comparators)
        vals = []
        for o in operands:
            v = self.expr(o, env)
            vals.append(Val(self.pure(v), v.ty))
        parts = [self.compare1(vals[i], op, vals[i + 1]) for i, op in enumerate(n.ops)]
        if len(parts) == 1:
            return parts[0]
        return Val("(" + " && ".join(p.code for p in parts) + ")", BOOL)

    # ---- comprehensions

    def target_pattern(self, t, elem_ty, env):
        """Bind the comprehension/loop target; returns the lean pattern."""
        et = prune(elem_ty)
        if isinstance(t, ast.Name):
            env[t.id] = elem_ty
            return ident(t.id)
        if isinstance(t, ast.Tuple) and not isinstance(et, Var) and et[0] == "tuple" and len(et[1]) == len(t.elts):
            pats = [self.target_pattern(x, ty, env) for x, ty in zip(t.elts, et[1])]
            return "(" + ", ".join(pats) + ")"
        raise Outside(f"target {ast.unparse(t)} for elements of type {tykey(elem_ty)}")

    def iterable(self, n, env, allow_set=False):
        """-> (total lean code of a list, element type)"""
        v = self.listy(n, env)
        t = prune(v.ty)
        if isinstance(t, Var):
            raise Outside(f"iteration over a value of unknown type: {ast.unparse(n)[:40]}")
        if t[0] == "list":
            return self.pure(v), t[1]
        if t[0] == "set":
            if not allow_set:
                raise Outside(f"iteration over a set in an order-sensitive position: {ast.unparse(n)[:40]}")
            return self.pure(v), t[1]
        k = tykey(t)
        if k in self.dom.iter_as:
            fmt, et = self.dom.iter_as[k]
            return fmt.format(atom(self.pure(v))), et
        raise Outside(f"iteration over a {k}")

    def comprehension(self, elt, generators, env, allow_set=False):
        """-> Val of type list(elt type)."""
        g = generators[0]
        if g.is_async:
            raise Outside("async comprehension")
        it, et = self.iterable(g.iter, env, allow_set)
        env2 = dict(env)
        pat = self.target_pattern(g.target, et, env2)
        conds = [self.scoped(lambda c=c: self._bool_val(c, env2)) for c in g.ifs]
        if len(generators) > 1:
            inner = self.scoped(lambda: self.comprehension(elt, generators[1:], env2, allow_set))
            body = inner
            flat = True
        else:
            body = self.scoped(lambda: self.expr(elt, env2))
            flat = False
        elem_ty = prune(body.ty)[1] if flat else body.ty
        partial = body.partial or any(c.partial for c in conds)
        if not partial:
            src = it
            if conds:
                cond = " && ".join(c.code for c in conds) if len(conds) > 1 else conds[0].code
                src = f"({atom(it)}.filter (fun {pat} => {cond}))"
            if flat:
                return Val(f"({atom(src)}.flatMap (fun {pat} => {body.code}))", LIST(elem_ty))
            if isinstance(elt, ast.Name) and isinstance(g.target, ast.Name) and elt.id == g.target.id:
                return Val(src, LIST(elem_ty))
            return Val(f"({atom(src)}.map (fun {pat} => {body.code}))", LIST(elem_ty))
        # partial: keep Python's interleaving (condition, then element, per item)
        if not conds and not flat:
            return Val(f"({atom(it)}.mapM (fun {pat} => {body.code}))", LIST(elem_ty), True)
        lines = []
        for c in conds:
            cc = c.code if c.partial else f"pure {atom(c.code)}"
            lines.append(f"if !(← {cc}) then pure none else")
        bc = body.code if body.partial else f"pure {atom(body.code)}"
        lam = "(fun " + pat + " => do\n" + indent("\n".join(lines + [f"let r_ ← {bc}", "pure (some r_)"])) + ")"
        if flat:
            return Val(f"(do\n  let parts_ ← {atom(it)}.filterMapM {lam}\n  pure parts_.flatten)", LIST(elem_ty), True)
        return Val(f"({atom(it)}.filterMapM {lam})", LIST(elem_ty), True)

    def e_ListComp(self, n, env):
        return self.comprehension(n.elt, n.generators, env)

    def e_GeneratorExp(self, n, env):
        return self.comprehension(n.elt, n.generators, env)

    def e_SetComp(self, n, env):
        v = self.comprehension(n.elt, n.generators, env, allow_set=True)
        c = self.pure(v)
        return Val(f"(Py.setOf {atom(c)})", SET(prune(v.ty)[1]))

    # ---- attribute / subscript / call

    def e_Attribute(self, n, env):
        src = ast.unparse(n)
        if src in self.dom.calls and not callable(self.dom.calls[src]):
            code, ty = self.dom.calls[src]
            return Val(code, ty)
        v = self.expr(n.value, env)
        k = (tykey(v.ty), n.attr)
        if k in self.dom.attrs:
            fmt, ty = self.dom.attrs[k]
            return Val(fmt.format(atom(self.pure(v))), ty)
        raise Outside(f"attribute .{n.attr} of a {tykey(v.ty)}")

    def const_int(self, n):
        if isinstance(n, ast.Constant) and isinstance(n.value, int) and not isinstance(n.value, bool):
            return n.value
        if isinstance(n, ast.UnaryOp) and isinstance(n.op, ast.USub) and isinstance(n.operand, ast.Constant) and isinstance(n.operand.value, int):
            return -n.operand.value
        return None

    def e_Subscript(self, n, env):
        v = self.expr(n.value, env)
        t = prune(v.ty)
        if isinstance(t, Var):
            raise Outside("indexing a value of unknown type")
        if isinstance(n.slice, ast.Slice):
            if n.slice.step is not None:
                raise Outside("slice with a step")
            if t[0] != "list":
                raise Outside(f"slice of a {tykey(t)}")
            c = self.pure(v)

            def bound(b):
                if b is None:
                    return "none"
                bv = self.expr(b, env)
                return f"(some {atom(self.coerce(bv, INT))})"
            lo, hi = bound(n.slice.lower), bound(n.slice.upper)
            return Val(f"(Py.slice {atom(c)} {lo} {hi})", v.ty)
        if t[0] == "tuple":
            k = self.const_int(n.slice)
            if k is None or not (0 <= k < len(t[1])):
                raise Outside("projection of a fixed tuple with a non-constant index")
            c = self.pure(v)
            if len(t[1]) == 1:
                return Val(c, t[1][0])
            proj = ".2" * k + (".1" if k < len(t[1]) - 1 else "")
            return Val(f"{atom(c)}{proj}", t[1][k])
        if t[0] == "dict":
            c = self.pure(v)
            kc = self.coerce(self.expr(n.slice, env), t[1])
            return Val(f"(Py.dictGet {atom(c)} {atom(kc)})", t[2], True)
        if t[0] == "list":
            c = self.pure(v)
            i = self.expr(n.slice, env)
            ti = prune(i.ty)
            if ti == NAT:
                return Val(f"(Py.getNat {atom(c)} {atom(self.pure(i))})", t[1], True)
            return Val(f"(Py.getInt {atom(c)} {atom(self.coerce(i, INT))})", t[1], True)
        raise Outside(f"indexing a {tykey(t)}")

    def e_Call(self, n, env):
        src = ast.unparse(n.func)
        if src in self.dom.calls and callable(self.dom.calls[src]):
            return self.dom.calls[src](self, n, env)
        if isinstance(n.func, ast.Name):
            f = n.func.id
            if f in env:
                raise Outside(f"call of the local value {f}")
            if f in self.funcs:
                return self.call_translated(f, n, env)
            b = getattr(self, "b_" + f, None)
            if b is not None:
                return b(n, env)
            raise Outside(f"call of {f}")
        if isinstance(n.func, ast.Attribute):
            # method of a model object?
            try:
                obj = self.scoped(lambda: self.expr(n.func.value, env))
            except Outside:
                raise Outside(f"call of {src}")
            k = (tykey(obj.ty), n.func.attr)
            if k in self.dom.methods:
                return self.dom.methods[k](self, n, obj, env)
            m = getattr(self, "m_" + n.func.attr, None)
            if m is not None:
                return m(n, obj, env)
            raise Outside(f"method .{n.func.attr} of a {tykey(obj.ty)}")
        raise Outside(f"call of {src}")

    def call_translated(self, f, n, env):
        lean, ptys, rty, partial = self.funcs[f]
        captured = self.captured.get(f, [])
        if n.keywords or len(n.args) != len(ptys) - len(captured):
            raise Outside(f"call of {f} with keywords or a different number of arguments")
        args = [atom(self.coerce(self.expr(a, env), t)) for a, t in zip(n.args, ptys)]
        # a closure reads its captured variables when it is called: pass their current values
        for nm, t in captured:
            if nm not in env:
                raise Outside(f"{f} captures {nm}, which is not bound at the call")
            args.append(atom(self.coerce(Val(ident(nm), env[nm]), t)))
        return Val("(" + " ".join([lean] + args) + ")", rty, partial)

    def args1(self, n, k=1):
        if n.keywords or len(n.args) != k:
            raise Outside(f"{ast.unparse(n.func)} with {len(n.args)} arguments / keywords")
        return n.args

    # builtins

    def b_len(self, n, env):
        (a,) = self.args1(n)
        v = self.listy(a, env)
        t = prune(v.ty)
        if isinstance(t, Var) or t[0] not in ("list", "set", "dict"):
            k = tykey(t)
            if (k, "__len__") in self.dom.attrs:
                fmt, ty = self.dom.attrs[(k, "__len__")]
                return Val(fmt.format(atom(self.pure(v))), ty)
            raise Outside(f"len of a {k}")
        return Val(f"{atom(self.pure(v))}.length", NAT)

    def b_tuple(self, n, env):
        (a,) = self.args1(n)
        v = self.listy(a, env) if not isinstance(a, (ast.GeneratorExp, ast.ListComp)) else self.expr(a, env)
        t = prune(v.ty)
        if isinstance(t, Var) or t[0] != "list":
            it, et = self.iterable(a, env)
            return Val(it, LIST(et))
        return v

    b_list = b_tuple

    def b_set(self, n, env):
        if not n.args and not n.keywords:
            return Val("[]", SET(Var()))
        (a,) = self.args1(n)
        v = self.listy(a, env)
        t = prune(v.ty)
        if not isinstance(t, Var) and t[0] == "set":
            return v
        if isinstance(t, Var) or t[0] != "list":
            raise Outside(f"set of a {tykey(t)}")
        return Val(f"(Py.setOf {atom(self.pure(v))})", SET(t[1]))

    def b_range(self, n, env):
        if n.keywords or not (1 <= len(n.args) <= 2):
            raise Outside("range with a step")
        vs = [self.expr(a, env) for a in n.args]
        for v in vs:
            if prune(v.ty) != NAT:
                raise Outside("range of a possibly negative integer")
        cs = [atom(self.pure(v)) for v in vs]
        if len(cs) == 1:
            return Val(f"(List.range {cs[0]})", LIST(NAT))
        return Val(f"(Py.range2 {cs[0]} {cs[1]})", LIST(NAT))

    def b_enumerate(self, n, env):
        (a,) = self.args1(n)
        it, et = self.iterable(a, env)
        return Val(f"(Py.enumerate {atom(it)})", LIST(TUPLE(NAT, et)))

    def b_zip(self, n, env):
        kws = {k.arg: k.value for k in n.keywords}
        if set(kws) - {"strict"} or ("strict" in kws and not (isinstance(kws["strict"], ast.Constant) and kws["strict"].value is False)):
            raise Outside("zip with strict=True or other keywords")
        if len(n.args) != 2:
            raise Outside("zip of other than two iterables")
        (ia, ta), (ib, tb) = self.iterable(n.args[0], env), self.iterable(n.args[1], env)
        return Val(f"({atom(ia)}.zip {atom(ib)})", LIST(TUPLE(ta, tb)))

    def b_reversed(self, n, env):
        (a,) = self.args1(n)
        it, et = self.iterable(a, env)
        return Val(f"{atom(it)}.reverse", LIST(et))

    def b_sorted(self, n, env):
        (a,) = self.args1(n)
        it, et = self.iterable(a, env, allow_set=True)
        e = prune(et)
        if e == NAT:
            return Val(f"(Py.sortedNat {atom(it)})", LIST(NAT))
        if e == INT:
            return Val(f"(Py.sortedInt {atom(it)})", LIST(INT))
        raise Outside(f"sorted over elements of type {tykey(et)}")

    def b_sum(self, n, env):
        (a,) = self.args1(n)
        if isinstance(a, (ast.GeneratorExp, ast.ListComp)):
            v = self.comprehension(a.elt, a.generators, env, allow_set=True)
            it, et = self.pure(v), prune(v.ty)[1]
        else:
            it, et = self.iterable(a, env, allow_set=True)
        e = prune(et)
        if e == NAT:
            return Val(f"(Py.sumNat {atom(it)})", NAT)
        if e == INT:
            return Val(f"(Py.sumInt {atom(it)})", INT)
        raise Outside(f"sum over elements of type {tykey(et)}")

    def _anyall(self, n, env, fn):
        (a,) = self.args1(n)
        if isinstance(a, (ast.GeneratorExp, ast.ListComp)):
            v = self.comprehension(a.elt, a.generators, env, allow_set=True)
            it, et = self.pure(v), prune(v.ty)[1]
        else:
            it, et = self.iterable(a, env, allow_set=True)
        if not unify(et, BOOL):
            raise Outside(f"{fn} over elements of type {tykey(et)}")
        return Val(f"({atom(it)}.{fn} (fun b_ => b_))", BOOL)

    def b_any(self, n, env):
        return self._anyall(n, env, "any")

    def b_all(self, n, env):
        return self._anyall(n, env, "all")

    def b_isinstance(self, n, env):
        a, c = self.args1(n, 2)
        v = self.scoped(lambda: self.expr(a, env))
        k = (tykey(v.ty), ast.unparse(c))
        if k in self.dom.isinstance_true:
            self.assumed.append(f"isinstance({ast.unparse(a)}, {ast.unparse(c)}) with {ast.unparse(a)} : {k[0]} -- {self.dom.isinstance_true[k]}")
            return Val("true", BOOL)
        raise Outside(f"isinstance({ast.unparse(a)} : {k[0]}, {k[1]})")

    # methods of builtin containers

    def m_index(self, n, obj, env):
        (a,) = self.args1(n)
        t = prune(obj.ty)
        if isinstance(t, Var) or t[0] != "list":
            raise Outside(f".index of a {tykey(t)}")
        c = self.pure(obj)
        x = self.coerce(self.expr(a, env), t[1])
        return Val(f"(Py.index {atom(c)} {atom(x)})", NAT, True)

    def m_count(self, n, obj, env):
        (a,) = self.args1(n)
        t = prune(obj.ty)
        if isinstance(t, Var) or t[0] != "list":
            raise Outside(f".count of a {tykey(t)}")
        c = self.pure(obj)
        x = self.coerce(self.expr(a, env), t[1])
        return Val(f"({atom(c)}.count {atom(x)})", NAT)

    def m_get(self, n, obj, env):
        a, d = self.args1(n, 2)
        t = prune(obj.ty)
        if isinstance(t, Var) or t[0] != "dict":
            raise Outside(f".get of a {tykey(t)}")
        c = self.pure(obj)
        k = self.coerce(self.expr(a, env), t[1])
        dv = self.coerce(self.expr(d, env), t[2])
        return Val(f"(Py.dictGetD {atom(c)} {atom(k)} {atom(dv)})", t[2])

    # ---- statements

    @staticmethod
    def has_exit(stmts):
        for s in stmts:
            for x in ast.walk(s):
                if isinstance(x, (ast.Return, ast.Raise, ast.Assert)):
                    return True
        return False

    @staticmethod
    def assigned_names(stmts):
        """Names (in order of first appearance) assigned / mutated by the statements (not descending into nested defs)."""
        out = []

        def add(nm):
            if nm not in out:
                out.append(nm)

        def tgt(t):
            if isinstance(t, ast.Name):
                add(t.id)
            elif isinstance(t, (ast.Tuple, ast.List)):
                for e in t.elts:
                    tgt(e)
            elif isinstance(t, ast.Subscript) and isinstance(t.value, ast.Name):
                add(t.value.id)
            elif isinstance(t, ast.Starred):
                tgt(t.value)

        def walk(ss):
            for s in ss:
                if isinstance(s, ast.Assign):
                    for t in s.targets:
                        tgt(t)
                elif isinstance(s, (ast.AugAssign, ast.AnnAssign)):
                    tgt(s.target)
                elif isinstance(s, ast.Expr) and isinstance(s.value, ast.Call) and isinstance(s.value.func, ast.Attribute) \
                        and isinstance(s.value.func.value, ast.Name) and s.value.func.attr in ("append", "insert", "extend", "pop", "add", "remove", "clear", "update", "sort", "reverse"):
                    add(s.value.func.value.id)
                elif isinstance(s, ast.If):
                    walk(s.body)
                    walk(s.orelse)
                elif isinstance(s, (ast.For, ast.While)):
                    if isinstance(s, ast.For):
                        tgt(s.target)
                    walk(s.body)
                    walk(s.orelse)
                elif isinstance(s, (ast.With, ast.Try)):
                    raise Outside(type(s).__name__)
        walk(stmts)
        return out

    def join_pattern(self, names):
        if len(names) == 1:
            return ident(names[0])
        return "(" + ", ".join(ident(x) for x in names) + ")"

    def block(self, stmts, env, k):
        """Translate a statement list to one Lean term (a Val).  `k` = RET: every path must end in return/raise and the value is
        the function result; `k` = ("join", names): the value is the tuple of the final values of `names`."""
        return self.scoped(lambda: self._block(list(stmts), env, k))

    def _finish(self, env, k):
        if k == RET:
            raise Outside("a path through the function ends without `return`")
        names = k[1]
        for nm in names:
            if nm not in env:
                raise Outside(f"variable {nm} may be unbound")
        return Val(self.join_pattern(names), TUPLE(*[env[nm] for nm in names]))

    def _block(self, stmts, env, k):
        env = env  # mutated in place by the caller's copy
        i = 0
        while i < len(stmts):
            s = stmts[i]
            rest = stmts[i + 1:]
            i += 1
            if isinstance(s, ast.Expr) and isinstance(s.value, ast.Constant) and isinstance(s.value.value, str):
                continue
            if isinstance(s, ast.Pass):
                continue
            if isinstance(s, ast.Return):
                if k == ("probe",):
                    return Val("true", BOOL)
                if k != RET:
                    raise Outside("`return` inside a loop or a joined branch")
                if s.value is None:
                    raise Outside("bare return")
                v = self.expr(s.value, env)
                if not unify(v.ty, self.ret_ty):
                    if prune(self.ret_ty) == INT and prune(v.ty) == NAT:
                        return Val(self.coerce(v, INT), INT)
                    raise Outside(f"return values of different types ({tykey(v.ty)} / {tykey(self.ret_ty)})")
                return v
            if isinstance(s, ast.Raise):
                return self.raise_(s, k, env)
            if isinstance(s, ast.Assert):
                c = self.coerce(self.expr(s.test, env), BOOL)
                cont = self.block(rest, dict(env), k)
                cc = cont.code if cont.partial else f"pure {atom(cont.code)}"
                return Val(f"(if {c} then {cc} else throw \"AssertionError\")", cont.ty, True)
            if isinstance(s, ast.FunctionDef):
                self.nested_def(s, env)
                continue
            if isinstance(s, ast.If):
                c = self.coerce(self.expr(s.test, env), BOOL)
                if self.has_exit(s.body) or self.has_exit(s.orelse):
                    a = self.block(self.strip_message(s.body) + rest, dict(env), k)
                    b = self.block(self.strip_message(s.orelse) + rest, dict(env), k)
                    if k == RET:
                        ty = self.ret_ty
                    else:
                        ty = a.ty
                        if not unify(a.ty, b.ty):
                            raise Outside("branches join at different types")
                    if a.partial or b.partial:
                        ca = a.code if a.partial else f"pure {atom(a.code)}"
                        cb = b.code if b.partial else f"pure {atom(b.code)}"
                        return Val(f"(if {c} then\n{indent(ca, 4)}\n  else\n{indent(cb, 4)})", ty, True)
                    return Val(f"(if {c} then\n{indent(a.code, 4)}\n  else\n{indent(b.code, 4)})", ty, False)
                names = [nm for nm in self.assigned_names(list(s.body) + list(s.orelse)) if nm in env]
                if not names:
                    # no visible effect (block-local names only) -- unless a branch can raise
                    for br in (s.body, s.orelse):
                        if self.block(list(br) + [ast.Return(value=ast.Constant(value=True))], dict(env), ("probe",)).partial:
                            raise Outside("a branch without visible effect that can raise")
                    continue
                ea, eb = dict(env), dict(env)
                a = self.block(s.body, ea, ("join", names))
                b = self.block(s.orelse, eb, ("join", names))
                for nm in names:
                    if not (unify(ea[nm], env[nm]) and unify(eb[nm], env[nm])):
                        raise Outside(f"variable {nm} changes its type inside a branch")
                pat = self.join_pattern(names)
                if a.partial or b.partial:
                    ca = a.code if a.partial else f"pure {atom(a.code)}"
                    cb = b.code if b.partial else f"pure {atom(b.code)}"
                    self.frame().bind(pat, f"(if {c} then\n{indent(ca, 4)}\n  else\n{indent(cb, 4)})")
                else:
                    self.frame().let(pat, f"(if {c} then\n{indent(a.code, 4)}\n  else\n{indent(b.code, 4)})")
                continue
            if isinstance(s, ast.For):
                self.for_(s, env)
                continue
            if isinstance(s, ast.While):
                self.while_(s, env)
                continue
            self.simple(s, env)
        return self._finish(env, k)

    @staticmethod
    def ends_in_raise(stmts):
        return bool(stmts) and isinstance(stmts[-1], ast.Raise)

    def strip_message(self, stmts):
        """A block that ends in `raise`: the statements before it may only build the message and are dropped."""
        stmts = list(stmts)
        if self.ends_in_raise(stmts) and len(stmts) > 1:
            self.check_message_only(stmts[:-1])
            self.notes.append("statements that only build the message of a `raise` are dropped (assumed not to raise themselves)")
            return stmts[-1:]
        return stmts

    def check_message_only(self, stmts):
        """Statements before a `raise` in the same block may only build the message: assignments / ifs of assignments whose calls
        are pure builtins, string methods or set methods."""
        for s in stmts:
            for x in ast.walk(s):
                if isinstance(x, ast.stmt) and not isinstance(x, (ast.Assign, ast.If, ast.Expr)):
                    raise Outside(f"statement before `raise` is not message-building: {ast.unparse(x)[:50]}")
                if isinstance(x, ast.Call):
                    f = x.func
                    ok = (isinstance(f, ast.Name) and f.id in PURE_MESSAGE_CALLS) or \
                         (isinstance(f, ast.Attribute) and f.attr in ("join", "pop", "format"))
                    if not ok:
                        raise Outside(f"call before `raise` is not message-building: {ast.unparse(x)[:50]}")

    def raise_(self, s, k, env):
        exc = s.exc
        if isinstance(exc, ast.Call):
            exc = exc.func
        if exc is None or not isinstance(exc, (ast.Name, ast.Attribute)):
            raise Outside("re-raise / computed exception")
        name = ast.unparse(exc).split(".")[-1]
        ty = self.ret_ty if k == RET else TUPLE(*[env.get(nm, Var()) for nm in k[1]])
        return Val(f'throw "{name}"', ty, True)

    def simple(self, s, env):
        fr = self.frame()
        if isinstance(s, ast.Assign):
            if len(s.targets) != 1:
                raise Outside("chained assignment")
            t = s.targets[0]
            if isinstance(t, ast.Name):
                v = self.empty_literal(s.value) or self.expr(s.value, env)
                self.bind_name(t.id, v, env)
                return
            if isinstance(t, (ast.Tuple, ast.List)):
                v = self.expr(s.value, env)
                vt = prune(v.ty)
                if isinstance(vt, Var) or vt[0] != "tuple" or len(vt[1]) != len(t.elts):
                    # unpacking a list of known length is outside the subset
                    raise Outside(f"unpacking {ast.unparse(t)} from a {tykey(v.ty)}")
                if all(isinstance(e, ast.Name) for e in t.elts):
                    pat = self.join_pattern([e.id for e in t.elts])
                    if v.partial:
                        fr.bind(pat, v.code)
                    else:
                        fr.let(pat, v.code)
                    for e, ty in zip(t.elts, vt[1]):
                        env[e.id] = ty
                    return
                # general targets: evaluate the right-hand side once, then assign the targets from left to right
                tmps = [self.fresh("u") for _ in t.elts]
                pat = "(" + ", ".join(tmps) + ")" if len(tmps) > 1 else tmps[0]
                if v.partial:
                    fr.bind(pat, v.code)
                else:
                    fr.let(pat, v.code)
                env2 = dict(env)
                for tmp, ty in zip(tmps, vt[1]):
                    env2[tmp] = ty
                for e, tmp in zip(t.elts, tmps):
                    self.simple(ast.Assign(targets=[e], value=ast.Name(id=tmp, ctx=ast.Load())), env2)
                for k_ in list(env2):
                    if k_ not in tmps:
                        env[k_] = env2[k_]
                return
            if isinstance(t, ast.Subscript) and isinstance(t.value, ast.Name) and t.value.id in env:
                nm = t.value.id
                ct = prune(env[nm])
                if not isinstance(ct, Var) and ct[0] == "dict":
                    kc = self.coerce(self.expr(t.slice, env), ct[1])
                    vc = self.coerce(self.expr(s.value, env), ct[2])
                    fr.let(ident(nm), f"Py.dictSet {ident(nm)} {atom(kc)} {atom(vc)}")
                    return
                if not isinstance(ct, Var) and ct[0] == "list" and not isinstance(t.slice, ast.Slice):
                    ic = self.coerce(self.expr(t.slice, env), INT)
                    vc = self.coerce(self.expr(s.value, env), ct[1])
                    self.frame().bind(ident(nm), f"Py.listSet {ident(nm)} {atom(ic)} {atom(vc)}")
                    return
                raise Outside(f"item assignment on a {tykey(ct)}")
            raise Outside(f"assignment target {ast.unparse(t)}")
        if isinstance(s, ast.AugAssign) and isinstance(s.target, ast.Name):
            if s.target.id not in env:
                raise Outside(f"augmented assignment to the unbound name {s.target.id}")
            fake = ast.BinOp(left=ast.Name(id=s.target.id, ctx=ast.Load()), op=s.op, right=s.value)
            v = self.expr(fake, env)
            self.bind_name(s.target.id, v, env)
            return
        if isinstance(s, ast.Expr) and isinstance(s.value, ast.Call) and isinstance(s.value.func, ast.Attribute) \
                and isinstance(s.value.func.value, ast.Name) and s.value.func.value.id in env and not s.value.keywords:
            nm = s.value.func.value.id
            ct = prune(env[nm])
            meth = s.value.func.attr
            args = s.value.args
            if not isinstance(ct, Var) and ct[0] == "list":
                if meth == "append" and len(args) == 1:
                    v = self.expr(args[0], env)
                    lst = self.widen(nm, v, env)
                    c = self.coerce(v, prune(env[nm])[1])
                    self.frame().let(ident(nm), f"{lst} ++ [{c}]")
                    return
                if meth == "insert" and len(args) == 2:
                    ic = self.coerce(self.expr(args[0], env), INT)
                    v = self.expr(args[1], env)
                    lst = self.widen(nm, v, env)
                    c = self.coerce(v, prune(env[nm])[1])
                    self.frame().let(ident(nm), f"Py.listInsert {lst} {atom(ic)} {atom(c)}")
                    return
                if meth == "extend" and len(args) == 1:
                    v = self.listy(args[0], env)
                    c = self.coerce(v, env[nm])
                    fr.let(ident(nm), f"{ident(nm)} ++ {atom(c)}")
                    return
            raise Outside(f"method statement {ast.unparse(s)[:50]}")
        raise Outside(f"statement {type(s).__name__}: {ast.unparse(s)[:60]}")

    def widen(self, nm, v, env):
        """A `List Nat` variable that receives an `Int` becomes a `List Int` (embedding); returns the code of the list."""
        ct = prune(env[nm])
        if ct == LIST(NAT) and prune(v.ty) == INT:
            env[nm] = LIST(INT)
            return f"({ident(nm)}.map Int.ofNat)"
        return ident(nm)

    def empty_literal(self, n):
        if isinstance(n, ast.List) and not n.elts:
            return Val("[]", LIST(Var()))
        if isinstance(n, ast.Dict) and not n.keys:
            return Val("[]", DICT(Var(), Var()))
        return None

    def bind_name(self, name, v, env):
        fr = self.frame()
        t = prune(v.ty)
        if v.code == "[]" and not v.partial:
            # typed empty literal: the annotation is filled in when the element type is known
            self.holes.append(v.ty)
            fr.let(f"{ident(name)} : \x00{len(self.holes) - 1}\x00", "[]")
        elif v.partial:
            fr.bind(ident(name), v.code)
        else:
            fr.let(ident(name), v.code)
        env[name] = v.ty

    def for_(self, s, env):
        if s.orelse:
            raise Outside("for/else")
        for x in ast.walk(s):
            if isinstance(x, (ast.Break, ast.Continue, ast.Return)):
                raise Outside("break/continue/return inside a loop")
        it, et = self.iterable(s.iter, env)
        targets = self.assigned_names([ast.Assign(targets=[s.target], value=None)])
        carried = [nm for nm in self.assigned_names(s.body) if nm in env and nm not in targets]
        if not carried:
            raise Outside("a loop without loop-carried variables")
        env2 = dict(env)
        pat = self.target_pattern(s.target, et, env2)
        body = self.block(s.body, env2, ("join", carried))
        for nm in carried:
            if not unify(env2[nm], env[nm]):
                raise Outside(f"loop-carried variable {nm} changes its type")
        st = self.join_pattern(carried)
        if body.partial:
            self.frame().bind(st, f"{atom(it)}.foldlM (fun {st} {pat} =>\n{indent(body.code, 4)}) {st}")
        else:
            self.frame().let(st, f"{atom(it)}.foldl (fun {st} {pat} =>\n{indent(body.code, 4)}) {st}")

    def while_(self, s, env):
        if s.orelse:
            raise Outside("while/else")
        for x in ast.walk(s):
            if isinstance(x, (ast.Break, ast.Continue, ast.Return)):
                raise Outside("break/continue/return inside a loop")
        test_src = ast.unparse(s.test)
        if test_src not in self.dom.while_fuel:
            raise Outside(f"while loop without a declared fuel: {test_src}")
        fuel_py = self.dom.while_fuel[test_src]
        fuel = self.coerce(self.expr(ast.parse(fuel_py, mode="eval").body, env), NAT)
        carried = [nm for nm in self.assigned_names(s.body) if nm in env]
        if not carried:
            raise Outside("a loop without loop-carried variables")
        st = self.join_pattern(carried)
        env2 = dict(env)
        cond = self.scoped(lambda: self._bool_val(s.test, env2))
        body = self.block(s.body, env2, ("join", carried))
        for nm in carried:
            if not unify(env2[nm], env[nm]):
                raise Outside(f"loop-carried variable {nm} changes its type")
        cc = cond.code if cond.partial else f"pure {atom(cond.code)}"
        bc = body.code if body.partial else f"pure {atom(body.code)}"
        ty = lean_ty_late(self, TUPLE(*[env[nm] for nm in carried]))
        self.frame().bind(st, f"Py.whileFuel (σ := {ty}) {atom(fuel)} (fun {st} => {cc}) (fun {st} =>\n{indent(bc, 4)}) {st}")
        self.notes.append(f"`while {test_src}` is read as bounded iteration with fuel `{fuel_py}`; running out of fuel is the error \"FuelExhausted\"")

    def nested_def(self, fn, env):
        if fn.name in self.funcs and self.func_nodes.get(fn.name) is fn:
            return      # already translated as a separate definition (it cannot capture locals: its environment was its parameters)
        raise Outside(f"nested def {fn.name} (not declared to the translator)")

    # ---- functions

    def function(self, fn, lean_name, params, ret_ty, drop=(), consts=None, doc=None, captured=(), outer_env=None):
        """Translate `fn` into `def lean_name (params) : ret := ...`.

        params: [(python name, type)] for the parameters that the model keeps, in Lean order; `drop`: parameters that
        the model does not have (they must not be referenced except through Domain.calls); `consts`: {python name: Val}
        parameters fixed to a constant; `captured`: [(name, type)] local variables of the enclosing function that a nested
        def reads (they become extra parameters, passed with their value at each call); `outer_env`: {name: Val} free
        variables bound to constants by the enclosing scope."""
        self.holes = []
        self.ret_ty = ret_ty
        names = [a.arg for a in fn.args.posonlyargs + fn.args.args + fn.args.kwonlyargs]
        if fn.args.vararg or fn.args.kwarg:
            raise Outside("*args / **kwargs")
        declared = {p for p, _ in params} | set(drop) | set(consts or {})
        if set(names) != declared:
            raise Outside(f"parameters of {fn.name} are {names}, the translation declares {sorted(declared)}")
        env = {p: t for p, t in params}
        for nm, t in captured:
            env[nm] = t
        self.frames.append(Frame())
        try:
            for nm, v in list((consts or {}).items()) + list((outer_env or {}).items()):
                self.frame().let(ident(nm), v.code)
                env[nm] = v.ty
            inner = self._block(list(fn.body), env, RET)
            body = self.frames[-1].close(inner)
        finally:
            self.frames.pop()
        code = body.code
        for i, t in enumerate(self.holes):
            code = code.replace(f"\x00{i}\x00", lean_ty(t))
        if "\x00" in code:
            raise Outside("unresolved type annotation")
        sig = " ".join(f"({ident(p)} : {lean_ty(t)})" for p, t in list(params) + list(captured))
        rt = lean_ty(ret_ty)
        full_rt = f"Except String {rt}" if body.partial else rt
        text = ""
        if doc:
            text += "/-- " + doc.replace("-/", "- /") + " -/\n"
        text += f"def {lean_name} {sig} : {full_rt} :=\n{indent(code)}\n"
        self.funcs[fn.name] = (lean_name, [t for _, t in list(params) + list(captured)], ret_ty, body.partial)
        self.func_nodes[fn.name] = fn
        if captured:
            self.captured[fn.name] = list(captured)
        return text, body.partial


def lean_ty_late(tr, t):
    """Type text that may still contain unknowns: registered as a hole and filled in at the end."""
    tr.holes.append(t)
    return f"\x00{len(tr.holes) - 1}\x00"
