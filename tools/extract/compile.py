"""Structural facts of einx/_src/tracer/compiler/python/{usage,__init__}.py (C04).

* `get_usages._recurse`: is the usage counter incremented before the visited (`done`) check, are the outputs
  of an application visited with `_recurse`, are repeated visits of an alias forwarded to the aliased inputs;
* `CodeObject.define`: does `force_inline` win over a usage count > 1;
* the `fuse` loop of `compile`: are the "used in a later statement" and "used in another block" filters present;
* the allow-list of builtins whose calls may be inlined.
A lost anchor yields the value under which the dependent obligation of Props/C04.lean fails.
"""
import ast
from . import parse, parse_text, src, find_class, find_func, lean_bool, lean_str

USAGE = "einx/_src/tracer/compiler/python/usage.py"
INIT = "einx/_src/tracer/compiler/python/__init__.py"


def _contains_call(node, name):
    for n in ast.walk(node):
        if isinstance(n, ast.Call) and isinstance(n.func, ast.Name) and n.func.id == name:
            return True
    return False


def _is_done_check(n):
    """`if id(x) in done:`"""
    if not isinstance(n, ast.If):
        return False
    t = n.test
    return (isinstance(t, ast.Compare) and len(t.ops) == 1 and isinstance(t.ops[0], ast.In)
            and isinstance(t.comparators[0], ast.Name) and t.comparators[0].id == "done")


def _is_count(n):
    """`map.id_to_usagenum[id(x)] += 1`"""
    return (isinstance(n, ast.AugAssign) and isinstance(n.op, ast.Add) and isinstance(n.value, ast.Constant) and n.value.value == 1
            and isinstance(n.target, ast.Subscript) and isinstance(n.target.value, ast.Attribute) and n.target.value.attr == "id_to_usagenum")


def usage_facts(lost):
    facts = {"countFirst": False, "outputsRecursed": True, "aliasForward": False}
    tree = parse(USAGE)
    gu = find_func(tree, "get_usages")
    rec = find_func(gu, "_recurse") if gu is not None else None
    if rec is None:
        lost.append(("Compile:usage._recurse", "get_usages._recurse not found"))
        return facts
    i_count = i_done = None
    for i, st in enumerate(rec.body):
        if _is_count(st) and i_count is None:
            i_count = i
        if i_done is None and any(isinstance(m, ast.Name) and m.id == "done" for m in ast.walk(st)):
            i_done = i
    if i_count is None or i_done is None:
        lost.append(("Compile:usage.count", "counter increment or visited check not found at the top level of _recurse"))
        return facts
    facts["countFirst"] = i_count < i_done
    # the loop over the outputs of the application
    out_loop = None
    for n in ast.walk(rec):
        if isinstance(n, ast.For) and any(isinstance(m, ast.Attribute) and m.attr == "output" for m in ast.walk(n.iter)):
            out_loop = n
    if out_loop is None:
        lost.append(("Compile:usage.outputs", "loop over origin.output not found"))
    else:
        facts["outputsRecursed"] = _contains_call(out_loop, "_recurse")
    # alias forwarding: `_split_inputs` separates the inputs rendered once from the aliased ones, and the aliased ones are
    # recursed into on every visit (a loop over `aliased_inputs` that is not guarded by `if first`)
    split = find_func(tree, "_split_inputs")
    fwd = False
    if split is not None:
        def unguarded_loops(body):
            for st in body:
                if isinstance(st, ast.For):
                    yield st
                elif isinstance(st, ast.If) and not (isinstance(st.test, ast.Name) and st.test.id == "first"):
                    yield from unguarded_loops(st.body)
                    yield from unguarded_loops(st.orelse)
        for loop in unguarded_loops(rec.body):
            if isinstance(loop.iter, ast.Name) and loop.iter.id == "aliased_inputs" and _contains_call(loop, "_recurse"):
                fwd = True
        kinds = {m.attr for m in ast.walk(split) if isinstance(m, ast.Attribute)}
        if fwd and not {"Cast", "CallInplace", "UpdateItem", "Assert"} <= kinds:
            lost.append(("Compile:usage._split_inputs", "unexpected set of alias applications"))
            fwd = False
    facts["aliasForward"] = fwd
    return facts


def define_facts(lost):
    tree = parse(INIT)
    cls = find_class(tree, "CodeObject")
    fn = find_func(cls, "define") if cls is not None else None
    if fn is None:
        lost.append(("Compile:define", "CodeObject.define not found"))
        return {"forceInlineWins": False}
    for n in ast.walk(fn):
        if isinstance(n, ast.If) and any(isinstance(m, ast.Attribute) and m.attr == "max_usage_num" for m in ast.walk(n.test)):
            t = n.test
            wins = (isinstance(t, ast.BoolOp) and isinstance(t.op, ast.And)
                    and any(isinstance(v, ast.UnaryOp) and isinstance(v.op, ast.Not) and isinstance(v.operand, ast.Name) and v.operand.id == "force_inline" for v in t.values))
            return {"forceInlineWins": wins}
    lost.append(("Compile:define.usage", "usage test in CodeObject.define not found"))
    return {"forceInlineWins": False}


def attr_inline_facts(lost):
    """Are GetAttr and Builtin applications defined with force_inline=True in `_eval_app`?"""
    src_text = src(INIT)
    tree = parse_text(src_text, INIT)
    found = {"GetAttr": None, "Builtin": None}
    for n in ast.walk(tree):
        if isinstance(n, ast.If):
            # walk the elif chain of isinstance(origin, tracer.signature.python.X)
            t = n.test
            if isinstance(t, ast.Call) and isinstance(t.func, ast.Name) and t.func.id == "isinstance" and len(t.args) == 2:
                cls = t.args[1]
                name = cls.attr if isinstance(cls, ast.Attribute) else None
                if name in found and found[name] is None:
                    forced = False
                    seen = False
                    for m in n.body:
                        for c in ast.walk(m):
                            if isinstance(c, ast.Call) and isinstance(c.func, ast.Attribute) and c.func.attr == "define":
                                seen = True
                                if name == "Builtin":
                                    forced = any(kw.arg == "force_inline" and isinstance(kw.value, ast.Constant) and kw.value.value is True for kw in c.keywords)
                                else:
                                    # GetAttr: force_inline=_is_module_attribute(origin.obj)
                                    forced = any(kw.arg == "force_inline" and isinstance(kw.value, ast.Call) and isinstance(kw.value.func, ast.Name)
                                                 and kw.value.func.id == "_is_module_attribute" and len(kw.value.args) == 1
                                                 and ast.unparse(kw.value.args[0]) == "origin.obj" for kw in c.keywords)
                    if seen:
                        found[name] = forced
    if found["GetAttr"] is None or found["Builtin"] is None:
        lost.append(("Compile:attr-inline", "define call of the GetAttr/Builtin branch not found"))
        return {"attrForceInline": False}
    helper = find_func(tree, "_is_module_attribute")
    if found["GetAttr"] and (helper is None or "GetAttr" not in ast.unparse(helper) or "Import" not in ast.unparse(helper)):
        lost.append(("Compile:attr-inline", "_is_module_attribute does not look like the modelled attribute-chain test"))
        return {"attrForceInline": False}
    if found["GetAttr"] != found["Builtin"]:
        lost.append(("Compile:attr-inline", "GetAttr and Builtin are defined with different force_inline settings (not modelled)"))
        return {"attrForceInline": False}
    return {"attrForceInline": bool(found["GetAttr"])}


def operator_facts(lost):
    """Is the text of a unary operator application enclosed in parentheses?"""
    tree = parse(INIT)
    for n in ast.walk(tree):
        if (isinstance(n, ast.If) and isinstance(n.test, ast.Compare) and isinstance(n.test.left, ast.Call) and getattr(n.test.left.func, "id", None) == "len"
                and any(isinstance(m, ast.Name) and m.id == "operands" for m in ast.walk(n.test.left))
                and isinstance(n.test.comparators[0], ast.Constant) and n.test.comparators[0].value == 1):
            for m in ast.walk(ast.Module(body=n.body, type_ignores=[])):
                if isinstance(m, ast.JoinedStr) and m.values:
                    first, last = m.values[0], m.values[-1]
                    return {"unaryParens": isinstance(first, ast.Constant) and str(first.value).startswith("(") and isinstance(last, ast.Constant) and str(last.value).endswith("))")}
    lost.append(("Compile:operator.unary", "text of unary operator applications not found"))
    return {"unaryParens": False}


def fuse_facts(lost):
    tree = parse(INIT)
    comp = None
    for n in tree.body:
        if isinstance(n, ast.FunctionDef) and n.name == "compile":
            comp = n
    facts = {"checkLater": False, "checkBlock": False, "bindResult": False, "allowInline": []}
    if comp is None:
        lost.append(("Compile:compile", "compile not found"))
        return facts
    loop = None
    for n in ast.walk(comp):
        if isinstance(n, ast.For) and isinstance(n.iter, ast.Attribute) and n.iter.attr == "blocks":
            loop = n
    if loop is None:
        lost.append(("Compile:fuse", "loop over code.blocks not found"))
    else:
        for n in ast.walk(loop):
            if isinstance(n, ast.SetComp) and n.generators and n.generators[0].ifs:
                for cond in n.generators[0].ifs:
                    names = {m.id for m in ast.walk(cond) if isinstance(m, ast.Name)}
                    attrs = [m.attr for m in ast.walk(cond) if isinstance(m, ast.Attribute)]
                    if "all" in names and "seen_statement_ids" in names:
                        facts["checkLater"] = True
                    if "all" in names and attrs.count("block") >= 2:
                        facts["checkBlock"] = True
    # `if not isinstance(object_expression, Variable):` followed by a statement appended to the root block
    for n in comp.body:
        if (isinstance(n, ast.If) and isinstance(n.test, ast.UnaryOp) and isinstance(n.test.op, ast.Not) and isinstance(n.test.operand, ast.Call)
                and getattr(n.test.operand.func, "id", None) == "isinstance" and any(isinstance(m, ast.Name) and m.id == "object_expression" for m in ast.walk(n.test))):
            facts["bindResult"] = any(isinstance(m, ast.Attribute) and m.attr == "append" for m in ast.walk(n))
    for n in ast.walk(comp):
        if isinstance(n, ast.Assign) and any(isinstance(t, ast.Name) and t.id == "allow_inline_functions" for t in n.targets):
            if isinstance(n.value, ast.List):
                facts["allowInline"] = [e.attr for e in n.value.elts if isinstance(e, ast.Attribute)]
    if not facts["allowInline"]:
        lost.append(("Compile:allow_inline_functions", "allow list not found"))
    # the generator `names()`: which candidates does it refuse?  (a yield guarded by `not keyword.iskeyword(<candidate>)` and
    # by `<candidate> not in <set built from name_hints.values()>`)
    facts["nameKeywords"], facts["skipReserved"] = [], False
    gen = None
    for n in ast.walk(comp):
        if isinstance(n, ast.FunctionDef) and n.name == "names":
            gen = n
    if gen is None:
        lost.append(("Compile:names", "generator names() not found"))
    else:
        reserved_sets = set()
        for n in ast.walk(comp):
            if (isinstance(n, ast.Assign) and len(n.targets) == 1 and isinstance(n.targets[0], ast.Name) and isinstance(n.value, ast.SetComp)
                    and any(isinstance(m, ast.Attribute) and m.attr == "values" and getattr(m.value, "id", None) == "name_hints" for m in ast.walk(n.value))):
                reserved_sets.add(n.targets[0].id)
        for n in ast.walk(gen):
            if isinstance(n, ast.If) and any(isinstance(m, (ast.Yield, ast.YieldFrom)) for m in ast.walk(ast.Module(body=n.body, type_ignores=[]))):
                conds = n.test.values if isinstance(n.test, ast.BoolOp) and isinstance(n.test.op, ast.And) else [n.test]
                for c in conds:
                    if (isinstance(c, ast.UnaryOp) and isinstance(c.op, ast.Not) and isinstance(c.operand, ast.Call)
                            and ast.unparse(c.operand.func) == "keyword.iskeyword"):
                        import keyword as _kw
                        facts["nameKeywords"] = sorted(k for k in _kw.kwlist if k.isalpha() and k.islower())
                    if (isinstance(c, ast.Compare) and len(c.ops) == 1 and isinstance(c.ops[0], ast.NotIn)
                            and isinstance(c.comparators[0], ast.Name) and c.comparators[0].id in reserved_sets):
                        facts["skipReserved"] = True
    return facts


def _lean(f):
    return f"""import EinxModel.Compile.Gen
/-! GENERATED by tools/extract/compile.py from /repo -- do not edit. -/
namespace Einx.Extracted

def compileUCfg : Einx.Compile.UCfg := {{ countFirst := {lean_bool(f['countFirst'])}, outputsRecursed := {lean_bool(f['outputsRecursed'])}, aliasForward := {lean_bool(f['aliasForward'])}, forceInlineWins := {lean_bool(f['forceInlineWins'])}, unaryParens := {lean_bool(f['unaryParens'])}, attrForceInline := {lean_bool(f.get('attrForceInline', False))} }}
def compileFCfg : Einx.Compile.FCfg := {{ checkLater := {lean_bool(f['checkLater'])}, checkBlock := {lean_bool(f['checkBlock'])}, bindResult := {lean_bool(f['bindResult'])}, nameKeywords := [{", ".join(lean_str(k) for k in f.get('nameKeywords', []))}], skipReserved := {lean_bool(f.get('skipReserved', False))} }}
def compileAllowInline : List String := [{", ".join(lean_str(s) for s in f['allowInline'])}]

end Einx.Extracted
"""


def extract():
    lost = []
    f = {}
    f.update(usage_facts(lost))
    f.update(define_facts(lost))
    f.update(fuse_facts(lost))
    f.update(operator_facts(lost))
    f.update(attr_inline_facts(lost))
    return _lean(f), f, lost


def fallback():
    return _lean({"countFirst": False, "outputsRecursed": True, "aliasForward": False, "forceInlineWins": False, "unaryParens": False,
                  "checkLater": False, "checkBlock": False, "bindResult": False, "allowInline": []})
