"""T-src: regenerate lean/EinxModel/Extracted/*.lean from /repo's current working tree.

Every extractor returns (lean_text, facts_dict, lost_anchors).  A lost anchor is reported as a
broken tie for the properties that depend on it; the Lean file then contains a conservative value
(the one under which the dependent proof obligation fails), never a silently assumed one.
"""
import ast
import os
from lib import core


def src(relpath):
    with open(os.path.join(core.REPO, relpath)) as f:
        return f.read()


def parse(relpath):
    return ast.parse(src(relpath))


def find_class(tree, name):
    for n in ast.walk(tree):
        if isinstance(n, ast.ClassDef) and n.name == name:
            return n
    return None


def find_func(node, name):
    for n in ast.walk(node):
        if isinstance(n, (ast.FunctionDef, ast.AsyncFunctionDef)) and n.name == name:
            return n
    return None


def lean_str(s):
    return '"' + s.replace("\\", "\\\\").replace('"', '\\"') + '"'


def lean_bool(b):
    return "true" if b else "false"


def available():
    """Names of all extractors (tools/extract/<name>.py -> "<Name>")."""
    here = os.path.dirname(os.path.abspath(__file__))
    return sorted(f[:-3].capitalize() for f in os.listdir(here) if f.endswith(".py") and not f.startswith("_"))


def run_all(ctx, which):
    """Run the extractors named in `which`; write the Lean files; record lost anchors."""
    import importlib
    facts = {}
    for name in which:
        mod = importlib.import_module(f"extract.{name.lower()}")
        try:
            text, f, lost = mod.extract()
        except Exception as e:  # extractor could not understand the source at all
            text, f, lost = mod.fallback(), {}, [(f"{name}:*", f"extractor failed: {type(e).__name__}: {e}")]
        path = os.path.join(core.LEAN, "EinxModel", "Extracted", f"{name}.lean")
        if core.write_if_changed(path, text):
            ctx.extract_diff.append(f"Extracted/{name}.lean regenerated with different content")
        facts[name] = f
        for anchor, why in lost:
            ctx.tie_broken(f"extract:{anchor}", why)
    return facts
