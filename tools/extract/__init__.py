"""T-src: regenerate lean/EinxModel/Extracted/*.lean from /repo's current working tree.

Every extractor returns (lean_text, facts_dict, lost_anchors).  A lost anchor is reported as a
broken tie for the properties that depend on it; the Lean file then contains a conservative value
(the one under which the dependent proof obligation fails), never a silently assumed one.
"""
import ast
import os
from lib import core


def src(relpath):
    with open(os.path.join(core.REPO, relpath)) as f:
        return f.read()


# ------------------------------------------------------------------------------------------------ robust source ties
# The recognisers of this directory were written against one revision of /repo (BASELINE).  Before an extractor looks at
# a file, every function of it that differs textually from the baseline's function of the same qualified name but is
# *alpha-equivalent* to it (tools/extract/_norm.py: renamed locals, reordered independent statements, docstrings / comments /
# logging, append-loop vs comprehension, early returns vs elif chain) is replaced by the baseline's AST.  A harmless
# refactoring therefore regenerates byte-identical Extracted/*.lean; any other change reaches the extractor untouched.
# VERIF_NO_CANON=1 switches this off (to measure what it buys).  If the baseline text is unavailable nothing is replaced.
CANONICALISED = []      # (relpath, qualname) replaced on this run; reported in the evidence
_BASE_CACHE = {}


def baseline_commit():
    try:
        with open(os.path.join(os.path.dirname(os.path.abspath(__file__)), "BASELINE")) as f:
            return f.read().split()[0]
    except (OSError, IndexError):
        return None


def baseline_src(relpath):
    """Text of `relpath` at the baseline commit of /repo (read from /repo's git objects; works in worktrees), or None."""
    if relpath in _BASE_CACHE:
        return _BASE_CACHE[relpath]
    text = None
    c = baseline_commit()
    if c and not os.environ.get("VERIF_NO_CANON"):
        import subprocess
        try:
            p = subprocess.run(["git", "-C", core.REPO, "show", f"{c}:{relpath}"], capture_output=True, text=True, timeout=60)
            if p.returncode == 0:
                text = p.stdout
        except Exception:  # noqa: BLE001
            text = None
    _BASE_CACHE[relpath] = text
    return text


def parse_text(text, relpath):
    """`ast.parse(text)` with the functions that are alpha-equivalent to the baseline replaced by the baseline's AST."""
    tree = ast.parse(text)
    base = baseline_src(relpath)
    if base is not None and base != text:
        from . import _norm
        try:
            for q in _norm.canon_tree(tree, ast.parse(base)):
                if (relpath, q) not in CANONICALISED:
                    CANONICALISED.append((relpath, q))
        except Exception:  # noqa: BLE001   (never let the normaliser break an extractor: fall back to the plain tree)
            return ast.parse(text)
    return tree


def parse(relpath):
    return parse_text(src(relpath), relpath)


def find_class(tree, name):
    for n in ast.walk(tree):
        if isinstance(n, ast.ClassDef) and n.name == name:
            return n
    return None


def find_func(node, name):
    for n in ast.walk(node):
        if isinstance(n, (ast.FunctionDef, ast.AsyncFunctionDef)) and n.name == name:
            return n
    return None


def lean_str(s):
    return '"' + s.replace("\\", "\\\\").replace('"', '\\"') + '"'


def lean_bool(b):
    return "true" if b else "false"


def available():
    """Names of all extractors (tools/extract/<name>.py -> "<Name>")."""
    here = os.path.dirname(os.path.abspath(__file__))
    return sorted(f[:-3].capitalize() for f in os.listdir(here) if f.endswith(".py") and not f.startswith("_"))


def run_all(ctx, which):
    """Run the extractors named in `which`; write the Lean files; record lost anchors."""
    import importlib
    facts = {}
    for name in which:
        mod = importlib.import_module(f"extract.{name.lower()}")
        try:
            text, f, lost = mod.extract()
        except Exception as e:  # extractor could not understand the source at all
            text, f, lost = mod.fallback(), {}, [(f"{name}:*", f"extractor failed: {type(e).__name__}: {e}")]
        path = os.path.join(core.LEAN, "EinxModel", "Extracted", f"{name}.lean")
        if core.write_if_changed(path, text):
            ctx.extract_diff.append(f"Extracted/{name}.lean regenerated with different content")
        facts[name] = f
        for anchor, why in lost:
            ctx.tie_broken(f"extract:{anchor}", why)
    if CANONICALISED:
        ctx.extract_diff.append("functions alpha-equivalent to the baseline, read as the baseline: " + ", ".join(f"{f}:{q}" for f, q in CANONICALISED))
    return facts
