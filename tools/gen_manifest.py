#!/venv/bin/python
"""Writes /verif/MANIFEST.json from the table below (kept in one place so it stays valid)."""
import json
import os

ROOT = os.path.dirname(os.path.dirname(os.path.abspath(__file__)))

CLAIMED = {
    "C01": dict(
        text="Lean theorem validate_sound(_extended): if the symbolic validator accepts the straight-line numpy program translated from a traced graph against the symbolic loop-notation "
             "denotation, then for ALL tensor contents and ALL interpretations of the elementary functions the program computes the denotation (naturality of plan execution "
             "w.r.t. homomorphisms of element algebras); validate_sound_arith, peel_eq_unravel, argfind_coordinates_meaning, get_at_index_meaning, normArith_sound, views_fuel_sufficient. "
             "Lowering algorithm = denotation for EVERY description in the domain of the decomposer models (groups to any depth, unit and broadcast axes, any permutation, all lengths): "
             "lower_id_correct/_validates/_all_inputs (Props/C01Lower.lean), lower_elementwise_correct (any number of operands; fixed arity or left fold of the binary function) and "
             "lower_reduce_correct with _validates/_all_inputs (Props/C01LowerOps.lean; line-by-line models of Decomposer.__call__ around elementwise/reduce with the numpy wrappers). "
             "extracted_unravel_eq (Props/C01Xlate.lean): _unravel, translated from the source on every run, computes Denote.peel = unravel under the front end's guard. "
             "lower_get_at_correct / extracted_get_at_correct (Props/C14Join.lean, audited with C01): the value-level get_at lowering with the regenerated _ravel kernel equals the denotation "
             "of the operation built from the description alone. "
             "On every run: the real traced graphs of generated id/elementwise(n-ary)/reduction/dot/flip/roll/argmax/argmin/get_at/sort/argsort calls are validated in the Lean driver; "
             "stream lower_model (model program = traced pre-optimisation graph instruction by instruction, domain membership, recomputed theorem instance, dimensions; size-genericity "
             "instances via lower_generic); stream at_model (complete instruction sequence of the get_at lowering model, computed from the solved expressions alone, = traced graph; the proved "
             "validator recomputes that the model's program equals denoteGetAt); translated _unravel "
             "vs the real one; numpy primitive plans conformance-tested against numpy; every generated call of every family (three numpy backends) plus directed sweeps (bracket subsets, "
             "repeated names, empty reductions, dot batch orders, n-ary multiply on the einsum backend, outputs with two concatenations, softmax-family slices of very different magnitude) "
             "is executed on integer data and compared with an independent Python loop interpreter (the failing-input search).",
        note="Trusted: Lean kernel, driver, graph serialiser/translator (graph JSON -> Instr list, in Lean), numpy primitive plans (conformance-tested; np.einsum modelled as the left fold of "
             "binary multiply, the flat n-ary form also accepted), the Python loop interpreter, the typed Python->Lean mini translator and its reading of the builtins (Basic/PyPrelude.lean, "
             "conformance-tested), einx's own solved expression trees (front-trusted; tied by C02/C07/C12). softmax, log_softmax and logsumexp rest on the end-to-end oracle comparison alone; "
             "graphs collapsed by InlineGraph are not translated by the validator. Lowering theorems hold in the models' decidable domains only (no concatenation, no repeated name/diagonal, "
             "no scalar operands, output names pairwise different); the models are tied to traced graphs by the stb_model / lower_model streams; ewKindOf/redOps are hand-written mirrors of the "
             "numpy wrapper table. _unravel is translated at the level of one element. The get_at lowering is proved at value level; its instruction sequence is validated per traced call, "
             "not universally. Open defect D22 (found by the C14 work package, reproduced on real einx, no known_findings.json entry): coordinates in a narrow integer dtype wrap in _ravel "
             "(get_at('[b c], p [2] -> p') with int8 coordinates into a 20x20 target returns wrong elements); the check does not raise it (the narrow-dtype stream of C14 chooses sizes for which only the index ranges could wrap). "
             "Only numpy backends can run here.",
        technique="Lean 4 proof (validator soundness, lowering-algorithm correctness) + per-call translation validation of real traced graphs + kernel translated from source + oracle differential",
        design="5 (C01), 4 (M3, M5)"),
    "C02": dict(
        text="Lean theorems about a reference solver over unbounded Nat: unit propagation derives only forced values (propagate_forced), verdict none means no solution, "
             "verdict unique means the answer satisfies the system and every solution equals it, fuel sufficiency, checker iff Sat; the same for the rank level "
             "(ellipsis repetition counts, width polynomials) and the two-level solver against the specification Sols (solveAll_sound, checkAll_iff). CSE at value level: valueRange proved "
             "equal to the translation of the current _value_range source (extracted_valueRange_eq), valueRange_spec (a non-None range is exactly the value set), cse_preserves_sols / "
             "cse_solvable_iff / cse_forced_iff / cse_propagate_sound. CSE as a whole (Props/C02Cse.lean): cseTrees, a step-by-step model of stage2/cse.py (dict of printed sub-expressions "
             "incl. slices, eight filters, selection order, replace with longest match, smart constructors); cse_trees_is_cse_step (every input: every replacement passed the value-range / "
             "no-repetition filter), cseTrees_preserves_sols_partial (+ _solvable_iff, _forced_iff, _value_forced_iff): under the decidable per-input side conditions cseCheck the stage-3 "
             "system of the output has exactly the solutions of the input's, extended by cse.<k> := value of the replaced part. Props/C02Cse2.lean sorts the conjuncts of cseCheck: proved for "
             "every input - value_range_fixed_is_value, cse_used_unbounded, cse_used_minpos (given the input fact minPosForest); cseCheck_of_reduced and "
             "cseTrees_preserves_sols_reduced_partial state the theorem with exactly the remaining decidable hypotheses inputOK, freshOK, rootDimsOK, copiedOK, sharedOK. Props/C02Unexpanded.lean: "
             "valueSystemU models stage2.solve's UnexpandedEllipsis branch (unexpanded_model_extends); unexpanded_sound_iff (the free axis adds no solution iff the value range of the repeated "
             "expression is unbounded with minimum <= 2), unexpanded_complete, three_pow_never_two. "
             "On every run einx's solve_axes/solve_shapes/matches and the shapes of id/sum results are compared with the proved solver and with an independent brute-force "
             "Python enumerator on generated, mutated, directed-sweep (incl. long per-repetition constraints, groups repeated with different lengths) and 2**31..2**64 inputs under the three "
             "obligations the property states; the real cse is compared structurally with cseTrees on captured and generated forests, cseCheck and its parts are evaluated on every real input, "
             "and stream E (forest_sys) compares forestSys with the canonicalised equations the real stage3.solve hands to util.solver.solve on every captured call.",
        note="Trusted: Lean kernel, driver, harness, Python brute-force oracle; expression trees come from einx's own stage-1 parser (front-trusted; parser is C12). sympy is not "
             "modelled (observed behaviourally; stream E compares equations, not the solver). Of the side conditions of the CSE preservation theorem, freshOK, rootDimsOK, copiedOK and the "
             "disjointness half of sharedOK are FALSE for the real code on the inputs of three open defects, each failing exactly one part (decide'd examples, checked on the captured calls): D19 "
             "(user axis named cse...), D20 (sum('a ([c d]) [c d]') AssertionError), D21 (matches('(a 1 d), (1 d) c, (a 1)', 12, (2,2), 4) returns True; solve_shapes('(a 1 d), (1 d) c', 6, (3,2)) "
             "raises) - whitelisted by exact input in c02_cse.DOCUMENTED_NOT_MET, not in known_findings.json, not reported as violations; candidate patches for D19/D20 exist (docs/wp) but are "
             "not applied. sharedOK half 1 (same key => same shape) is checked per input; inputOK is a fact about stage 2's output evaluated per call; valued axes are constants in forestSys. "
             "unexpanded_sound_iff is a criterion on value ranges, bridged to valueSystemU for the witness only. "
             "Success is demanded only where unit propagation suffices. The UnexpandedEllipsis finding (further instance solve_axes('((b + c + d)...)', zeros(2))) is matched by call site.",
        technique="Lean 4 proof over reference solver and over a step-by-step model of cse.py + structural and differential correspondence with brute-force oracle",
        design="5 (C02)"),
    "C03": dict(
        text="Lean model of ExpressionIndicator over the C12 parser model with theorems that every caret position computed from a tree of the caller's description (sub-expressions, "
             "_parse_op's rewrites, ellipses included) lies inside the description (indicator_pos_in_range, indicator_ellipses_in_range, indicator_never_negative), so error reporting "
             "cannot raise AssertionError; obligations over the extracted error hierarchy, indicator formulas and the reviewed inventory of front-end assert sites; proved-exhaustive "
             "classification of raised exceptions. Rejection theorems: parse_no_internal (every string: tree or SyntaxError; the five internal outcomes are unreachable under obligations on "
             "the extracted operator/digit tables), parse_root_shape, parse_rejects_bad_char, parse_rejects_unbalanced / parse_unbalanced_kind / stack_accepts_iff_balanced, "
             "parse_rejects_unwrapped_concat (Props/C03Reject.lean); elab_total (for the extracted flags of every family and all trees _parse_op returns a result or one of twelve SemanticError "
             "sites), elab_total_desc (string -> result | SyntaxError | SemanticError), one theorem per _parse_op rule and defects_rejected (Props/C03Elab.lean). Props/C03Grammar.lean: "
             "parse_rejects_multiple_arrows (two '->' outside delimiters: SyntaxError, never a tree), parse_args_rejects_arrow, parse_arrow_two_sides, parse_iff_gram (parse returns a tree of "
             "kind k iff the inductive attribute grammar Gram derives it; both directions, ellipses included), token_tree_iff, parse_stage_ok_iff, parse_ok_wf (the necessary direction of "
             "parse_ok_iff in full), parse_ok_iff_staged. Tie: stream R builds inputs "
             "with each theorem's defect by construction and checks Lean hypothesis, model outcome, real raise site and the public entry point; grammar_spec compares 'parseStage succeeds' with "
             "'the real parser gets past parse'. Search: probes, single-edit corruptions of "
             "valid calls that are ill-formed by construction, exhaustive <=3/4-token strings and random strings through ten entry points with numpy-call-logging tensors.",
        note="Trusted: Lean kernel, driver, AST extractor, harness; the rule which ValueError/TypeError count as argument errors (raise statements in einx's argument-validation functions). "
             "Clause (b) 'ill-formed => raises before any backend computation' is a theorem for bad characters, unbalanced delimiters, '+' and a second '->' outside delimiters, '->' in "
             "parse_args and the _parse_op rules in tree mode of the elementary signature; the level rules of the move_up passes, bracket consistency, l.210/l.243/argHasComma on strings (hence "
             "no full parse_ok_iff: the passes after parse are not characterised declaratively), string mode (D11), checks after _parse_op, stage-2/3 rejection and stage-2/3 copies of "
             "positions are behavioural only.",
        technique="Lean 4 proof (caret positions, classification, parser/_parse_op totality and rejection rules) + regenerated source inventory + defect-by-construction stream + corruption/exhaustive search",
        design="5 (C03)"),
    "C04": dict(
        text="Byte-exact Lean model of the code generator (usage counting, scopes, per-node rules, fuse/liveness, naming incl. the keyword/hint filter of names(), rendering; switches REGENERATED "
             "from the AST of usage.py/__init__.py) with theorems compile_correct_wf (universal: for every graph satisfying the decidable Graph.WF and all switches, compile success implies "
             "that the reference evaluation succeeds with the same event trace and result as executing the emitted statements; nested graphs, in-place calls, item updates), "
             "fuse_produces_safe (the name groups of the real fuse loop's model satisfy the interference condition whenever its two filters are present), hence "
             "compile_correct_wf_fused_total / compile_correct_extracted (the statements WITH the generator's names, for the generator as extracted on this run, no per-graph premise), "
             "fuse_text_safe / fuse_text_sound (the same per block in text order), compile_correct(_flat,_compiled,_fused), emit_closed, visitOrder_nodup/_noSelfRef/_wellBracketed, emit_order, "
             "emit_once(_wf), fuse_sound, extracted_names_filtered / nextName_not_refused / assignNames_names_ok (no generated name is a Python keyword or a hinted name), obligations "
             "value_computed_once / self_contained / unary_operator over the extracted switches, decide'd D6 witness. On every run: model text == real compile() text on captured and synthetic "
             "graphs (all node kinds, nested graphs, 45/30/420-variable probes); the driver re-decides wf_graph and, redundantly, closed_prog / fuse_safe / fuse_safe_prog / single_def / "
             "blocks_bound and symbolic execution = evalGraph per graph; search: exec of the emitted text on instrumented versioned objects vs a memoised node-by-node reference interpreter "
             "(results, ordered effects, evaluation counts), graph=True text == exec'd text, 'failed to compile' is a violation.",
        note="Trusted: Lean kernel, driver, extractor, harness/reference interpreter. Graph.WF is decided per graph by the driver (true on all graphs seen). "
             "The theorems execute statements in emission order (and one block at a time in text order); Python's scoping of the whole text (closures, hoisted imports) is not modelled. "
             "Reading of 'computed once': attribute lookups on imported modules and builtin names are constant lookups (rendered inline by design), every other node value is computed once.",
        technique="Lean 4 proof over byte-exact generator model + switches regenerated from source + per-graph translation validation + instrumented execution search",
        design="5 (C04)"),
    "C05": dict(
        text="Lean theorems about the same plan functions the validator executes, for all ranks/shapes/permutations/element algebras: transpose_transpose over the permutation-composition "
             "kernel TRANSLATED from optimizer/classical.py on every run (composePerm_spec by rfl breaks if the order is reversed), transpose_id, reshape_same, reshape_reshape, broadcast_same, "
             "concat_singleton, each extracted no-op test implies its theorem's hypothesis, rule_sound / rewrites_sound / rewrite_sound / optimize_sound(_fixpoint) (whole passes on the term "
             "model, any traversal order), rebuild_preserves / unfold_sound (sharing as let-bindings), optimize_terminates, equiv_sound/equivG_sound. Props/C05Dag.lean: optimizeDag, a "
             "line-by-line model of the REAL memoised traversal (Optimizer._optimize, six patterns over the extracted kernels, rebuild, changed loop) on DAG stores; pass_sound_dag / "
             "optimizeDag_sound (for every element algebra the optimised program returns what the given one returns on the DAG evaluator, laws discharged by irSem_satisfies_laws, under the "
             "decidable run condition goodRun), pass_terminates (recursion depth 2*(nodes+graphs)+2 suffices), optimizeDag_terminates(_partial). Props/C05Dag2.lean: pass_preserves_wf (a pass "
             "maps a topologically ordered store to one with distinct fresh inputs), goodRun_of_input / fuelRun_of_input / optimizeDag_sound_input (the run conditions follow from wfTop, topoOK of "
             "the input graph and the decidable run condition noInlineRun), pass_decreases_dag (the output unfolded into a tree never grows and strictly shrinks in a pass that reports changed), "
             "optimizeDag_pass_bound, optimizeDag_terminates_dag (the loop never exhausts the budget weight+1; no measure hypothesis; single-output stores). In-place nodes are opaque "
             "applications of the DAG evaluator, so the soundness theorems cover the graphs of the *_at operations. On every run each real graph before/after "
             "tracer.optimize is proved equal symbolically in the driver (unsupported primitives fall back to a node-by-node numpy evaluator incl. in-place nodes); the model optimizeDag is run "
             "on the store of every real pre-optimisation graph with the real pattern list and must be structurally equal to the real optimised graph with equal changed flags per pass (so the "
             "pass bound applies to the real pass count wherever the tie holds); topoOK / measureOK / noInlineRun and the weight of every pass are recomputed per graph and checked against the theorems; real "
             "passes are monitored for the termination measure; synthetic chains with shared sub-graphs are optimised with the real pattern objects.",
        note="Trusted: Lean kernel, driver, the Python->Lean mini translator for the kernel anchors, graph/store serialisers (graphcap, dagcap), numpy primitive plans. optimizeDag_sound(_input) covers "
             "stores with one output per application, no nested graphs, top-level graph not inlined (703 of 782 real graphs at seed 0, all 25 with in-place nodes among them). For in-place nodes "
             "the RESULT is preserved (opaque function of the operand values, evaluated once); preservation of the ORDER of effects and aliasing of buffers are not proved (per-graph evaluator). "
             "noInlineRun is a decidable condition on the run (4 of 782 graphs fail it), not on the input. Multi-output casts, Assert, nested graphs and top-level InlineGraph stay per real graph "
             "(structural tie + equiv + evaluator); the measure theorems exclude multi-output applications; Cast is the identity by construction of the translation.",
        technique="Lean 4 proof over kernels translated from source and over a model of the real traversal + per-graph structural tie and translation validation (pre vs post optimisation)",
        design="5 (C05)"),
    "C06": dict(
        text="Lean theorems: memo_transparent (any history, any eviction policy that only drops entries: a call's outcome equals the fresh outcome whenever equal keys imply equal "
             "computations; failing computations are not stored), key_refines_observation (for the _freeze_value dispatch table REGENERATED from the AST on every run: equal cache keys "
             "imply equal typed observations; obligations respects/tagsAll by decide; refutation witness for the untagged table), stack_restored (with/depend_on stacks are balanced on "
             "every path, over extracted __exit__ facts). Props/C06Hash.lean: pyEq_hash (== as the cache performs it implies equal hash, for every dispatch table and all values of the model: "
             "numbers across kinds, frozendicts in any order, _Scalar, Parameter, tensor-factory placeholders), key_hit_iff_eq (a hit is exactly key equality), frozen_key_eq_iff / "
             "extracted_key_eq_iff (two keys are == iff the exact observations agree), exact_observation_hits, einx_cache_transparent_exact. Props/C06Num.lean: models of CPython's long_hash "
             "(30-bit digits, C rotation) and _Py_HashDouble (frexp, 28-bit mantissa loop) are proved equal to the specification numHash the other theorems use (hashInt_eq_numHash for all "
             "integers, hashDouble_eq_numHash for all dyadic rationals, int_float_hash_agree, hash_never_minus_one, hashNum_eq_numHash). Ties: model freeze/==/exact hash vs CPython on 20k "
             "value pairs incl. placeholders, == => equal hash on CPython, real key equality = exact-observation equality, CPython hash of every generated number vs numHash/hashInt/hashDouble; "
             "memo machine predictions vs warm outcomes; search: warm-vs-cold "
             "differential against pristine forked interpreters on directed and random call histories (keyword tensors, re-entry with-histories) and, on every run, 18 mandatory ordered pairs in "
             "both orders (keepdims, factory signatures, functools.partial / callable objects with identical repr, adapted callables with identical generated text).",
        note="Trusted: Lean kernel, driver, AST extractor of _freeze_value/lru_cache/__exit__/ConvertibleTensor.__eq__, harness and fork server. The numeric hash is proved at the level of CPython's "
             "algorithms on exact dyadic values; trusted: a C double is the dyadic rational as_integer_ratio() reports, numpy scalars hash their Python value (tied behaviourally); inf, NaN, "
             "complex excluded. frozen_key_eq_iff needs placeholder-free concrete values inside placeholders (what einx builds); exactEq/keyEq are not proved equivalence relations; the bounded "
             "LRU's reordering is not modelled; the mandatory pairs are directed tests; "
             "NaN, complex numbers and the identity short-cut of container comparison are outside the value model (explicit assumptions).",
        technique="Lean 4 proof over hand-written model + dispatch table regenerated from source + differential correspondence + warm/cold search",
        design="5 (C06)"),
    "C07": dict(
        text="Lean model of _to_el_expr/_parse_op on the C12 stage-1 trees with per-family flags REGENERATED from the AST; 28 theorems for all trees: implicit-output rules "
             "(superset, single input, same, update, reduce with/without keepdims), auto_brackets, keepdims_is_parenthesised, adjacent_brackets_merge, number_is_fresh_axis, rearrange_is_id "
             "(over the extracted body), obligations over the extracted flags/el_op builders. Stage-2/3 shorthands on the C02 solving model (Props/C07Stage2.lean): ellipsis_unroll "
             "(ellipsis = written-out repetition), scalar_constraint_is_repeated_tuple, number_is_fresh_axis, rename_preserves_sols / anonymous_ellipsis_shared, anonymous_ellipsis_parse, "
             "value_system_sound/_complete - solutions correspond with equal axis lengths and shapes. Props/C07Names.lean: the name-hygiene side conditions are theorems - "
             "node_variables_distinct (every input), side_conditions_of_plain_names (plainNames gives namesOK, freshVars, renOK), parser_names_plain (every operand of a parseOp result is plain), "
             "hence the premise-free ellipsis_unroll_plain, number_is_fresh_axis_plain, rename_preserves_sols_plain, anonymous_ellipsis_shared_plain; *_verdicts_partial (a unique verdict of the "
             "reference solver on one form excludes a refutation of the other). Ties: model vs the real _parse_op (canonical trees / error kinds) on generated and recorded "
             "calls; stream shorthand: the Lean short->long transformation vs einx's stage-1 trees of the long description, unroll vs the real stage-2 expansion, solveAll of both forms, "
             "plainNames of einx's own stage-1 trees; "
             "search: 17 documented short/long pair generators, directed pairs for numbers and keepdims brackets inside ellipses, and real solve_axes/solve_shapes short vs long on the real code "
             "(values, exception class, generated code).",
        note="Trusted: Lean kernel, driver, AST extractor, harness. The stage-2/3 theorems hold for all inputs with plain axis names (no '#', no name ending in .digits), which is a theorem for "
             "everything the parser model produces (the model is tied to stage1.parse_op by C12); anonymous_ellipsis_parse is about one token (whole descriptions by the stream; proved: the "
             "anonymous name occurs only under an ellipsis); equality of solveAll verdicts short/long is checked per case (non-contradiction proved). Pairs whose short form leaves the repetition "
             "count undetermined are not compared. "
             "Unit coordinate bracket, [a] [b] = [a b] for results and nested '->'/',' distribution are covered by the pair search only; argfind's rule has no theorem.",
        technique="Lean 4 proof over hand-written model on regenerated flags and over the C02 solving model + differential correspondence + metamorphic pair search",
        design="5 (C07)"),
    "C08": dict(
        text="Lean theorems on loop-free forms of the denotation proved equal to the executable ones (denoteId_fun_agree_multi, denoteElementwise_fun_agree, denoteReduce_fun_agree, "
             "denoteDot_fun_agree, denoteId_fun_agree_general for all solved expressions incl. concatenations): renaming invariance for renamings injective on the names in use "
             "(denote_rename_on*, denote_reduce_rename, denoteId_rename_general), pos_flat_is_ravel and the regrouping laws against the IR's reshape plan (also on expressions for id/reduce/dot), "
             "input/output permutation against the IR's transpose plan as equalities of whole result tensors; Props/C08b.lean: output permutation laws INCLUDING definedness for id, "
             "elementwise, reduce and dot, cell_cmp_linear_order / sortCells_multiset_normal_form, denote_reduce_permute_input(_sem) and denote_reduce_bracket_order (any root dimensions of a "
             "reduction's input, bracketed or not); id_inverse and id_compose in full. Props/C08c.lean: denote_dot_permute_input (root dimensions of one dot operand reordered, contracted or "
             "not, operand transposed: denoteDot unchanged up to re-sorting the terms of every red:sum, including failure), denote_dot_permute_input_sem (unchanged in value for every "
             "interpretation with permutation-invariant reductions, no assumption on multiply), denote_dot_regroup_input, denote_elementwise_permute_input (n-ary, loop form), "
             "denoteId_regroup_input_concat (parentheses on any input of id, arbitrary solved expressions, no hypothesis), denoteId_permute_input_concat_partial, views_wellformed. Ties: "
             "functional vs loop forms in the driver, reduce-bracket-order, dot-operand-order. Search: six metamorphic relations on real einx calls (rename, permute input/output, regroup, round "
             "trip, composition) over all families/backends with equal lengths and length-1 axes, directed dot/reduce calls, directed id calls with concatenations (R2/R3/R4) and ternary "
             "elementwise calls, also evaluated on the Lean denotation of id/elementwise/reduce/dot.",
        note="Trusted: Lean kernel, driver, harness. The input permutation law with concatenations is for one input and assumes that the enumeration of virtual tensors commutes with the "
             "permutation (true iff the concatenation-carrying dimensions keep their order; not characterised in Lean); output permutation/regrouping with concatenations is not proved; "
             "reordering the operands of a dot/elementwise operation is not a law of the symbolic denotation; "
             "flip/roll/argfind/get_at/sort have no functional form and no laws (relations on real calls only). C08 has no extracted facts; transfer to einx goes through C01's tie.",
        technique="Lean 4 proof over denotation + metamorphic search on the implementation",
        design="5 (C08)"),
    "C09": dict(
        text="Lean store semantics with objects, views and in-place nodes over an alias table of the 54 traced numpy functions (in-place registrations and compiler aliasing facts REGENERATED "
             "from the source): alias_sound, write_frame, noWrite_sound (if the static check passes, input i is unchanged for every store, every view/copy decision and every written content), "
             "at_only_first. On every run: writes(g) of every traced graph (must be [] / within [0] for *_at), alias-table conformance against numpy (shares_memory, write-through) in four "
             "memory layouts, and a byte/flag/kwargs snapshot oracle on real calls incl. solve_*/matches/graph=True with read-only and strided arguments and directed restructured-input calls.",
        note="Trusted: Lean kernel, driver, extractor, graph translation, the alias table (numpy's view/copy behaviour; conformance-tested each run), C04's claim that each in-place statement "
             "runs once in dependency order. Objects are whole buffers (over-approximation).",
        technique="Lean 4 proof (frame property over alias analysis) + table conformance + snapshot search",
        design="5 (C09)"),
    "C10": dict(
        text="Lean interleaving semantics over the sequential registry model (acquire?; read snapshot; compute; store; release? per method, lock table REGENERATED from the AST): "
             "locked_linearizable (for every number of threads, every program and every schedule, a finished execution equals the serial run in commit order: outputs, final state), "
             "locked_no_deadlock, locked_can_finish, locked_outcome_serial, thread_local_noninterference, decide'd lost-update witnesses for unlocked get/enter; obligations over the "
             "extracted facts (every method locked in one block, thread-local stacks, sys.modules snapshot, functools cache). Compile cache (Props/C10Cache.lean): interleaving model of "
             "functools.cache (lookup / miss / compute / insert, no lock); cache_concurrent_serializable and cache_results_eq_serial_memo (if the cached function is deterministic in its key, "
             "every call returns what it returns in every serial order on C06's memo machine, any eviction that only drops entries), cache_final_content / cache_schedule_independent, "
             "cache_no_deadlock, cache_can_finish, witness that the determinism hypothesis is needed; obligations regenerated from the source (memo kind, stateless wrappers, retrace warning off, "
             "one cache per api object). Tie/search: deterministic settrace scheduler on real BackendRegistry objects, end-to-end einx calls, lru_cache and first-time compilations (critical, "
             "sweep, random, exhaustive schedules; observed step sequences replayed in the models); outcomes must equal some serial order run on a fresh real registry / fresh cache.",
        note="Trusted: Lean kernel, driver, AST extractors, the scheduler with its lock proxies (preemption at line/call/return events of einx's Python code only; preemption inside C functions such as "
             "functools.cache or numpy is not exercised), atomicity of functools.cache's dictionary read/write under the GIL. Determinism of _construct_graph in its key is a named hypothesis "
             "(what C06 and C16 establish); bounded LRU: results theorem only; the retrace warning is excluded by obligation. torch device / array-api namespace stacks have source-fact obligations only (frameworks absent).",
        technique="Lean 4 proof (linearizability by simulation, serializability of the compile cache) + lock discipline regenerated from source + deterministic-scheduler correspondence",
        design="5 (C10)"),
    "C11": dict(
        text="Lean theorems about the model of BackendRegistryState (precedence chain, get = pure specGet in every quiet state with a sound memo, "
             "lookups do not influence later lookups, select_is_max_priority_set, independence of the order of `backends` and of registration order (select_order_independent, get_registration_order_independent), history_independent / history_order_independent "
             "for every history without lazy registration, lazy_history_spec / lazy_history_independent under the decidable discipline, two counterexample theorems outside it, register clears the memo [obligation regenerated from the AST], failing factories isolated, real priorities) "
             "+ step-by-step differential correspondence of the model with fresh real BackendRegistry objects on random op sequences; "
             "search of disciplined and directed late-registration histories on the real registry against the pure specification.",
        note="Trusted: Lean kernel (propext, Classical.choice, Quot.sound), driver compiled by Lean, AST extractor for _register/priorities, harness. "
             "Undisciplined lazy histories (eager and lazy backends for the same tensor type, or a framework type looked up before its module is imported) are provably history dependent "
             "and only sampled by the correspondence; not reachable with einx's own registrations.",
        technique="Lean 4 proof over hand-written model + regenerated obligations + differential correspondence",
        design="5 (C11)"),
    "C12": dict(
        text="Total executable Lean model of parse_op/parse_args/parse_arg (well-founded recursion, no fuel) over constants regenerated from the source; theorems: every string "
             "yields a tree, a SyntaxError or one of five characterised internal kinds (parse_total_cases; all five proved unreachable by C03's parse_no_internal), every caret position is "
             "inside the caller's string (parse_err_pos_in_range, all strings), space_invariance for parseOp (every redundant-space slot; trees equal up to positions and an injective "
             "renumbering of fresh ids, errors keep their kind), parse_normal_form (every result satisfies the decidable normal form NRoot; layers normal_form_parse / _move_up / _brackets), "
             "parse_print_parse (for EVERY string: a result outside the decidable class Excluded re-parses from its printed form to the same shape), parse_printable_iff (on parser results Printable = not Excluded; Excluded is exactly the "
             "three refuted patterns, each with a necessity witness), print_parse_partial for every Printable tree, obligations over the extracted operator/literal tables, refutation witnesses "
             "for print_parse (decide +kernel) + exhaustive (<=4/5 tokens) and random correspondence of tree/error/carets with the real parser, normal-form stream (model verdicts vs the real "
             "round trip on every accepted string) + five oracles on the real code (exception class, carets, space insertion, print/re-parse, public ops never quote foreign text).",
        note="Trusted: Lean kernel, driver, extractor of the parser constants/AST facts, harness. print_parse is refuted on the pinned tree exactly on the three patterns (D11, D18 with both origins, "
             "listed in known_findings.json); that every tree containing one of the patterns fails to round-trip is witnessed and streamed, not proved in general.",
        technique="Lean 4 proof over hand-written total parser model + regenerated constants + exhaustive/random differential correspondence",
        design="5 (C12)"),
    "C13": dict(
        text="Lean model of namedtensor_calltensorfactory (call node + isinstance/shape asserts per factory argument, optional keywords by the rule REGENERATED from the AST) with theorems "
             "factory_node_once / factory_node_count (all argument lists), factory_kwargs_declared_only, factory_asserts_before_use, factory_no_constraints, trace_is_pure, and a checker "
             "factoryOK on real traced graphs with checker_sound and checker_guard. Props/C13Exec.lean discharges the former named hypothesis Exec: exec_from_compile (for every Graph.WF graph "
             "of the supported node language the program emitted by the C04 generator evaluates exactly the reachable applications, each once), checker_sound_compiled, "
             "factory_called_once_compiled (exactly one statement and exactly one event of the compiled program's trace calls the factory input, with one positional argument and the model's "
             "keyword names), factory_call_value_compiled (exactly one call event has the factory object as function term). Ties: factory_check on pre/post-optimisation graphs, emitted text "
             "vs model node list, exec_check (checker on the graph translated from the C04 graph, model text = real text, premises and instances per compiled graph); search: instrumented "
             "factories (signature styles incl. sibling factories of one class/arity, misbehaving ones, python -O) over cold/warm/graph=True/rejected executions and every subset of positions.",
        note="Trusted: Lean kernel, driver, extractor anchors (tracing evaluates nothing, graph=True returns before the call), the translation toFactory (cross-checked against the direct decoder), "
             "CPython executing the emitted text, harness. The Exec theorems need the decidable premises Graph.WF, Supported (no nested-graph operands; outputs are pytrees of tracers) and "
             "Factory.wf, the value level also rootStable and castsPlain - all evaluated on every compiled graph (all hold); the value of the positional argument is known on the node, not in the event.",
        technique="Lean 4 proof over model + proved checker on real graphs + execution theorem through the C04 generator model + invocation-log search",
        design="5 (C13)"),
    "C14": dict(
        text="Lean theorems about the update denotation (every assignment of the un-bracketed axes exactly once, add/subtract = target +/- sum of contributions and "
             "order independent, set leaves one competing value, untouched elements unchanged, missing axes repeat, get-after-set) and about the lowering "
             "(the _ravel multiplier kernel, mini-translated from the source on every run, computes the row-major address; np.put / ufunc.at realise the fold when "
             "indices and updates are broadcast; obligation over the extracted registration flags). Props/C14Join.lean: the lowering is modelled from the solved expressions ALONE "
             "(Update/LowerProg.lean: _ravel line by line, expr_intermediate computed by the C16 model of _join_exprs, complete instruction sequences lowerUpdate/lowerGetAt; Update/Desc.lean: "
             "the solved operation of the description): intermediate_spec (the join never raises and names every non-unit un-bracketed axis once), lower_update_correct_partial (for all modes, "
             "descriptions, contents incl. duplicate addresses: value-level lowering with the regenerated kernel and registrations = denotation of the description's operation), "
             "lower_get_at_correct. Props/C14Dtype.lean: index_arith_exact / extracted_kernel_exact (index arithmetic in a bounded dtype is exact below 2^(bits-1)), extracted_index_dtype_wide "
             "(regenerated: the index ranges of _ravel have >= 32 bits, no casts), extracted_arange_fits, witness narrow_coordinate_dtype_wraps. Ties: model and numpy primitives vs the real "
             "code; stream at_model (head / in-place primitive / tail of the model's instruction sequence = traced graph; per call the proved validator recomputes that the index operand is the "
             "row-major address and the update operand the re-arranged update tensor; traced arange dtype = extracted one) "
             "+ nested-loop oracle search on real set_at/add_at/subtract_at/get_at calls (duplicate coordinates, repeated target names, narrow coordinate dtypes).",
        note="Trusted: Lean kernel, driver, AST extractor/mini-translator for classical_from_numpy.py and _ravel, numpy primitive semantics (in-place primitives at value level, conformance-tested "
             "each run), harness. The instruction-level lowering is validated per traced call, not proved universally (the IR has no scatter instruction); lower_update_correct_partial keeps the "
             "decidable hypothesis coveredB (recomputed per call) and assumes coordinates in range. The coordinate dtype is a caller precondition the code does not guarantee: open defect D22 "
             "(get_at/set_at with int8 coordinates into a 20x20 target address wrong elements, no error; reproduced on real einx; no known_findings.json entry; the narrow-dtype stream chooses "
             "sizes for which only the index ranges could wrap, so the check does not raise it). Repeated axis names, scalar coordinate tensors and the zero-sized shortcut are outside the "
             "instruction-level model.",
        technique="Lean 4 proof over hand-written model (denotation, value-level lowering from the description with the C16 join model) + kernel and dtype facts translated from source + instruction-level structural tie + differential correspondence",
        design="5 (C14)"),
    "C15": dict(
        text="Lean model of the adapter path (keyword split of op.inner, _expr_to_axis mini-translated from source, expected output shapes, traced node list) with theorems "
             "kwonly_never_axis and split_partition (all keyword lists/descriptions), expr_to_axis_correct, position_interleave, reduce_axis_semantics IN FULL (under the documented numpy-like "
             "contract the adapter equals the loop-notation denotation for every flat expression/tensor/assignment), adapt_result_checked, adaptOK_sound for the checker run on real graphs; "
             "Props/C15Exec.lean: adapter_called_once_compiled / adapter_call_value_compiled (in the program the C04 generator emits for an accepted graph exactly one statement and one trace "
             "event calls the user function - a constant object - with as many positional arguments as aligned tensors and exactly the specified keyword names). Ties: adaptOK on real graphs, "
             "exec_check as for C13. Search: nine instrumented user functions (reduce/elementwise, with/without keyword-only options, misbehaving, python -O) vs the Python loop interpreter, "
             "invocation logs, option histories (2 / 2.0 / True) against fresh adapters, served-by-foreign-adapter detection.",
        note="Trusted: Lean kernel, driver, extractor, harness, the numpy-like contract as hypothesis. adapt_with_vmap cannot run here (no framework with vmap installed) and is neither "
             "exercised nor modelled. reduce_axis_semantics is at the decomposed (flat) level; parentheses/permutation/keepdims go through C01's lowering. The compiled-program theorems need "
             "Graph.WF, Supported, Factory.wf and (for the exactly-one conclusion) the decidable callsReachable, evaluated on every compiled graph.",
        technique="Lean 4 proof over hand-written model + kernel translated from source + proved checker on real graphs + execution theorem through the C04 generator model + instrumented-function search",
        design="5 (C15)"),
    "C16": dict(
        text="Lean models of every order-sensitive set-consumption site with the enumeration order as an explicit adversarial argument: join_exprs_order_invariant, reorder_add_sub_invariant "
             "(full), reorder_set_invariant_partial + decide'd witness, implicit_output_order_invariant (over the extracted len==1 guard), cse_filters_order_invariant, "
             "cse_order_invariant_partial + witness, keepMax_perm / registry_outcome_perm, fresh_name_invariant; cseTrees_order_independent (Props/C16Cse.lean, no hypothesis): the model of the "
             "whole of stage2/cse.py returns, for every enumeration of its dict of candidates, the same trees with the new axes renumbered by a bijection (candidates_keys_nodup, "
             "candidates_unique_ids); the join model is used inside the C14 lowering (intermediate_spec, stream at_model); obligation that EVERY set-consumption and random-draw site found by the AST "
             "scan of the call path is classified (order-safe, message-only, guarded pop, or modelled) - a new site breaks it. Tie: cse_enum (model with reversed/rotated enumeration vs the real "
             "result). Search: a fixed corpus (directed cases at every site + generated calls + failing calls) run in sub-processes under several PYTHONHASHSEED values and a different uuid "
             "stream; digests must agree; graph=True twice per process.",
        note="Trusted: Lean kernel, driver, the AST scan with intra-function set typing, harness. sympy-internal ordering and float summation order are not modelled (corpus samples them); "
             "set_at with duplicate addresses is order sensitive in the model (witness) and relies on the fixed code choosing deterministically; the older partial CSE model keeps its "
             "witness cse_overlap_order_sensitive (first-match), the current longest-match code is covered by cseTrees_order_independent without hypothesis.",
        technique="Lean 4 proof with explicit enumeration-order parameter + source inventory obligation + multi-hash-seed corpus search",
        design="5 (C16)"),
    "C17": dict(
        text="Lean: restricted statement grammar of emitted Python with a cost semantics: grammar_loop_free (a block performs exactly flatCalls calls for every environment), "
             "cost_skeleton_invariant, skeleton_only_ints (equal skeletons iff same up to integer literals), stb_size_generic (the model of _squeeze_transpose_broadcast emits equal "
             "skeletons for length assignments with the same 1-pattern, all expressions), stbU_size_generic, expr_to_axis_size_generic (Props/C17Lower.lean); Props/C17LowerOps.lean: "
             "lower_elementwise_size_generic / lower_reduce_size_generic (for every operation, any number of operands and every two descriptions of the lowering models' domains with the same "
             "group nesting, names and 1-pattern: if both are lowered, equal skeletons and result register, all lengths incl. zero and empty groups), reshape_noop_test_generic (the reshape "
             "no-op tests - equalities between products of lengths - depend only on which members are 1), witness lower_elementwise_zero_length_witness; Props/C17Xlate.lean: the model "
             "Generic.stb, the axis-id numbering and the numpy reshape/transpose/broadcast_to/diagonal wrappers are PROVED EQUAL to the typed translation of the current Python source "
             "(extracted_stb_eq, extracted_idsOf_eq, extracted_reshapeW/transposeW/broadcastW_eq, extracted_diag_eq; diag_perm_moves: the diagonal axis is moved, not swapped; "
             "diag_fuel_sufficient); obligations regenerated from the source (every size-dependent decision in the lowering modules is of "
             "an allowed class; IR node kinds are straight-line; emitter fragments contain no control keywords). Ties: every emitted text must decode into the grammar in the Lean driver; the "
             "stb/lowerId/lowerElementwise/lowerReduce model program equals the real traced graph; lower_generic recomputes hypotheses and instance of the size-genericity theorems for every "
             "pair base / re-assignment; translated definitions vs the real functions, prelude vs CPython (xlate_tie); "
             "search: same-1-pattern size re-assignments must give equal skeletons and call counts.",
        note="Trusted: Lean kernel, driver, the taint-based source inventory, the typed Python->Lean mini translator and its reading of the builtins (Basic/PyPrelude.lean, conformance-tested "
             "against CPython and the real functions on every run), harness. Size-genericity is a theorem for _squeeze_transpose_broadcast (both values of broadcast_to_unitary), _expr_to_axis, "
             "id partially and the whole elementwise/reduce pipelines of the models (both lowerings assumed defined: definedness is not size-generic with zero lengths, which einx's solver "
             "rejects; the models are tied to traced graphs by lower_model; unnamed axes are renamed per call before an instance is recomputed); all other lowering "
             "paths (dot, id with several tensors, concatenation, indexing) rest on the source obligation, the ties and the search (stated in evidence). Translation theorems are about flat expressions and non-negative diagonal axes. Only numpy backends run here (no nested-def code from vmap backends).",
        technique="Lean 4 proof (grammar cost semantics, size-genericity of stb and of the elementwise/reduce lowering models, model = translation of the source) + source inventory obligation + skeleton search",
        design="5 (C17)"),
}

ALL = [f"C{i:02d}" for i in range(1, 18)]
PENDING_REASON = "check not built yet in this round (model/theorems in progress); no claim is made"


def main():
    checks = []
    for pid in ALL:
        if pid in CLAIMED:
            c = CLAIMED[pid]
            checks.append({
                "property_id": pid,
                "quick_cmd": f"/venv/bin/python tools/check.py {pid} --tier quick",
                "thorough_cmd": f"/venv/bin/python tools/check.py {pid} --tier thorough",
                "evidence_file": f"evidence/{pid}.json",
                "replay_cmd_template": f"/venv/bin/python tools/check.py {pid} --replay {{path}}",
                "engine": "lean-model",
                "level_claimed": {"category": "proof", "text": c["text"], "design_ref": c["design"]},
                "level_note": c["note"],
                "technique": c["technique"],
            })
    manifest = {
        "version": 1,
        "setup_cmd": "sh tools/setup.sh",
        "hooks": {
            "guard": "FFERFLO_EINX_VERIF",
            "enable": "no source hooks are needed: checks observe einx from outside (fresh BackendRegistry objects, wrapped compile/optimize, sys.settrace); FFERFLO_EINX_VERIF=1 is set by tools/check.py and is currently unused by /repo",
            "baseline_off_cmd": "cd /repo && /venv/bin/python -m pytest -ra -q -p no:cacheprovider --timeout=900 --continue-on-collection-errors",
            "source_commits": [],
            "add_only": True,
        },
        "engines": [
            {"name": "lean-model", "path": "lean/", "serves_properties": sorted(CLAIMED), "kind_free_text": "Lean 4 library EinxModel: executable models, proofs, property theorems (Props/Cxx.lean), compiled line-protocol driver"},
            {"name": "extractor", "path": "tools/extract/", "serves_properties": sorted(CLAIMED), "kind_free_text": "regenerates lean/EinxModel/Extracted/*.lean from /repo's AST and constants on every run"},
            {"name": "harness", "path": "tools/", "serves_properties": sorted(CLAIMED), "kind_free_text": "check.py: extract, lake build, axiom audit, correspondence runs, failing-input search, evidence"},
        ],
        "checks": checks,
        "notes": "Every check: regenerate Extracted/*.lean from /repo, rebuild Props/Cxx.lean, audit axioms, run the correspondence, and on a broken obligation or tie search the real code for a failing input (see DESIGN.md 2.3/2.4). Exit 2 = machinery failure.",
        "not_applicable": [{"property_id": p, "reason": PENDING_REASON} for p in ALL if p not in CLAIMED],
    }
    with open(os.path.join(ROOT, "MANIFEST.json"), "w") as f:
        json.dump(manifest, f, indent=1)


if __name__ == "__main__":
    main()
