#!/venv/bin/python
"""Writes /verif/MANIFEST.json from the table below (kept in one place so it stays valid)."""
import json
import os

ROOT = os.path.dirname(os.path.dirname(os.path.abspath(__file__)))

CLAIMED = {
    "C01": dict(
        text="Lean theorem validate_sound: if the symbolic validator accepts the straight-line numpy program translated from a traced graph against the symbolic loop-notation "
             "denotation, then for ALL tensor contents and ALL interpretations of the elementary functions the program computes the denotation (naturality of plan execution "
             "w.r.t. homomorphisms of element algebras). lower_id_correct/lower_id_validates (Props/C01Lower.lean): for EVERY pair of id expressions in the domain of the decomposer model (groups to any depth, unit and "
             "broadcast axes, any permutation, all lengths) the emitted reshape/transpose/broadcast program equals the denotation, which is defined; peel_eq_unravel, "
             "argfind_coordinates_meaning, get_at_index_meaning, normArith_sound, views_fuel_sufficient. On every run: the real traced graphs of generated id/elementwise(n-ary)/"
             "reduction/dot/flip/roll/argmax/argmin/get_at/sort/argsort calls are validated in the Lean driver; the numpy "
             "primitive plans are conformance-tested against numpy; every generated call of every family (id, reductions, elementwise, dot, get_at, argfind, preserve_shape; "
             "three numpy backends) is executed on integer data and compared with an independent Python loop interpreter (the failing-input search).",
        note="Trusted: Lean kernel, driver, graph serialiser/translator (graph JSON -> Instr list, in Lean), numpy primitive plans (conformance-tested), the Python loop interpreter, "
             "einx's own solved expression trees (front-trusted; tied by C02/C07/C12). softmax, log_softmax and logsumexp rest on the end-to-end oracle comparison alone (the generated code is the max-stabilised composition); graphs collapsed by "
             "InlineGraph are not translated by the validator. lowerId is a model of the decomposer tied to traced graphs by C17's stb_model stream. Only numpy backends can run here.",
        technique="Lean 4 proof (validator soundness) + per-call translation validation of real traced graphs + oracle differential",
        design="5 (C01), 4 (M3, M5)"),
    "C02": dict(
        text="Lean theorems about a reference solver over unbounded Nat: unit propagation derives only forced values (propagate_forced), verdict none means no solution, "
             "verdict unique means the answer satisfies the system and every solution equals it, fuel sufficiency, checker iff Sat; the same for the rank level "
             "(ellipsis repetition counts, width polynomials) and the two-level solver against the specification Sols (solveAll_sound, checkAll_iff). CSE at value level: valueRange proved equal to the translation of the current _value_range source (extracted_valueRange_eq), "
             "valueRange_spec (a non-None range is exactly the value set), cse_preserves_sols / cse_solvable_iff / cse_forced_iff / cse_propagate_sound. "
             "On every run einx's solve_axes/solve_shapes/matches and the shapes of id/sum results are compared with the proved solver and with an independent brute-force "
             "Python enumerator on generated, mutated and 2**31..2**64 inputs under the three obligations the property states.",
        note="Trusted: Lean kernel, driver, harness, Python brute-force oracle; expression trees come from einx's own stage-1 parser (front-trusted; parser is C12). sympy is not "
             "modelled (observed behaviourally); CSE's candidate search and tree surgery are C16's model, linked to the value-level theorems on an instance only. Success is demanded only where unit propagation suffices.",
        technique="Lean 4 proof over reference solver + differential correspondence with brute-force oracle",
        design="5 (C02)"),
    "C06": dict(
        text="Lean theorems: memo_transparent (any history, any eviction policy that only drops entries: a call's outcome equals the fresh outcome whenever equal keys imply equal "
             "computations; failing computations are not stored), key_refines_observation (for the _freeze_value dispatch table REGENERATED from the AST on every run: equal cache keys "
             "imply equal typed observations; obligations respects/tagsAll by decide; refutation witness for the untagged table), stack_restored (with/depend_on stacks are balanced on "
             "every path, over extracted __exit__ facts). Ties: model freeze/==/exact hash vs CPython on 20k value pairs; memo machine predictions vs warm outcomes; search: warm-vs-cold "
             "differential against pristine forked interpreters on directed and random call histories.",
        note="Trusted: Lean kernel, driver, AST extractor of _freeze_value/lru_cache/__exit__, harness and fork server. General hash consistency (pyEq -> equal hash) is tied behaviourally, "
             "not proved; NaN, ndarray-valued factory defaults and the identity short-cut of container comparison are outside the value model (explicit assumptions).",
        technique="Lean 4 proof over hand-written model + dispatch table regenerated from source + differential correspondence + warm/cold search",
        design="5 (C06)"),
    "C03": dict(
        text="Lean model of ExpressionIndicator over the C12 parser model with theorems that every caret position computed from a tree of the caller's description (sub-expressions, "
             "_parse_op's rewrites, ellipses included) lies inside the description (indicator_pos_in_range, indicator_ellipses_in_range, indicator_never_negative), so error reporting "
             "cannot raise AssertionError; obligations over the extracted error hierarchy, indicator formulas and the reviewed inventory of front-end assert sites (a re-added assert breaks "
             "front_sites_reviewed); proved-exhaustive classification of raised exceptions. Search: probes, single-edit corruptions of valid calls that are ill-formed by construction, "
             "exhaustive <=3/4-token strings and random strings through ten entry points with numpy-call-logging tensors.",
        note="Trusted: Lean kernel, driver, AST extractor, harness; the rule which ValueError/TypeError count as argument errors (raise statements in einx's argument-validation functions). "
             "Not proved: stage-2/3 copies of positions, foreign parse trees of shapes/keys, and the elaboration verdict (no full M2 model): clause (b) 'ill-formed => raises before any "
             "backend computation' is behavioural only.",
        technique="Lean 4 proof (caret positions, classification) + regenerated source inventory + corruption/exhaustive search",
        design="5 (C03)"),
    "C13": dict(
        text="Lean model of namedtensor_calltensorfactory (call node + isinstance/shape asserts per factory argument, optional keywords by the rule REGENERATED from the AST) with theorems "
             "factory_node_once / factory_node_count (all argument lists), factory_kwargs_declared_only, factory_asserts_before_use, factory_no_constraints, trace_is_pure, and a checker "
             "factoryOK on real traced graphs with checker_sound (accepted graph => in every execution that evaluates each reachable node once the factory is invoked exactly once with the "
             "solved shape and the declared keywords) and checker_guard. Ties: factory_check on pre/post-optimisation graphs, emitted text vs model node list; search: instrumented factories "
             "(12 signature styles, misbehaving ones, python -O) over cold/warm/graph=True/rejected executions and every subset of positions.",
        note="Trusted: Lean kernel, driver, extractor anchors (tracing evaluates nothing, graph=True returns before the call), C04's emit_once as the named hypothesis Exec, harness.",
        technique="Lean 4 proof over model + proved checker on real graphs + invocation-log search",
        design="5 (C13)"),
    "C04": dict(
        text="Byte-exact Lean model of the code generator (usage counting, scopes, per-node rules, fuse/liveness, naming, rendering; switches REGENERATED from the AST of usage.py/"
             "__init__.py) with theorems compile_correct_wf (universal: for every graph satisfying the decidable Graph.WF and all switches, compile success implies that the reference evaluation succeeds with the same "
             "event trace and result as executing the emitted statements; nested graphs, in-place calls, item updates), compile_correct(_flat,_compiled,_fused), emit_closed, visitOrder_nodup/_noSelfRef/_wellBracketed, emit_order, emit_once(_wf), fuse_sound (renaming under the interference condition preserves trace and result), obligations value_computed_once / "
             "self_contained / unary_operator over the extracted switches, decide'd D6 witness. On every run: model text == real compile() text on captured and synthetic graphs (all node "
             "kinds, nested graphs); the driver symbolically executes emitted statements and evalGraph per graph and compares trace and result; search: exec of the emitted text on "
             "instrumented versioned objects vs a memoised node-by-node reference interpreter (results, ordered effects, evaluation counts), graph=True text == exec'd text.",
        note="Trusted: Lean kernel, driver, extractor, harness/reference interpreter. Graph.WF is decided per graph by the driver (true on all graphs seen); that the real fuse loop always produces a fuseSafe renaming is checked per graph, not proved; "
             "the theorems speak about statements in emission order (hoisting of imports in the text is trusted). Reading of 'computed once': attribute lookups "
             "on imported modules and builtin names are constant lookups (rendered inline by design), every other node value is computed once.",
        technique="Lean 4 proof over byte-exact generator model + switches regenerated from source + per-graph translation validation + instrumented execution search",
        design="5 (C04)"),
    "C15": dict(
        text="Lean model of the adapter path (keyword split of op.inner, _expr_to_axis mini-translated from source, expected output shapes, traced node list) with theorems "
             "kwonly_never_axis and split_partition (all keyword lists/descriptions), expr_to_axis_correct, position_interleave, reduce_axis_semantics IN FULL (under the documented numpy-like "
             "contract the adapter equals the loop-notation denotation for every flat expression/tensor/assignment), adapt_result_checked, adaptOK_sound for the checker run on real graphs. "
             "Search: nine instrumented user functions (reduce/elementwise, with/without keyword-only options, misbehaving, python -O) vs the Python loop interpreter, invocation logs, "
             "option histories (2 / 2.0 / True) against fresh adapters.",
        note="Trusted: Lean kernel, driver, extractor, harness, the numpy-like contract as hypothesis. adapt_with_vmap cannot run here (no framework with vmap installed) and is neither "
             "exercised nor modelled. reduce_axis_semantics is at the decomposed (flat) level; parentheses/permutation/keepdims go through C01's lowering and are covered behaviourally.",
        technique="Lean 4 proof over hand-written model + kernel translated from source + proved checker on real graphs + instrumented-function search",
        design="5 (C15)"),
    "C16": dict(
        text="Lean models of every order-sensitive set-consumption site with the enumeration order as an explicit adversarial argument: join_exprs_order_invariant, reorder_add_sub_invariant "
             "(full), reorder_set_invariant_partial + decide'd witness, implicit_output_order_invariant (over the extracted len==1 guard), cse_filters_order_invariant, "
             "cse_order_invariant_partial + witness, keepMax_perm / registry_outcome_perm, fresh_name_invariant; obligation that EVERY set-consumption and random-draw site found by the AST "
             "scan of the call path is classified (order-safe, message-only, guarded pop, or modelled) - a new site breaks it. Search: a fixed corpus (directed cases at every site + "
             "generated calls + failing calls) run in sub-processes under several PYTHONHASHSEED values and a different uuid stream; digests must agree; graph=True twice per process.",
        note="Trusted: Lean kernel, driver, the AST scan with intra-function set typing, harness. sympy-internal ordering and float summation order are not modelled (corpus samples them); "
             "set_at with duplicate addresses and overlapping CSE candidates are order sensitive in the model (witnesses) and rely on the fixed code choosing deterministically.",
        technique="Lean 4 proof with explicit enumeration-order parameter + source inventory obligation + multi-hash-seed corpus search",
        design="5 (C16)"),
    "C05": dict(
        text="Lean theorems about the same plan functions the validator executes, for all ranks/shapes/permutations/element algebras: transpose_transpose over the permutation-composition "
             "kernel TRANSLATED from optimizer/classical.py on every run (composePerm_spec by rfl breaks if the order is reversed), transpose_id, reshape_same, reshape_reshape, broadcast_same, "
             "concat_singleton, each extracted no-op test implies its theorem's hypothesis, rule_sound / rewrites_sound / rewrite_sound / optimize_sound(_fixpoint) (whole passes on the term model with the IR's evaluation semantics, any traversal order), "
             "rebuild_preserves / unfold_sound (sharing as let-bindings), termination of the pass loop for any strictly-decreasing pass model, equiv_sound/equivG_sound "
             "(symbolic equivalence of two programs implies equal outputs on all inputs). On every run each real graph before/after tracer.optimize is proved equal symbolically in the driver "
             "(unsupported primitives fall back to a node-by-node numpy evaluator incl. in-place nodes), real passes are monitored for the termination measure, synthetic chains with shared "
             "sub-graphs are optimised with the real pattern objects.",
        note="Trusted: Lean kernel, driver, the Python->Lean mini translator for the kernel anchors, graph serialiser/translator, numpy primitive plans. Whole-pass soundness is proved on the term model (trees; DAGs as let-lists and via unfolding); in-place nodes, InlineGraph and the tie of the real traversal to Rewrites steps "
             "stay per real graph (equiv + equiv_sound, evaluator); Cast is the identity by construction of the translation.",
        technique="Lean 4 proof over kernels translated from source + per-graph translation validation (pre vs post optimisation)",
        design="5 (C05)"),
    "C07": dict(
        text="Lean model of _to_el_expr/_parse_op on the C12 stage-1 trees with per-family flags REGENERATED from the AST; 28 theorems for all trees: implicit-output rules "
             "(superset, single input, same, update, reduce with/without keepdims), auto_brackets, keepdims_is_parenthesised, adjacent_brackets_merge, number_is_fresh_axis, rearrange_is_id "
             "(over the extracted body), obligations over the extracted flags/el_op builders. Ties: model vs the real _parse_op (canonical trees / error kinds) on generated and recorded calls; "
             "search: 17 documented short/long pair generators on the real code (values, exception class, generated code).",
        note="Trusted: Lean kernel, driver, AST extractor, harness. Shorthands that live in stage 2/3 (number = fresh axis for results, anonymous/expanded ellipsis, scalar size = repeated tuple, "
             "unit coordinate bracket, [a] [b] = [a b] for results) and nested '->'/',' distribution are covered by the pair search only (samples by decide +kernel); argfind's rule has no theorem.",
        technique="Lean 4 proof over hand-written model on regenerated flags + differential correspondence + metamorphic pair search",
        design="5 (C07)"),
    "C08": dict(
        text="Lean theorems on a loop-free form of the denotation proved equal to the executable one (denoteId_fun_agree_multi, denoteElementwise_fun_agree): renaming invariance for renamings injective on the names in use (denote_rename_on*, denote_reduce_rename), "
             "pos_flat_is_ravel and the regrouping laws against the IR's reshape plan, input/output permutation against the IR's transpose plan as equalities of whole result tensors (denote_permute_input_tensor/_expr/_elementwise, denote_permute_output_tensor/_expr), positions valid and injective on the iteration "
             "space, id_inverse and id_compose in full (substitution of symbolic tensors). Search: six metamorphic relations on real einx calls (rename, permute input/output, regroup, round "
             "trip, composition) over all families/backends with equal lengths and length-1 axes, also evaluated on the Lean denotation.",
        note="Trusted: Lean kernel, driver, harness. the output permutation law assumes both results defined; reductions: renaming only (bracket-order law not proved); no functional/loop tie for concatenations; transfer to einx goes through C01's tie.",
        technique="Lean 4 proof over denotation + metamorphic search on the implementation",
        design="5 (C08)"),
    "C09": dict(
        text="Lean store semantics with objects, views and in-place nodes over an alias table of the 54 traced numpy functions (in-place registrations and compiler aliasing facts REGENERATED "
             "from the source): alias_sound, write_frame, noWrite_sound (if the static check passes, input i is unchanged for every store, every view/copy decision and every written content), "
             "at_only_first. On every run: writes(g) of every traced graph (must be [] / within [0] for *_at), alias-table conformance against numpy (shares_memory, write-through) in four "
             "memory layouts, and a byte/flag/kwargs snapshot oracle on real calls incl. solve_*/matches/graph=True with read-only and strided arguments.",
        note="Trusted: Lean kernel, driver, extractor, graph translation, the alias table (numpy's view/copy behaviour; conformance-tested each run), C04's claim that each in-place statement "
             "runs once in dependency order. Objects are whole buffers (over-approximation).",
        technique="Lean 4 proof (frame property over alias analysis) + table conformance + snapshot search",
        design="5 (C09)"),
    "C17": dict(
        text="Lean: restricted statement grammar of emitted Python with a cost semantics: grammar_loop_free (a block performs exactly flatCalls calls for every environment), "
             "cost_skeleton_invariant, skeleton_only_ints (equal skeletons iff same up to integer literals), stb_size_generic (the model of _squeeze_transpose_broadcast emits equal "
             "skeletons for length assignments with the same 1-pattern, all expressions), obligations regenerated from the source (every size-dependent decision in the lowering modules is of "
             "an allowed class; IR node kinds are straight-line; emitter fragments contain no control keywords). Ties: every emitted text must decode into the grammar in the Lean driver; the "
             "stb/lowerId model program equals the real traced graph; search: same-1-pattern size re-assignments must give equal skeletons and call counts.",
        note="Trusted: Lean kernel, driver, the taint-based source inventory, harness. Size-genericity is a theorem only for _squeeze_transpose_broadcast (id partially); all other lowering "
             "paths rest on the source obligation, the ties and the search (stated in evidence). Only numpy backends run here (no nested-def code from vmap backends).",
        technique="Lean 4 proof (grammar cost semantics, stb size-genericity) + source inventory obligation + skeleton search",
        design="5 (C17)"),
    "C10": dict(
        text="Lean interleaving semantics over the sequential registry model (acquire?; read snapshot; compute; store; release? per method, lock table REGENERATED from the AST): "
             "locked_linearizable (for every number of threads, every program and every schedule, a finished execution equals the serial run in commit order: outputs, final state), "
             "locked_no_deadlock, locked_can_finish, locked_outcome_serial, thread_local_noninterference, decide'd lost-update witnesses for unlocked get/enter; obligations over the "
             "extracted facts (every method locked in one block, thread-local stacks, sys.modules snapshot, functools cache). Tie/search: deterministic settrace scheduler on real "
             "BackendRegistry objects and end-to-end einx calls (critical, sweep, random, exhaustive schedules); outcomes must equal some serial order run on a fresh real registry.",
        note="Trusted: Lean kernel, driver, AST extractor, the scheduler (preemption at line/call/return events of einx's Python code only; preemption inside C functions such as "
             "functools.cache or numpy is not exercised), thread-safety of functools.cache. torch device / array-api namespace stacks have source-fact obligations only (frameworks absent).",
        technique="Lean 4 proof (linearizability by simulation) + lock discipline regenerated from source + deterministic-scheduler correspondence",
        design="5 (C10)"),
    "C11": dict(
        text="Lean theorems about the model of BackendRegistryState (precedence chain, get = pure specGet in every quiet state with a sound memo, "
             "lookups do not influence later lookups, select_is_max_priority_set, independence of the order of `backends` and of registration order (select_order_independent, get_registration_order_independent), history_independent / history_order_independent "
             "for every history without lazy registration, lazy_history_spec / lazy_history_independent under the decidable discipline, two counterexample theorems outside it, register clears the memo [obligation regenerated from the AST], failing factories isolated, real priorities) "
             "+ step-by-step differential correspondence of the model with fresh real BackendRegistry objects on random op sequences; "
             "on a broken obligation/tie: search of disciplined histories on the real registry against the pure specification.",
        note="Trusted: Lean kernel (propext, Classical.choice, Quot.sound), driver compiled by Lean, AST extractor for _register/priorities, harness. "
             "Undisciplined lazy histories (eager and lazy backends for the same tensor type, or a framework type looked up before its module is imported) are provably history dependent "
             "and only sampled by the correspondence; not reachable with einx's own registrations.",
        technique="Lean 4 proof over hand-written model + regenerated obligations + differential correspondence",
        design="5 (C11)"),
    "C14": dict(
        text="Lean theorems about the update denotation (every assignment of the un-bracketed axes exactly once, add/subtract = target +/- sum of contributions and "
             "order independent, set leaves one competing value, untouched elements unchanged, missing axes repeat, get-after-set) and about the lowering "
             "(the _ravel multiplier kernel, mini-translated from the source on every run, computes the row-major address; np.put / ufunc.at realise the fold when "
             "indices and updates are broadcast; obligation over the extracted registration flags) + correspondence of model and numpy primitives with the real code "
             "+ nested-loop oracle search on real set_at/add_at/subtract_at/get_at calls.",
        note="Trusted: Lean kernel, driver, AST extractor/mini-translator for classical_from_numpy.py and _ravel, numpy primitive semantics (conformance-tested each run), harness. "
             "_join_exprs and the decomposer steps in front of the scatter are not modelled in Lean (the harness feeds the real order); coordinates are assumed in range.",
        technique="Lean 4 proof over hand-written model + kernel translated from source + differential correspondence",
        design="5 (C14)"),
    "C12": dict(
        text="Total executable Lean model of parse_op/parse_args/parse_arg (well-founded recursion, no fuel) over constants regenerated from the source; theorems: every string "
             "yields a tree, a SyntaxError or one of five characterised internal kinds (parse_total_cases), every caret position is inside the caller's string "
             "(parse_err_pos_in_range, all strings), space_invariance for parseOp (every redundant-space slot; trees equal up to positions and an injective renumbering of fresh ids, errors keep their kind), print_parse_partial for the decidable class Printable, obligations over the extracted operator/literal tables, refutation witnesses for print_parse "
             "(decide +kernel) + exhaustive (<=4/5 tokens) and random correspondence of tree/error/carets with the real parser + five oracles on the real code "
             "(exception class, carets, space insertion, print/re-parse, public ops never quote foreign text).",
        note="Trusted: Lean kernel, driver, extractor of the parser constants/AST facts, harness. print_parse is refuted on the pinned tree (D11, D18, listed in known_findings.json); print_parse_partial excludes numeric axes inside brackets and doubled spaces, and that every parseOp result "
             "outside the three refuted patterns is Printable is sampled, not proved; three internal asserts are not proved unreachable.",
        technique="Lean 4 proof over hand-written total parser model + regenerated constants + exhaustive/random differential correspondence",
        design="5 (C12)"),
}

ALL = [f"C{i:02d}" for i in range(1, 18)]
PENDING_REASON = "check not built yet in this round (model/theorems in progress); no claim is made"


def main():
    checks = []
    for pid in ALL:
        if pid in CLAIMED:
            c = CLAIMED[pid]
            checks.append({
                "property_id": pid,
                "quick_cmd": f"/venv/bin/python tools/check.py {pid} --tier quick",
                "thorough_cmd": f"/venv/bin/python tools/check.py {pid} --tier thorough",
                "evidence_file": f"evidence/{pid}.json",
                "replay_cmd_template": f"/venv/bin/python tools/check.py {pid} --replay {{path}}",
                "engine": "lean-model",
                "level_claimed": {"category": "proof", "text": c["text"], "design_ref": c["design"]},
                "level_note": c["note"],
                "technique": c["technique"],
            })
    manifest = {
        "version": 1,
        "setup_cmd": "sh tools/setup.sh",
        "hooks": {
            "guard": "FFERFLO_EINX_VERIF",
            "enable": "no source hooks are needed: checks observe einx from outside (fresh BackendRegistry objects, wrapped compile/optimize, sys.settrace); FFERFLO_EINX_VERIF=1 is set by tools/check.py and is currently unused by /repo",
            "baseline_off_cmd": "cd /repo && /venv/bin/python -m pytest -ra -q -p no:cacheprovider --timeout=900 --continue-on-collection-errors",
            "source_commits": [],
            "add_only": True,
        },
        "engines": [
            {"name": "lean-model", "path": "lean/", "serves_properties": sorted(CLAIMED), "kind_free_text": "Lean 4 library EinxModel: executable models, proofs, property theorems (Props/Cxx.lean), compiled line-protocol driver"},
            {"name": "extractor", "path": "tools/extract/", "serves_properties": sorted(CLAIMED), "kind_free_text": "regenerates lean/EinxModel/Extracted/*.lean from /repo's AST and constants on every run"},
            {"name": "harness", "path": "tools/", "serves_properties": sorted(CLAIMED), "kind_free_text": "check.py: extract, lake build, axiom audit, correspondence runs, failing-input search, evidence"},
        ],
        "checks": checks,
        "notes": "Every check: regenerate Extracted/*.lean from /repo, rebuild Props/Cxx.lean, audit axioms, run the correspondence, and on a broken obligation or tie search the real code for a failing input (see DESIGN.md 2.3/2.4). Exit 2 = machinery failure.",
        "not_applicable": [{"property_id": p, "reason": PENDING_REASON} for p in ALL if p not in CLAIMED],
    }
    with open(os.path.join(ROOT, "MANIFEST.json"), "w") as f:
        json.dump(manifest, f, indent=1)


if __name__ == "__main__":
    main()
