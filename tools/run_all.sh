#!/bin/sh
# Run the quick command of every claimed check on /repo and summarise (used before committing evidence).
cd "$(dirname "$0")/.."
for p in $(/venv/bin/python -c "import json; print(' '.join(c['property_id'] for c in json.load(open('MANIFEST.json'))['checks']))"); do
  s=$(date +%s)
  out=$(VERIF_SEED=${VERIF_SEED:-0} /venv/bin/python tools/check.py $p --tier ${1:-quick} 2>&1); rc=$?
  e=$(date +%s)
  echo "$p rc=$rc $((e-s))s $(echo "$out" | grep -c '^VIOLATION') violations $(echo "$out" | grep -c '^KNOWN-FINDING') known"
  echo "$out" | grep -E '^(VIOLATION|MACHINERY)' | head -5
done
