#!/venv/bin/python
"""Entry point of every check:  tools/check.py Cxx [--tier quick|thorough] [--replay file]

exit 0  the property held on everything explored (proofs rebuilt against the regenerated
        Extracted/*.lean, axioms audited, correspondence clean)
exit 1  + line `VIOLATION property=Cxx replay=<path>[ no-failing-input-found]`
exit 2  the machinery itself failed (timeouts, harness exceptions)
"""
import argparse
import importlib
import os
import sys
import traceback

HERE = os.path.dirname(os.path.abspath(__file__))
sys.path.insert(0, HERE)
sys.dont_write_bytecode = True

from lib import core  # noqa: E402
import extract  # noqa: E402


def main():
    ap = argparse.ArgumentParser()
    ap.add_argument("prop")
    ap.add_argument("--tier", default=os.environ.get("VERIF_TIER", "quick"), choices=["quick", "thorough"])
    ap.add_argument("--replay", default=None)
    a = ap.parse_args()
    prop = a.prop.upper()
    seed = int(os.environ.get("VERIF_SEED", "0"))
    ctx = core.Ctx(prop, a.tier, seed)
    try:
        mod = importlib.import_module(f"props.{prop.lower()}")
        if a.replay:
            rc = mod.replay(ctx, a.replay)
            sys.exit(rc)
        lean_ok = True
        with core.lean_lock():
            ctx.facts = extract.run_all(ctx, getattr(mod, "EXTRACTORS", []))
            # further property files of the same property (e.g. Props/C01Lower.lean), named by the harness
            extra_props = list(getattr(mod, "EXTRA_PROPS", []))
            targets = [f"EinxModel.Props.{prop}"] + [f"EinxModel.Props.{x}" for x in extra_props] + ["driver"]
            ok, log, failing = core.lake_build(targets)
            names, n_examples = core.property_theorems(prop)
            for x in extra_props:
                xn, xe = core.property_theorems(x)
                names, n_examples = names + xn, n_examples + xe
            ctx.obligations = len(names) + n_examples
            if ok:
                ctx.discharged = ctx.obligations
                aok, axioms, problems = core.audit(prop)
                for x in extra_props:
                    xok, xax, xpr = core.audit(x)
                    aok, problems = aok and xok, problems + [q for q in xpr if q not in problems]
                    axioms.update(xax)
                ctx.axioms = axioms
                if not aok:
                    for p in problems:
                        ctx.tie_broken("audit", p)
                if a.tier == "thorough":
                    rc, out = core.run(["lake", "env", "leanchecker", f"EinxModel.Props.{prop}"], cwd=core.LEAN, timeout=3000)
                    ctx.extra["leanchecker"] = "ok" if rc == 0 else out[-500:]
                    if rc != 0:
                        ctx.tie_broken("leanchecker", out[-500:])
            else:
                lean_ok = False
                broken_names = set()
                for (f, ln, name, msg) in failing:
                    ctx.tie_broken(f"theorem:{name}", f"{f}:{ln}: {msg}")
                    if f.endswith(f"Props/{prop}.lean") or any(f.endswith(f"Props/{x}.lean") for x in extra_props):
                        broken_names.add(name)
                if not failing:
                    raise core.MachineryError("lake build failed without a Lean error:\n" + log[-3000:])
                ctx.discharged = max(0, ctx.obligations - max(1, len(broken_names)))
                # the driver may still be buildable (it does not import Props)
                dok, _, _ = core.lake_build(["driver"])
                ctx.driver_ok = dok
        ctx.lean_ok = lean_ok
        if lean_ok:
            ctx.driver_ok = True
        try:
            mod.run(ctx)
        except core.MachineryError:
            raise
        except Exception as e:
            # An exception that escapes the harness from inside einx's own code means that an internal interface the
            # correspondence relies on has changed: the tie is broken (not a machinery failure, not yet a violation).
            tb = traceback.extract_tb(e.__traceback__)
            repo = os.path.realpath(core.REPO)
            if any(os.path.realpath(f.filename).startswith(repo + os.sep) for f in tb):
                where = [f"{os.path.relpath(os.path.realpath(f.filename), repo)}:{f.lineno}" for f in tb if os.path.realpath(f.filename).startswith(repo + os.sep)][-1]
                ctx.tie_broken("correspondence:internal-interface", f"{type(e).__name__}: {e} (at {where}); the harness could not complete")
            else:
                raise
        rc = ctx.finish()
        sys.exit(rc)
    except core.MachineryError as e:
        print(f"MACHINERY-ERROR {prop}: {e}", file=sys.stderr)
        sys.exit(2)
    except SystemExit:
        raise
    except BaseException:
        traceback.print_exc()
        print(f"MACHINERY-ERROR {prop}: harness exception", file=sys.stderr)
        sys.exit(2)


if __name__ == "__main__":
    main()
