"""C03 — ill-formed calls are rejected with documented errors, never computed.

Reading (DESIGN.md): (a) no internal exception type (AssertionError, NameError, KeyError, IndexError, AttributeError,
RecursionError, UnboundLocalError, NotImplementedError) escapes any public entry point on any input; (b) a call that is
ill-formed *by construction* raises (returns nothing) and no backend function has run; (c) what is raised is a documented
class: one of the six einx.errors classes of the property, or a ValueError/TypeError from argument validation.

Ties
  T-src   Extracted/Errors.lean (error hierarchy, ExpressionIndicator formulas, inventory of assert / raise-internal sites);
          obligations in Props/C03.lean (`indicator_formulas_are_the_models`, `front_sites_reviewed`, hierarchy facts).
  T-beh   (1) the Lean model of ExpressionIndicator (driver kind `indicator`) against the real class on parser output, its
          sub-expressions and the rewrites `_parse_op` applies (positions, assert outcome; the hypothesis `ellOK` of the
          partial theorem is evaluated on every case);  (2) the Lean `classify` (driver kind `classify`) against the Python
          mirror used inside the worker processes, on every distinct exception observed.
Search (on the real code only; the oracle is the property text):
  stream P  fixed probes (the inputs of D5/D14/D11 and structural extremes), always first, so known findings get stable signatures
  stream A  valid calls of lib/gen.py, each followed by single-edit corruptions that are ill-formed by construction: clause (a)+(b)+(c)
  stream B  every concatenation of <= L notation tokens through ten entry points with tensors of plausible ranks: clause (a)+(c)
  stream C  random strings / grammar-generated descriptions: clause (a)+(c)
  stream R  (props/c03_rules.py) for every rejection theorem of Props/C03Reject.lean / Props/C03Elab.lean: descriptions that have the
            theorem's defect by construction; Lean hypothesis evaluated on the input, model outcome = theorem's conclusion, real
            parser / `_parse_op` raise the same class at the same site, public entry point raises SyntaxError / SemanticError
"Before any backend computation" is observed from outside einx: tensor arguments are instances of an ndarray subclass that logs
every numpy function/ufunc applied to them; the log must be empty whenever the call raises anything but CallOperationError.
Findings are keyed by (clause, exception type, innermost einx frame file:function); each key is reported once with a shrunk example.
"""
import ast
import itertools
import json
import multiprocessing
import os
import re
import sys
import time
import warnings

import numpy as np

from lib import core, gen
from props import c12, c03_rules

EXTRACTORS = ["Notation", "Errors", "Elab"]
# further property files of C03: rejection theorems on the parser model and on the `_parse_op` model
EXTRA_PROPS = ["C03Reject", "C03Elab", "C03Grammar"]

OPS_B = ["id", "sum", "add", "dot", "get_at", "argmax", "sort", "solve_axes", "solve_shapes", "matches"]
SOLVE_FNS = ("solve_axes", "solve_shapes", "matches", "solve", "check")

DOCUMENTED = ["SyntaxError", "RankError", "AxisSizeError", "SemanticError", "OperationNotSupportedError", "BackendResolutionError"]
INTERNAL = ["AssertionError", "NameError", "KeyError", "IndexError", "AttributeError", "RecursionError", "UnboundLocalError", "NotImplementedError"]
# mirror of Einx.Errors.argSites (Errors/Classify.lean); agreement with the Lean function is checked on every distinct exception
ARG_SITES = {("frontend/api.py", "_split_tensors"), ("frontend/api.py", "_to_tracer"), ("frontend/util.py", "_get_shape"),
             ("frontend/backend.py", "BackendRegistryState._register"), ("frontend/backend.py", "BackendRegistryState._get_by_name"),
             ("frontend/backend.py", "BackendRegistryState._get"),
             ("adapter/einx_from_namedtensor.py", "_parse_op"), ("adapter/einx_from_namedtensor.py", "op.inner"),
             ("namedtensor/solve.py", "solve"), ("namedtensor/stage2/solve.py", "_input_expr"),
             ("adapter/numpy/classical_from_numpy.py", "elementwise.inner")}


# ------------------------------------------------------------------ observation of numpy calls on the arguments

LOG = []


def _unwrap(x):
    if isinstance(x, LogArray):
        return x.view(np.ndarray)
    if isinstance(x, (list, tuple)):
        return type(x)(_unwrap(y) for y in x)
    if isinstance(x, dict):
        return {k: _unwrap(v) for k, v in x.items()}
    return x


class LogArray(np.ndarray):
    """ndarray whose every use as an operand of a numpy function or ufunc is logged (the computation itself runs on the base view)."""

    def __array_function__(self, func, types, args, kwargs):
        LOG.append("function:" + getattr(func, "__name__", str(func)))
        return func(*_unwrap(args), **_unwrap(kwargs))

    def __array_ufunc__(self, ufunc, method, *inputs, **kwargs):
        LOG.append(f"ufunc:{ufunc.__name__}.{method}")
        return getattr(ufunc, method)(*_unwrap(inputs), **_unwrap(kwargs))


def make_tensor(shape, dtype="float64"):
    if shape is None:
        return None
    n = int(np.prod(shape)) if len(shape) else 1
    if dtype == "int64":
        base = np.zeros(shape, dtype=np.int64)
    else:
        base = (np.arange(n, dtype=np.float64) + 1.0).reshape(shape)
    return base.view(LogArray)


# ------------------------------------------------------------------ what was raised, and where

_EINX_ROOT = None
_AST_CACHE = {}


def einx_root():
    global _EINX_ROOT
    if _EINX_ROOT is None:
        import einx
        _EINX_ROOT = os.path.dirname(os.path.abspath(einx.__file__))
    return _EINX_ROOT


def _stmt_is_raise(filename, lineno):
    """Is the innermost statement that covers `lineno` in `filename` a `raise` statement?"""
    if filename not in _AST_CACHE:
        try:
            with open(filename) as f:
                tree = ast.parse(f.read())
            stmts = [(n.lineno, getattr(n, "end_lineno", n.lineno), isinstance(n, ast.Raise)) for n in ast.walk(tree) if isinstance(n, ast.stmt)]
        except (OSError, SyntaxError):
            stmts = []
        _AST_CACHE[filename] = stmts
    best = None
    for lo, hi, is_raise in _AST_CACHE[filename]:
        if lo <= lineno <= hi and (best is None or lo >= best[0]):
            if best is None or lo > best[0] or (hi - lo) <= (best[1] - best[0]):
                best = (lo, hi, is_raise)
    return bool(best and best[2])


def _module_of(filename):
    parts = filename.replace("\\", "/").split("/")
    if "site-packages" in parts:
        return parts[parts.index("site-packages") + 1]
    return os.path.basename(filename)


def describe(e):
    """Exception -> {name, mro, origin, file, func, raised_in, msg}."""
    root = einx_root() + os.sep
    frames = []
    tb = e.__traceback__
    while tb is not None:
        code = tb.tb_frame.f_code
        frames.append((code.co_filename, tb.tb_lineno, getattr(code, "co_qualname", code.co_name)))
        tb = tb.tb_next
    einx_frames = [f for f in frames if f[0].startswith(root)]
    file = func = ""
    raised_in = ""
    if not einx_frames:
        origin = "caller"
    else:
        ef = einx_frames[-1]
        rel = ef[0][len(root):].replace(os.sep, "/")
        file = rel[len("_src/"):] if rel.startswith("_src/") else rel
        func = ef[2].replace(".<locals>", "")
        inner = frames[-1]
        if inner[0].startswith(root):
            origin = "einxRaise" if _stmt_is_raise(inner[0], inner[1]) else "einxOther"
        else:
            origin = "foreign"
            raised_in = _module_of(inner[0])
    t = type(e)
    return {"name": t.__name__, "mro": [f"{c.__module__}.{c.__qualname__}" for c in t.__mro__], "origin": origin, "file": file, "func": func,
            "raised_in": raised_in, "msg": str(e)[:160]}


def classify(d):
    """Python mirror of Einx.Errors.classify (the Lean function is the reference; `check_classification` compares them)."""
    mro = d["mro"]
    if any(m == "einx.errors." + c for m in mro for c in DOCUMENTED):
        return "documented"
    if "einx.errors.CallOperationError" in mro:
        return "runtime"
    if any(m == "builtins." + c for m in mro for c in INTERNAL):
        return "internal"
    if "builtins.ValueError" in mro or "builtins.TypeError" in mro:
        if d["origin"] == "caller" or (d["origin"] == "einxRaise" and (d["file"], d["func"]) in ARG_SITES):
            return "argument"
    return "undocumented"


def where_of(d):
    w = f"{d['file']}:{d['func']}" if d["file"] else "<no einx frame>"
    if d["origin"] == "foreign":
        w += f" (raised in {d['raised_in']})"
    elif d["origin"] == "einxOther":
        w += " (not a raise statement)"
    return w


# ------------------------------------------------------------------ running one call

def build_args(ex):
    """Tensor arguments of an example {"fn","desc","shapes","dtypes"?,"kwargs"}: LogArray instances, `None` for an unknown shape,
    a Python float for the marker "scalar"."""
    out = []
    dts = ex.get("dtypes") or []
    for i, s in enumerate(ex["shapes"]):
        if s == "scalar":
            out.append(1.0)
        elif s is None:
            out.append(None)
        else:
            out.append(make_tensor(tuple(s), dts[i] if i < len(dts) else "float64"))
    return out


def run_example(ex):
    """-> {"outcome": "ok"} | {"outcome": "raise", **describe, "verdict"}, plus "log"."""
    import einx
    fn = getattr(einx, ex["fn"])
    args = build_args(ex)
    del LOG[:]
    try:
        with warnings.catch_warnings():
            warnings.simplefilter("ignore")
            fn(ex["desc"], *args, **ex.get("kwargs", {}))
        return {"outcome": "ok", "log": list(LOG)}
    except (KeyboardInterrupt, SystemExit):
        raise
    except BaseException as e:  # noqa: BLE001 - every exception class is an observation
        d = describe(e)
        d["outcome"] = "raise"
        d["verdict"] = classify(d)
        d["log"] = list(LOG)
        return d


def finding_key(r, sure):
    """None if the outcome is acceptable, else (clause, exception name, where)."""
    if r["outcome"] == "ok":
        return ("b-returned", "", "") if sure else None
    v = r["verdict"]
    if v == "internal":
        return ("a", r["name"], where_of(r))
    if v == "undocumented":
        return ("c", r["name"], where_of(r))
    if v == "runtime":
        return ("b-computed", r["name"], "") if sure else None
    if r["log"]:
        return ("b-log", r["name"], where_of(r))
    return None


# ------------------------------------------------------------------ tensors of plausible rank for an arbitrary string

def plausible_shapes(desc):
    """(n_inputs, shapes derived from the expression) if the real parser accepts `desc`, else a guess from the commas."""
    s1 = c12._stage1()
    try:
        op = s1.parse_op(desc)
        ins = op.children[0].children
        shapes = []
        for a in ins:
            shp = [max(1, min(int(d), 4)) for d in c12.Oracles.shape_of(a)][:5]
            shapes.append(tuple(shp))
        return len(ins), shapes, True
    except Exception:  # noqa: BLE001 - whatever the parser raises is observed through the entry points
        n = desc.split("->")[0].count(",") + 1
        return n, [(2,)] * n, False


def examples_for_string(desc, fns, n_cfg, thin=False):
    """`thin`: a description the parser rejects fails in `stage1.parse_op`, the first step of every entry point, whatever the
    tensors are; the quick tier then calls only one entry point per family of wrappers with one tensor configuration."""
    n, shapes, parsed = plausible_shapes(desc)
    if thin and not parsed:
        fns = [f for f in fns if f in ("id", "get_at", "solve_axes", "matches")] or fns[:1]
        n_cfg = 1
    cfgs = [shapes, [(3,)] * n, [(2, 3)] * n, [()] * n, [(2,)] * max(0, n - 1), [(2,)] * (n + 1)][:n_cfg]
    seen = set()
    for fn in fns:
        for shp in cfgs:
            k = (fn, tuple(shp))
            if k in seen:
                continue
            seen.add(k)
            dts = ["float64"] + ["int64"] * (len(shp) - 1) if fn in ("get_at",) else ["float64"] * len(shp)
            yield {"fn": fn, "desc": desc, "shapes": [tuple(s) for s in shp], "dtypes": dts, "kwargs": {}}


# ------------------------------------------------------------------ single-edit corruptions (stream A)

_NAME = re.compile(r"[A-Za-z_][A-Za-z0-9_]*")
FRESH = "zq"


def top_dims(expr):
    """Top-level dimensions of an expression string (split at spaces outside parentheses/brackets)."""
    out, cur, depth = [], "", 0
    for ch in expr.strip():
        if ch in "([":
            depth += 1
        elif ch in ")]":
            depth -= 1
        if ch == " " and depth == 0:
            if cur:
                out.append(cur)
            cur = ""
        else:
            cur += ch
    if cur:
        out.append(cur)
    return out


def split_desc(desc):
    parts = desc.split("->")
    ins = [p.strip() for p in parts[0].split(",")]
    outs = [p.strip() for p in parts[1].split(",")] if len(parts) > 1 else None
    return ins, outs


def join_desc(ins, outs):
    s = ", ".join(ins)
    if outs is not None:
        s += " -> " + ", ".join(outs)
    return s


def plain(d):
    """Axis name of a dimension that is `name` or `[name]`, else None."""
    m = re.fullmatch(r"\[?([A-Za-z_][A-Za-z0-9_]*)\]?", d)
    return m.group(1) if m else None


def slots(call):
    """[(tensor index, dim index, name, size)] for top-level dimensions that are a plain (possibly bracketed) axis name."""
    ins, _ = split_desc(call["desc"])
    out = []
    for ti, e in enumerate(ins):
        dims = top_dims(e)
        if ti >= len(call["shapes"]) or len(dims) != len(call["shapes"][ti]):
            continue
        for di, d in enumerate(dims):
            nm = plain(d)
            if nm is not None:
                out.append((ti, di, nm, call["shapes"][ti][di]))
    return out


def _with(call, **kw):
    c = {"op": call["op"], "family": call["family"], "desc": call["desc"], "shapes": [tuple(s) for s in call["shapes"]],
         "kwargs": dict(call["kwargs"])}
    c.update(kw)
    return c


def _set_dim(shapes, ti, di, v):
    shapes = [list(s) for s in shapes]
    shapes[ti][di] = v
    return [tuple(s) for s in shapes]


def corruptions(call, rng):
    """[(kind, sure, corrupted call)].  `sure` = ill-formed by construction under the documented rules (module docstring of
    tools/props/c03.py, docstrings of einx/_src/frontend/ops.py, docs/source/gettingstarted); only then clause (b) is applied."""
    out = []
    desc, shapes, kwargs, fam = call["desc"], call["shapes"], call["kwargs"], call["family"]
    has_ell = "..." in desc
    ins, outs = split_desc(desc)
    size_kw = {k: v for k, v in kwargs.items() if k not in ("keepdims", "shift")}
    # 1/2: number of tensors differs from the number of input expressions
    if shapes:
        out.append(("drop-tensor", True, _with(call, shapes=shapes[:-1])))
    out.append(("add-tensor", True, _with(call, shapes=list(shapes) + [(2,)])))
    # 5: unbalanced delimiter
    present = [i for i, ch in enumerate(desc) if ch in "()[]"]
    if present:
        i = rng.choice(present)
        out.append(("unbalance", True, _with(call, desc=desc[:i] + desc[i + 1:])))
    else:
        out.append(("unbalance", True, _with(call, desc=desc + rng.choice([" )", " ]", " (", " ["]))))
    # 6: second arrow
    out.append(("dup-arrow", True, _with(call, desc=desc.replace("->", "-> ->", 1) if "->" in desc else desc + " -> ->")))
    # 6b: a character outside the documented alphabet (names [a-zA-Z_][a-zA-Z0-9_]*, numbers [0-9]+): one axis name gets a
    # non-ASCII word character appended at every occurrence (the call would be well-formed if the character were allowed),
    # or a number is written with non-ASCII decimal digits
    import re as _re
    names_in_desc = sorted(set(_re.findall(r"[a-zA-Z_][a-zA-Z0-9_]*", desc)))
    if names_in_desc:
        nm = rng.choice(names_in_desc)
        ch = rng.choice(["\u00e9", "\u00b2", "\u00df", "\u4e2d", "\uff21", "\u0663"])
        new_desc = _re.sub(r"(?<![a-zA-Z0-9_])" + _re.escape(nm) + r"(?![a-zA-Z0-9_])", nm + ch, desc)
        kw2 = {(k + ch if k == nm else k): v for k, v in kwargs.items()}
        out.append(("foreign-char", True, _with(call, desc=new_desc, kwargs=kw2)))
    nums = _re.findall(r"(?<![a-zA-Z0-9_])[0-9]+(?![a-zA-Z0-9_])", desc)
    if nums:
        num = rng.choice(nums)
        table = rng.choice([str.maketrans("0123456789", "\u0660\u0661\u0662\u0663\u0664\u0665\u0666\u0667\u0668\u0669"),
                            str.maketrans("0123456789", "\uff10\uff11\uff12\uff13\uff14\uff15\uff16\uff17\uff18\uff19")])
        new_desc = _re.sub(r"(?<![a-zA-Z0-9_])" + num + r"(?![a-zA-Z0-9_])", num.translate(table), desc, count=1)
        out.append(("foreign-digit", True, _with(call, desc=new_desc)))
    if has_ell:
        return out
    sl = slots(call)
    # 3: two occurrences of one axis get different lengths
    by_name = {}
    for s in sl:
        by_name.setdefault(s[2], []).append(s)
    cands = [v for v in by_name.values() if len(v) >= 2 and all(x[3] >= 2 for x in v)]
    if cands:
        occ = rng.choice(cands)
        ti, di, nm, sz = rng.choice(occ)
        out.append(("dim-conflict", True, _with(call, shapes=_set_dim(shapes, ti, di, sz + 1))))
    # 4: flattened dimension not divisible by a given factor
    for ti, e in enumerate(ins):
        dims = top_dims(e)
        if ti >= len(shapes) or len(dims) != len(shapes[ti]):
            continue
        for di, d in enumerate(dims):
            if d.startswith("(") and "+" not in d and "[" not in d:
                members = _NAME.findall(d)
                ks = [size_kw[m] for m in members if m in size_kw and isinstance(size_kw[m], int) and size_kw[m] >= 2]
                if ks:
                    k = ks[0]
                    v = shapes[ti][di] + 1
                    while v % k == 0:
                        v += 1
                    out.append(("non-divisible", True, _with(call, shapes=_set_dim(shapes, ti, di, v))))
                    break
    # 7: remove a size keyword that is the only source of a length
    in_names = set(_NAME.findall(", ".join(ins)))
    top_names = {s[2] for s in sl}
    for nm in sorted(size_kw):
        kw2 = {k: v for k, v in kwargs.items() if k != nm}
        if nm not in in_names and outs is not None and nm in _NAME.findall(", ".join(outs)):
            out.append(("remove-size", True, _with(call, kwargs=kw2)))       # broadcast axis without a size
            break
        # a member of exactly one flattened input group whose other members do not pin it down
        groups = [(ti, di, d) for ti, e in enumerate(ins) for di, d in enumerate(top_dims(e)) if d.startswith("(") and nm in _NAME.findall(d)]
        if len(groups) == 1 and nm not in top_names and "+" not in groups[0][2]:
            ti, di, d = groups[0]
            if ti < len(shapes) and len(top_dims(ins[ti])) == len(shapes[ti]):
                members = _NAME.findall(d)
                if members.count(nm) == 1 and all(sum(1 for e in ins for x in _NAME.findall(e) if x == m) == 1 for m in members):
                    unknown = [m for m in set(members) if m not in kw2 and m not in top_names]
                    known = 1
                    for m in set(members):
                        if m in kw2 and isinstance(kw2[m], int):
                            known *= kw2[m]
                    for num in re.findall(r"(?<![A-Za-z_0-9])\d+", d):
                        known *= int(num)
                    # the result must depend on the factorisation: every unknown member is a dimension of its own in an output
                    # (with `(f c) -> (f c)` the result is the same for every factorisation; that call is not ill-formed)
                    out_top = {d2 for o in (outs or []) for d2 in top_dims(o)}
                    if (len(unknown) >= 2 and known > 0 and shapes[ti][di] % known == 0 and shapes[ti][di] // known >= 2
                            and all(m in out_top for m in unknown)):
                        out.append(("remove-size", True, _with(call, kwargs=kw2)))
                        break
    # 8: contradict a length that the tensor shape fixes
    free = [s for s in sl if s[2] not in kwargs]
    if free:
        ti, di, nm, sz = rng.choice(free)
        out.append(("contradict-size", True, _with(call, kwargs={**kwargs, nm: sz + 1})))
    # 9: an output axis that nothing gives a length to
    if outs is not None:
        oi = rng.randrange(len(outs))
        od = top_dims(outs[oi])
        idx = [i for i, d in enumerate(od) if re.fullmatch(r"[A-Za-z_][A-Za-z0-9_]*", d)]
        if idx and FRESH not in desc:
            i = rng.choice(idx)
            od2 = od[:i] + [FRESH] + od[i + 1:]
            outs2 = outs[:oi] + [" ".join(od2)] + outs[oi + 1:]
            out.append(("fresh-output-axis", True, _with(call, desc=join_desc(ins, outs2))))
    # 11/12: one axis dropped from / duplicated in an input expression (the tensor keeps its rank)
    if shapes:
        ti = rng.randrange(min(len(ins), len(shapes)))
        dims = top_dims(ins[ti])
        if len(dims) == len(shapes[ti]) and dims:
            i = rng.randrange(len(dims))
            ins2 = ins[:ti] + [" ".join(dims[:i] + dims[i + 1:])] + ins[ti + 1:]
            out.append(("drop-axis", True, _with(call, desc=join_desc(ins2, outs))))
            ins3 = ins[:ti] + [" ".join(dims[:i] + [dims[i], dims[i]] + dims[i + 1:])] + ins[ti + 1:]
            out.append(("duplicate-axis", True, _with(call, desc=join_desc(ins3, outs))))
    # 10: brackets where the operation's stated rules forbid them
    if fam == "elementwise":
        dims = top_dims(ins[0])
        idx = [i for i, d in enumerate(dims) if re.fullmatch(r"[A-Za-z_][A-Za-z0-9_]*", d)]
        if idx:
            i = rng.choice(idx)
            ins2 = [" ".join(dims[:i] + [f"[{dims[i]}]"] + dims[i + 1:])] + ins[1:]
            out.append(("brackets-elementwise", True, _with(call, desc=join_desc(ins2, outs))))
    if fam == "id":
        dims = top_dims(ins[0])
        idx = [i for i, d in enumerate(dims) if re.fullmatch(r"[A-Za-z_][A-Za-z0-9_]*", d)]
        if idx:
            i = rng.choice(idx)
            ins2 = [" ".join(dims[:i] + [f"[{dims[i]}]"] + dims[i + 1:])] + ins[1:]
            out.append(("brackets-id", False, _with(call, desc=join_desc(ins2, outs))))
    if fam == "dot" and len(ins) == 2:
        d1 = top_dims(ins[1])
        idx = [i for i, d in enumerate(d1) if re.fullmatch(r"\[[A-Za-z_][A-Za-z0-9_]*\]", d)]
        if idx and FRESH not in desc:
            i = rng.choice(idx)
            ins2 = [ins[0], " ".join(d1[:i] + [f"[{FRESH}]"] + d1[i + 1:])]
            out.append(("dot-contracted-once", True, _with(call, desc=join_desc(ins2, outs))))
    if fam == "preserve_shape" and call["op"] in ("sort", "argsort"):
        dims = top_dims(ins[0])
        idx = [i for i, d in enumerate(dims) if re.fullmatch(r"[A-Za-z_][A-Za-z0-9_]*", d)]
        if idx and sum(1 for d in dims if d.startswith("[")) == 1:
            i = rng.choice(idx)
            ins2 = [" ".join(dims[:i] + [f"[{dims[i]}]"] + dims[i + 1:])]
            outs2 = None if outs is None else [" ".join(f"[{d}]" if d == dims[i] else d for d in top_dims(outs[0]))]
            out.append(("sort-two-brackets", True, _with(call, desc=join_desc(ins2, outs2))))
    if fam == "get_at" and len(ins) == 2:
        d1 = top_dims(ins[1])
        idx = [i for i, d in enumerate(d1) if re.fullmatch(r"\[\d+\]", d)]
        if idx and len(d1) == len(shapes[1]):
            i = idx[0]
            nb = int(d1[i][1:-1])
            ins2 = [ins[0], " ".join(d1[:i] + [f"[{nb + 1}]"] + d1[i + 1:])]
            out.append(("get_at-coordinate-count", True, _with(call, desc=join_desc(ins2, outs), shapes=_set_dim(shapes, 1, i, nb + 1))))
    if fam == "argfind" and outs is not None:
        od = top_dims(outs[0])
        idx = [i for i, d in enumerate(od) if re.fullmatch(r"\[\d+\]", d)]
        if idx:
            i = idx[0]
            nb = int(od[i][1:-1])
            outs2 = [" ".join(od[:i] + [f"[{nb + 1}]"] + od[i + 1:])]
            out.append(("argfind-coordinate-count", True, _with(call, desc=join_desc(ins, outs2))))
    return out


def call_to_example(call):
    dts = ["float64"] + ["int64"] * (len(call["shapes"]) - 1) if call["family"] == "get_at" else ["float64"] * len(call["shapes"])
    return {"fn": call["op"], "desc": call["desc"], "shapes": [tuple(s) for s in call["shapes"]], "dtypes": dts, "kwargs": dict(call["kwargs"])}


# ------------------------------------------------------------------ worker

def _work(item):
    """One chunk of work in a worker process -> (histogram, [(key, example, kind)], [classification records])."""
    kind, payload = item
    hist, bad, seen_cls, samples = {}, {}, {}, []

    def note(ex, r, sure, label):
        h = f"{label}:{r['verdict'] if r['outcome'] == 'raise' else 'ok'}"
        hist[h] = hist.get(h, 0) + 1
        if r["outcome"] == "raise":
            ck = (tuple(r["mro"]), r["origin"], r["file"], r["func"])
            if ck not in seen_cls:
                seen_cls[ck] = r["verdict"]
            if r["verdict"] in ("documented", "argument"):
                hist[f"class:{r['name']}"] = hist.get(f"class:{r['name']}", 0) + 1
        k = finding_key(r, sure)
        if k is not None:
            # clause (b) findings have no raise site: they are kept apart by the stream/corruption kind and the entry point
            # (one known finding must not hide every other ill-formed call that returns a value)
            dk = k + ((label, ex["fn"]) if k[0] in ("b-returned", "b-computed") else ())
            if dk not in bad:
                bad[dk] = (ex, label, {kk: r.get(kk) for kk in ("name", "msg", "verdict", "origin", "file", "func", "raised_in", "log", "outcome")})

    if kind == "strings":
        fns, n_cfg, label, strings, thin = payload
        for s in strings:
            for ex in examples_for_string(s, fns, n_cfg, thin):
                note(ex, run_example(ex), False, label)
    elif kind == "calls":
        import random
        for seed, call in payload:
            rng = random.Random(seed)
            ex = call_to_example(call)
            r = run_example(ex)
            note(ex, r, False, "A-base:" + call["family"])
            hist["A-base-valid"] = hist.get("A-base-valid", 0) + (1 if r["outcome"] == "ok" else 0)
            for ckind, sure, c2 in corruptions(call, rng):
                ex2 = call_to_example(c2)
                r2 = run_example(ex2)
                note(ex2, r2, sure, "A:" + ckind)
                if len(samples) < 3 and rng.random() < 0.15:
                    samples.append({"valid call": fmt_example(ex), "corruption": ckind, "ill-formed by construction": sure, "corrupted call": fmt_example(ex2),
                                    "outcome": r2["outcome"] if r2["outcome"] == "ok" else f"{r2['name']} ({r2['verdict']}) @ {where_of(r2)}",
                                    "numpy calls logged": len(r2["log"])})
    elif kind == "examples":
        for ex, sure, label in payload:
            note(ex, run_example(ex), sure, label)
    return hist, [(k, v[0], v[1], v[2]) for k, v in bad.items()], [(list(k[0]), k[1], k[2], k[3], v) for k, v in seen_cls.items()], samples


# ------------------------------------------------------------------ shrinking and signatures

def fmt_example(ex):
    def shp(s, dt):
        if s == "scalar":
            return "1.0"
        if s is None:
            return "None"
        return ("i8" if dt == "int64" else "f8") + "[" + ",".join(str(int(x)) for x in s) + "]"
    dts = ex.get("dtypes") or []
    parts = [repr(ex["desc"])] + [shp(s, dts[i] if i < len(dts) else "float64") for i, s in enumerate(ex["shapes"])]
    parts += [f"{k}={v!r}" for k, v in sorted(ex.get("kwargs", {}).items())]
    return f"einx.{ex['fn']}(" + ", ".join(parts) + ")"


def shrink_example(ex, key, sure):
    """Smaller example with the same finding key (deterministic)."""
    def fails(e):
        try:
            return finding_key(run_example(e), sure) == key
        except core.MachineryError:
            raise

    if not fails(ex):
        return ex
    cur = dict(ex)
    if key[0] in ("a", "c", "b-log"):
        small = c12.shrink_string(cur["desc"], lambda s: fails({**cur, "desc": s}))
        if fails({**cur, "desc": small}):
            cur["desc"] = small
    # fewer keyword arguments
    for k in sorted(cur.get("kwargs", {})):
        kw = {a: b for a, b in cur["kwargs"].items() if a != k}
        if fails({**cur, "kwargs": kw}):
            cur["kwargs"] = kw
    # fewer / simpler tensors
    changed = True
    while changed:
        changed = False
        for i in range(len(cur["shapes"]) - 1, -1, -1):
            cand = {**cur, "shapes": cur["shapes"][:i] + cur["shapes"][i + 1:], "dtypes": (cur.get("dtypes") or [])[:i] + (cur.get("dtypes") or [])[i + 1:]}
            if fails(cand):
                cur = cand
                changed = True
                break
    for i in range(len(cur["shapes"])):
        s = cur["shapes"][i]
        if s in ("scalar", None):
            continue
        for simpler in ((2,) * len(s), (2,) * (len(s) - 1) if len(s) > 0 else None):
            if simpler is None or tuple(s) == tuple(simpler):
                continue
            cand = {**cur, "shapes": cur["shapes"][:i] + [tuple(simpler)] + cur["shapes"][i + 1:]}
            if fails(cand):
                cur = cand
                s = simpler
    dts = cur.get("dtypes") or []
    if any(d != "float64" for d in dts):
        cand = {**cur, "dtypes": ["float64"] * len(dts)}
        if fails(cand):
            cur = cand
    return cur


def signature(key, ex):
    clause, name, where = key
    if clause == "a":
        return f"{name} @ {where} | {fmt_example(ex)}"
    if clause == "c":
        return f"undocumented {name} @ {where} | {fmt_example(ex)}"
    if clause == "b-returned":
        return f"ill-formed call returned a value | {fmt_example(ex)}"
    if clause == "b-computed":
        return f"ill-formed call reached the backend ({name}) | {fmt_example(ex)}"
    return f"numpy was called before {name} was raised @ {where} | {fmt_example(ex)}"


CLAUSE_TEXT = {
    "a": "clause (a): an internal exception type escaped a public entry point",
    "c": "clause (c): the exception raised is neither one of the six documented einx.errors classes nor a ValueError/TypeError from einx's argument validation",
    "b-returned": "clause (b): a call that is ill-formed by construction returned a value",
    "b-computed": "clause (b): a call that is ill-formed by construction was only rejected by the backend computation (CallOperationError)",
    "b-log": "clause (b): a numpy function was applied to a tensor argument before the call was rejected",
}


# ------------------------------------------------------------------ probes

def probes():
    N = 400
    P = [
        ({"fn": "argmax", "desc": "a", "shapes": [(3,)]}, "D5"),
        ({"fn": "id", "desc": ",b", "shapes": ["scalar", (2, 3)]}, "D5"),
        ({"fn": "solve_axes", "desc": "[a b]...", "shapes": [(2, 3)]}, "D5"),
        ({"fn": "id", "desc": "(f () 1) -> f", "shapes": [(3,)]}, "D5"),
        ({"fn": "id", "desc": "a | a", "shapes": [(3,)]}, "D5-fixed"),
        ({"fn": "id", "desc": "a b, b", "shapes": [(2, 3), (3,)]}, "D5"),
        ({"fn": "get_at", "desc": "[a], p, p -> p", "shapes": [(3,), (4,), (4,)], "dtypes": ["float64", "int64", "int64"]}, "index-count"),
        ({"fn": "set_at", "desc": "[a], p, p, p -> [a]", "shapes": [(3,), (4,), (4,), (4,)], "dtypes": ["float64", "int64", "int64", "float64"]}, "index-count"),
        ({"fn": "id", "desc": "(([a]) + b) -> b", "shapes": [(5,)], "kwargs": {"a": 2}}, "concat-brackets"),
        ({"fn": "id", "desc": "[(a + b)] -> c", "shapes": [(5,)], "kwargs": {"a": 2, "c": 2}}, "concat-brackets"),
        ({"fn": "matches", "desc": "[a b]...", "shapes": [(2, 2)]}, "D5"),
        ({"fn": "solve_axes", "desc": "((2 3)...)", "shapes": [(6,)]}, "unexpanded-ellipsis"),
        ({"fn": "id", "desc": "((1 + 1)...)", "shapes": [(2,)]}, "unexpanded-ellipsis"),
        ({"fn": "id", "desc": "a ((b c)...) -> ((b c)...) a", "shapes": [(2, 6)]}, "unexpanded-ellipsis"),
        ({"fn": "solve_axes", "desc": "...", "shapes": [(2, 3)]}, "D14"),
        ({"fn": "solve_axes", "desc": "(a...)", "shapes": [(24,)]}, "D14"),
        ({"fn": "solve_axes", "desc": "2...", "shapes": [(2, 2, 2)]}, "D14"),
        ({"fn": "solve_axes", "desc": "a b", "shapes": [None], "kwargs": {"a": -1, "b": 2}}, "D13-fixed"),
        ({"fn": "sum", "desc": "[a b]...", "shapes": [(2, 3)]}, "D11"),
        ({"fn": "id", "desc": "(" * N + "a" + ")" * N, "shapes": [(3,)]}, "deep"),
        ({"fn": "id", "desc": "[" * N + "a" + "]" * N, "shapes": [(3,)]}, "deep"),
        ({"fn": "id", "desc": "a" + "..." * N, "shapes": [(3,)]}, "deep"),
        ({"fn": "id", "desc": " ".join(["a"] * 16), "shapes": [(2,) * 16]}, "wide"),
        ({"fn": "id", "desc": "a b -> b a", "shapes": [(2, 3)], "kwargs": {"a": 2.5}}, "kw-type"),
        ({"fn": "id", "desc": "a b -> b a", "shapes": [(2, 3)], "kwargs": {"a": "x"}}, "kw-type"),
        ({"fn": "id", "desc": "a b -> b a", "shapes": [(2, 3)], "kwargs": {"a": [2, 2]}}, "kw-rank"),
        ({"fn": "id", "desc": "a b -> b a", "shapes": [(2, 3)], "kwargs": {"a": 0}}, "kw-zero"),
        ({"fn": "id", "desc": "a b -> b a", "shapes": [(0, 3)]}, "zero-dim"),
        ({"fn": "add", "desc": "a, a", "shapes": [(3,), (1,)]}, "no-broadcast"),
        ({"fn": "sum", "desc": "a [b]", "shapes": [(2, 3)], "kwargs": {"keepdims": True}}, "keepdims"),
        ({"fn": "sum", "desc": "a [b] -> a", "shapes": [(2, 3)], "kwargs": {"keepdims": True}}, "keepdims"),
        ({"fn": "roll", "desc": "a [b]", "shapes": [(2, 3)]}, "missing-kw"),
        ({"fn": "roll", "desc": "a [shift]", "shapes": [(2, 3)], "kwargs": {"shift": 1}}, "kw-name-clash"),
        ({"fn": "where", "desc": "a, a, a", "shapes": [(3,), (3,)]}, "count"),
        ({"fn": "set_at", "desc": "[a], p, p -> [b]", "shapes": [(3,), (2,), (2,)], "dtypes": ["float64", "int64", "float64"]}, "update"),
        ({"fn": "set_at", "desc": "[a] [b], p [3], p", "shapes": [(3, 3), (2, 3), (2,)], "dtypes": ["float64", "int64", "float64"]}, "update"),
        ({"fn": "get_at", "desc": "[a], [b] [c] -> ", "shapes": [(3,), (2, 2)], "dtypes": ["float64", "int64"]}, "get_at"),
        ({"fn": "dot", "desc": "a", "shapes": [(3,)]}, "dot-one"),
        ({"fn": "argmax", "desc": "[a] [b] -> [3]", "shapes": [(2, 3)]}, "argfind"),
        ({"fn": "argmax", "desc": "[a] -> [b]", "shapes": [(3,)]}, "argfind"),
        ({"fn": "argmax", "desc": "[a] -> [1] [1]", "shapes": [(3,)]}, "argfind"),
        ({"fn": "sort", "desc": "a", "shapes": [(3,)]}, "sort"),
        ({"fn": "flip", "desc": "[a] b -> b [a]", "shapes": [(2, 3)]}, "preserve"),
        ({"fn": "softmax", "desc": "[a] -> [b]", "shapes": [(3,)]}, "preserve"),
        ({"fn": "mean", "desc": "(a + b)", "shapes": [(5,)], "kwargs": {"a": 2}}, "concat"),
        ({"fn": "id", "desc": "(a + b) -> a", "shapes": [(5,)], "kwargs": {"a": 2}}, "concat"),
        ({"fn": "id", "desc": "a, b -> (a + b + c)", "shapes": [(2,), (3,)]}, "concat"),
        # the zero-size shortcut of the *_at operations returns the first tensor before the description is looked at
        ({"fn": "set_at", "desc": "b [h] c, p [1], p c -> b [h] c )(", "shapes": [(2, 5, 3), (0, 1), (0, 3)], "dtypes": ["float64", "int64", "float64"]}, "zero-size-shortcut"),
        # rank / repetition-count conflicts between an ellipsis, the tensor ranks and size keywords given for axes under
        # the ellipsis (ill-formed by construction: the keyword tuple or another tensor fixes a count the rank contradicts)
        ({"fn": "id", "desc": "b (s ds)... c -> b s... c ds...", "shapes": [(2, 8, 6, 3)], "kwargs": {"ds": (4, 2, 2)}}, "ellipsis-rank-kw", True),
        ({"fn": "id", "desc": "b (s ds)... c -> b s... c ds...", "shapes": [(2, 8, 6, 4, 4, 3)], "kwargs": {"ds": (4, 2, 2)}}, "ellipsis-rank-kw", True),
        ({"fn": "id", "desc": "b (s ds)... c -> b s... c ds...", "shapes": [(2, 8, 6, 3)], "kwargs": {"ds": (4,)}}, "ellipsis-rank-kw", True),
        ({"fn": "sum", "desc": "a [s...]", "shapes": [(2, 3, 4)], "kwargs": {"s": (3,)}}, "ellipsis-rank-kw", True),
        ({"fn": "sum", "desc": "a [(s t)...]", "shapes": [(2, 6, 4)], "kwargs": {"t": (2, 2, 2)}}, "ellipsis-rank-kw", True),
        ({"fn": "id", "desc": "a s... -> s... a", "shapes": [(2, 3)], "kwargs": {"s": (3, 4)}}, "ellipsis-rank-kw", True),
        ({"fn": "add", "desc": "a s..., s... b", "shapes": [(2, 3, 4), (3, 4, 5, 6)]}, "ellipsis-rank-two-tensors", True),
        ({"fn": "add", "desc": "a (s t)..., s... b", "shapes": [(2, 6, 4), (3, 2, 5, 6)], "kwargs": {"t": 2}}, "ellipsis-rank-two-tensors", True),
        ({"fn": "id", "desc": "a... b... -> b... a...", "shapes": [(2, 3)]}, "ellipsis-underdetermined", True),
        ({"fn": "id", "desc": "(a b)... c... -> c... a... b...", "shapes": [(4, 6, 2)], "kwargs": {"b": 2}}, "ellipsis-underdetermined", True),
        ({"fn": "solve_axes", "desc": "b (s ds)... c", "shapes": [(2, 8, 6, 3)], "kwargs": {"ds": (4, 2, 2)}}, "ellipsis-rank-kw", True),
        ({"fn": "matches", "desc": "a... b...", "shapes": [(2, 3)], "kwargs": {"a": (2, 3, 4)}}, "ellipsis-rank-kw", False),
        # implicit output of an elementwise operation: the input that contains all axes must be unique
        ({"fn": "add", "desc": "a b, b a", "shapes": [(2, 3), (3, 2)]}, "implicit-output-ambiguous", True),
        ({"fn": "multiply", "desc": "a b, (a b)", "shapes": [(2, 3), (6,)]}, "implicit-output-ambiguous", True),
        ({"fn": "where", "desc": "a b, b a, a", "shapes": [(2, 3), (3, 2), (2,)], "dtypes": ["bool", "float64", "float64"]}, "implicit-output-ambiguous", True),
        ({"fn": "add", "desc": "a b c, c b a, b", "shapes": [(2, 3, 4), (4, 3, 2), (3,)]}, "implicit-output-ambiguous", True),
        ({"fn": "add", "desc": "a b, c", "shapes": [(2, 3), (4,)]}, "implicit-output-none", True),
        ({"fn": "solve_shapes", "desc": "a b, ", "shapes": [(2, 3)]}, "solve-count"),
        ({"fn": "solve_axes", "desc": "a -> b", "shapes": [(2,)]}, "solve-arrow"),
        ({"fn": "matches", "desc": "a -> b", "shapes": [(2,)]}, "solve-arrow"),
    ]
    out = []
    for item in P:
        ex, label = item[0], item[1]
        ex.setdefault("kwargs", {})
        ex.setdefault("dtypes", ["float64"] * len(ex["shapes"]))
        # third component (or the zero-size probe, whose description has an unbalanced parenthesis): ill-formed by
        # construction, clause (b) applies (the call must raise and must not compute)
        sure = item[2] if len(item) > 2 else label == "zero-size-shortcut"
        out.append((ex, sure, "P:" + label))
    # the C12 probes (parser extremes) through every stream-B entry point
    for s in c12.PROBES:
        for ex in examples_for_string(s, OPS_B + ["set_at"], 1):
            out.append((ex, False, "P:c12"))
    return out


# ------------------------------------------------------------------ correspondence: ExpressionIndicator model

def _paths(tree_json, limit=12):
    """Paths (lists of child indices) to the root, every Args node and every expression below it, then a few deeper nodes."""
    out = [[]]

    def kids(n):
        if n["t"] in ("flat", "brackets", "ellipsis"):
            return [n["inner"]]
        return n.get("cs", [])

    def go(n, p, depth):
        for i, c in enumerate(kids(n)):
            out.append(p + [i])
            if depth < 3:
                go(c, p + [i], depth + 1)
    go(tree_json, [], 0)
    return out[:limit]


def _follow(node, path):
    for i in path:
        node = node.children[i]
    return node


def indicator_cases(texts, rng):
    """[(request for the driver, real answer)] for strings the real parser accepts."""
    from einx._src.namedtensor import ExpressionIndicator
    s1 = c12._stage1()
    cases = []
    for text in texts:
        try:
            op = s1.parse_op(text)
        except Exception:  # noqa: BLE001
            continue
        tj = c12.tree_json(op)
        paths = _paths(tj)
        names_all = sorted({n.name for n in op.nodes() if isinstance(n, s1.Axis)})
        user_names = [n for n in names_all if not n.startswith("unnamed.")]
        ind = ExpressionIndicator(text)
        for which in ("exprs", "axisnames", "ellipses", "concat", "brackets"):
            for rewrite in ("none", "removeBrackets", "toOutput", "markAxes"):
                if rewrite != "none" and rng.random() < 0.5:
                    continue
                k = rng.randint(1, min(3, len(paths)))
                sel = [paths[0]] if rng.random() < 0.3 else rng.sample(paths, k)
                names = rng.sample(user_names, rng.randint(0, len(user_names))) if user_names else []
                rw_names = rng.sample(user_names, rng.randint(0, len(user_names))) if user_names else []
                try:
                    roots = []
                    for p in sel:
                        node = _follow(s1.parse_op(text), p)   # fresh tree per root: the rewrites re-parent nodes
                        if rewrite == "removeBrackets":
                            node = s1.remove(node, s1.Brackets, keep_children=False)
                        elif rewrite == "toOutput":
                            node = s1.map(node, lambda e: s1.Brackets.create(s1.Axis.create("output.axis")) if isinstance(e, s1.Brackets) else None, include_children=False)
                        elif rewrite == "markAxes":
                            node = s1.map(node, lambda e: s1.Brackets(e) if (isinstance(e, s1.Axis) and e.name not in rw_names) else None, include_children=False)
                        roots.append(node)
                except Exception as e:  # noqa: BLE001 - the real rewrite failed (e.g. constructor assert): skip, not an indicator case
                    continue
                try:
                    if which == "exprs":
                        pos = ind.get_pos_for_exprs(roots)
                    elif which == "axisnames":
                        pos = ind.get_pos_for_axisnames(roots, names)
                    elif which == "ellipses":
                        pos = ind.get_pos_for_ellipses(roots)
                    elif which == "concat":
                        pos = ind.get_pos_for_concat(roots)
                    else:
                        pos = ind.get_pos_for_brackets(roots)
                    real = {"pos": [int(p) for p in pos], "assert": True}
                except AssertionError as e:
                    real = {"pos": None, "assert": False, "msg": str(e)[:80]}
                # the model names unnamed axes by position, the real code by uuid: only user names are selectable
                req = {"kind": "indicator", "text": text, "which": which, "paths": sel, "names": names, "rewrite": rewrite, "rewrite_names": rw_names}
                cases.append((req, real))
    return cases


def check_indicator(ctx, rng, n_grammar, enum_len):
    texts = list(c12.PROBES)
    texts += [s for s in c12.enum_strings([t for t in c12.TOKENS if t != "|"], enum_len)]
    texts += [c12.gen_description(rng) for _ in range(n_grammar)]
    cases = indicator_cases(texts, rng)
    drv = ctx.driver()
    answers = drv.ask_many([c[0] for c in cases])
    bad = 0
    assert_fails = {}
    for (req, real), m in zip(cases, answers):
        ctx.count("indicator_cases")
        ctx.count(f"indicator:{req['which']}:{req['rewrite']}")
        nontrivial = bool(real["pos"]) or not real["assert"]
        ctx.case(("ind", req["text"], req["which"], req["rewrite"], json.dumps(req["paths"]), json.dumps(req["names"])), nontrivial=nontrivial)
        d = None
        if m.get("parse_error"):
            d = "the model rejects a description the real parser accepts"
        elif real["assert"] != m["assert"]:
            d = f"range assert: real {'holds' if real['assert'] else 'FAILS'}, model {'holds' if m['assert'] else 'fails'} (model positions {m['pos']})"
        elif real["assert"] and real["pos"] != m["pos"]:
            d = f"positions differ: real {real['pos']} model {m['pos']}"
        if d is None and not m.get("ellOK", True):
            # `parse_tree_ellipses_ok` is a theorem about the model; a false instance means the driver does not run that model
            ctx.tie_broken("theorem-instance:ellOK", f"ellOK is false for the model's tree of {req['text']!r} (contradicts parse_tree_ellipses_ok)")
        if not real["assert"]:
            # a caret outside the caller's string while reporting an error is itself an AssertionError path: a finding
            # (one per indicator method: the shortest description, whole tree first)
            k = req["which"]
            rank = (len(req["text"]), req["rewrite"] != "none", len(json.dumps(req["paths"])), req["text"], json.dumps(req["paths"]))
            if k not in assert_fails or rank < assert_fails[k][0]:
                assert_fails[k] = (rank, req, real)
        if d is not None:
            bad += 1
            if bad <= 5:
                ctx.tie_broken("correspondence:indicator-model", f"{req}: {d}")
                ctx.sample({"DISAGREEMENT": True, "request": req, "detail": d}, cap=40)
    for k in sorted(assert_fails):
        _, req, real = assert_fails[k]
        ctx.violation(f"ExpressionIndicator.get_pos_for_{k} asserts on a tree of the caller's description | {req['text']!r} paths {req['paths']} rewrite {req['rewrite']}",
                      {"kind": "indicator-assert", "request": req, "real": real,
                       "expected": "every caret position computed from a tree of the caller's own description lies inside the description (indicator_pos_in_range)"})
    # `create`
    from einx._src.namedtensor import ExpressionIndicator
    reqs, want = [], []
    for _ in range(40):
        text = c12.random_string(rng)
        if any(ord(ch) > 0xFFFF or ch in "\n\t" for ch in text):
            continue
        pos = sorted({rng.randint(-2, len(text) + 2) for _ in range(rng.randint(0, 4))})
        reqs.append({"kind": "indicator", "text": text, "which": "create", "pos": pos})
        want.append(ExpressionIndicator(text).create(pos))
    for r, w, m in zip(reqs, want, drv.ask_many(reqs)):
        ctx.count("indicator:create")
        if m["str"] != w:
            bad += 1
            ctx.tie_broken("correspondence:indicator-model", f"create({r['text']!r}, {r['pos']}): real {w!r} model {m['str']!r}")
    # get_pos_for_literal
    reqs, want = [], []
    for _ in range(60):
        text = c12.random_string(rng)
        lit = rng.choice(["->", ",", "...", "a"])
        reqs.append({"kind": "indicator", "text": text, "which": "literal", "literal": lit})
        want.append([int(p) for p in ExpressionIndicator(text).get_pos_for_literal(lit)])
    for r, w, m in zip(reqs, want, drv.ask_many(reqs)):
        ctx.count("indicator:literal")
        if m["pos"] != w:
            bad += 1
            ctx.tie_broken("correspondence:indicator-model", f"get_pos_for_literal({r['literal']!r}) on {r['text']!r}: real {w} model {m['pos']}")
    ctx.extra["indicator_disagreements"] = bad


def check_classification(ctx, records):
    """The verdict computed by the Python mirror in the workers must be the verdict of the Lean `classify`."""
    if not records:
        return
    drv = ctx.driver()
    reqs = [{"kind": "classify", "mro": r[0], "origin": r[1], "file": r[2], "func": r[3]} for r in records]
    for r, m in zip(records, drv.ask_many(reqs)):
        ctx.count("classify_cases")
        if m["verdict"] != r[4]:
            ctx.tie_broken("correspondence:classification", f"{r[0][0]} origin={r[1]} {r[2]}:{r[3]}: harness {r[4]}, Lean {m['verdict']}")


# ------------------------------------------------------------------ run

def _chunks(xs, n):
    for i in range(0, len(xs), n):
        yield xs[i:i + n]


def run(ctx):
    rng = ctx.rng
    quick = ctx.quick
    import einx  # noqa: F401 - imported before the worker processes are forked
    einx_root()
    # a proof obligation or tie is broken: search with a larger budget (DESIGN.md 2.4); in the quick tier that is the full
    # (un-thinned) short-string stream and four times the random budget, not the thorough enumeration
    intensive = bool(ctx.broken) and quick
    big = not quick

    ctx.extra["rule"] = (
        "search cases: P = fixed probes; A = calls from lib/gen.py, each followed by its single-edit corruptions (drop/add a tensor, unbalance a delimiter, second '->', "
        "two occurrences of an axis with different lengths, flattened dimension not divisible by a given factor, size keyword removed/contradicted, fresh output axis, "
        "axis dropped/duplicated, brackets the family forbids); B = every concatenation of at most L tokens of {a b 1 2 ( ) [ ] ... -> , + space |} (L=3 quick, 4 thorough) through "
        f"{', '.join(OPS_B)} with tensors of the rank the expression suggests and of fixed ranks; C = random strings over notation tokens / ASCII / non-ASCII and grammar-generated "
        "descriptions through the same entry points.  correspondence cases: ExpressionIndicator model vs real on parser output, sub-expressions and _parse_op's rewrites. "
        "evaluations = calls of a public entry point + indicator cases; non-trivial = the call got past the lexer (not a lexer SyntaxError) or the indicator returned a caret; distinct = distinct (entry point, description, shapes, kwargs)")
    ctx.assumptions.append("numpy calls made on tensor arguments are observed through __array_function__/__array_ufunc__ of an ndarray subclass; attribute reads (.shape, .dtype) are not computation")
    ctx.assumptions.append("ValueError/TypeError are 'documented' only when raised by a raise statement of einx's argument-validation functions (Einx.Errors.argSites) or by the interpreter's call protocol")
    ctx.assumptions.append("only the numpy backend is installed; OperationNotSupportedError/BackendResolutionError paths of other frameworks are not exercised")

    # ---- correspondence
    timing = {}
    ctx.extra["timing_s"] = timing
    t0 = time.time()
    if ctx.driver_ok:
        check_indicator(ctx, rng, 250 if not big else 4000, 3 if not big else 4)
    timing["indicator"] = round(time.time() - t0, 1)
    # ---- stream R: defect-by-construction inputs for the rejection theorems (Props/C03Reject.lean, Props/C03Elab.lean)
    tr = time.time()
    c03_rules.run(ctx, sys.modules[__name__], (60 if intensive else 14) if not big else 300)
    timing["rules"] = round(time.time() - tr, 1)
    t1 = time.time()

    # ---- work items
    items = []
    items.append(("examples", probes()))
    n_calls = (480 if intensive else 120) if not big else 3000
    calls = []
    for _ in range(n_calls):
        calls.append((rng.getrandbits(32), gen.gen_call(rng)))
    for ch in _chunks(calls, 10):
        items.append(("calls", ch))
    L = 3 if not big else 4
    n_cfg = (3 if intensive else 2) if not big else 3
    strings = list(c12.enum_strings(c12.TOKENS, L))
    for ch in _chunks(strings, 120):
        items.append(("strings", (OPS_B, n_cfg, "B", ch, not big and not intensive)))
    n_rand = (1400 if intensive else 350) if not big else 12000
    rand = [c12.random_string(rng) for _ in range(n_rand)] + [c12.gen_description(rng) for _ in range(n_rand)]
    for ch in _chunks(rand, 100):
        items.append(("strings", (OPS_B, 1, "C", ch, not big and not intensive)))

    nproc = min(16 if (big or intensive) else 12, os.cpu_count() or 2)
    mp = multiprocessing.get_context("fork")
    findings = {}     # key -> (example, label, info)
    cls_records = {}
    with mp.Pool(nproc) as pool:
        for hist, bad, cls, smp in pool.imap(_work, items, chunksize=1):
            for x in smp:
                ctx.sample(x, cap=12)
            for k, v in hist.items():
                ctx.count(k, v)
            for key, ex, label, info in bad:
                key = tuple(key)
                if key not in findings:
                    findings[key] = (ex, label, info)
            for r in cls:
                cls_records.setdefault((tuple(r[0]), r[1], r[2], r[3]), r[4])
    timing["search"] = round(time.time() - t1, 1)
    # every work item is a distinct (entry point, description, shapes, kwargs); workers ship back histograms, not cases
    n_calls_total = sum(v for k, v in ctx.hist.items() if k.split(":")[0] in ("A", "B", "C", "A-base") or k.startswith("P:"))
    ctx.evaluations += n_calls_total
    ctx.extra["entry_point_calls"] = n_calls_total
    ctx.extra["traces_validated_against_impl"] = n_calls_total + ctx.hist.get("indicator_cases", 0)
    # non-trivial calls: those that got past the lexer/parser (anything but a SyntaxError)
    ctx.nontrivial.update(f"call#{i}" for i in range(max(0, n_calls_total - ctx.hist.get("class:SyntaxError", 0))))

    if ctx.driver_ok:
        check_classification(ctx, [(list(k[0]), k[1], k[2], k[3], v) for k, v in sorted(cls_records.items())])

    # ---- report
    t2 = time.time()
    for dkey in sorted(findings):
        ex, label, info = findings[dkey]
        key = dkey[:3]
        sure = key[0].startswith("b-re") or key[0] == "b-computed"
        small = shrink_example(ex, key, sure)
        r = run_example(small)
        sig = signature(key, small)
        ctx.violation(sig, {"kind": "call", "clause": CLAUSE_TEXT[key[0]], "key": list(key), "example": small, "call": fmt_example(small), "found_as": fmt_example(ex),
                            "stream": label, "observed": {k: r.get(k) for k in ("outcome", "name", "msg", "verdict", "origin", "file", "func", "raised_in", "log")},
                            "expected": "raises one of einx.errors.{SyntaxError,RankError,AxisSizeError,SemanticError,OperationNotSupportedError,BackendResolutionError} "
                                        "or a ValueError/TypeError from argument validation, before any numpy call on the arguments"})
    timing["shrink"] = round(time.time() - t2, 1)
    for k in sorted(ctx.hist):
        if k.startswith("class:"):
            ctx.sample({"class raised (documented/argument verdicts)": k[6:], "times": ctx.hist[k]}, cap=30)
    ctx.extra["distinct_finding_keys"] = [list(k) for k in sorted(findings)]


def replay(ctx, path):
    with open(path) as f:
        doc = json.load(f)
    r = doc["replay"]
    print(json.dumps(r, indent=1, default=str)[:3000])
    if r.get("kind") == "call":
        ex = r["example"]
        ex["shapes"] = [s if s in ("scalar", None) else tuple(s) for s in ex["shapes"]]
        key = tuple(r["key"])
        sure = key[0].startswith("b-re") or key[0] == "b-computed"
        now = run_example(ex)
        print("now:", {k: now.get(k) for k in ("outcome", "name", "msg", "verdict", "origin", "file", "func", "log")})
        still = finding_key(now, sure) is not None
        print("replay: the real code", "still violates the property" if still else "no longer fails", "on this input")
        return 1 if still else 0
    if r.get("kind") == "rule-call":
        return c03_rules.replay(sys.modules[__name__], r)
    if r.get("kind") == "indicator-assert":
        cases = indicator_cases([r["request"]["text"]], ctx.rng)
        still = any(not real["assert"] for _, real in cases)
        print("replay: an indicator assert", "still fires" if still else "no longer fires (on the sampled roots)")
        return 1 if still else 0
    print("replay: nothing to re-run for this record")
    return 0
