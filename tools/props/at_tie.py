"""T-str tie of the lowering models `AtLower.lowerGetAt` / `AtLower.lowerUpdate` (lean/EinxModel/Update/LowerProg.lean; the
latter calls the C16 model of `_join_exprs`) with really traced graphs (stream `at_model`, run by the checks of C14 and C01).

For hand-written and generated get_at / set_at / add_at / subtract_at calls on the numpy backend the call is traced (graph
before optimisation, captured from outside einx).  einx's solved stage-3 expressions and the serialised graph go to the Lean
driver (kind `lower_at`), which runs the model **on the expressions alone** and compares its complete instruction list with
the translation of the traced graph.  The graph of an update contains one in-place numpy call (`np.put`, `np.add.at`,
`np.subtract.at`), which the IR of the validator does not have; the harness cuts the graph there:

    head  = everything before the in-place call, with the three operands of the call as outputs,
    prim  = the dotted name of the called function,
    tail  = everything after it, with the result of the call as the only input.

The model emits the same three parts.  The driver also reports, per call, whether the description satisfies the decidable
hypotheses of `lower_update_correct` / `lower_get_at_correct` (Props/C14Join.lean) and recomputes with the proved validator
that the model's index operand is the row-major address of the coordinates (`idx_instance`), that the update operand is the
update tensor re-arranged to `expr_intermediate` (`upd_instance`), resp. that the get_at program equals `denoteGetAt`
syntactically (`instance`).

Coordinate dtype (`Props/C14Dtype.lean`): every traced `np.arange` must be created with the dtype the extractor read from
`_ravel` (`Extracted.arangeDtype`, the fallback literal of `coord_dtype`), whatever the dtype of the coordinate arrays is; the
stream traces every description a second time with int8 coordinates.

A disagreement is a broken tie (`ctx.tie_broken`), not a violation by itself.
"""
import json
import random

import numpy as np

from lib import graphcap

# (op, description, shapes of target / coordinates… / updates (get_at: no updates), keyword sizes)
EXTRA = [
    ("get_at", "a [b c], a p [2] -> a p", [(2, 3, 4), (2, 5, 2)], {}),
    ("get_at", "a [b c], p, q a -> p a q", [(2, 3, 4), (5,), (3, 2)], {}),
    ("get_at", "[b] a [c], p [2] -> p a", [(3, 2, 4), (5, 2)], {}),
    ("get_at", "a [b], p [1] -> a p", [(2, 3), (5, 1)], {}),
    ("get_at", "a [b] 1, p 1 -> p a", [(2, 3, 1), (5, 1)], {}),
    ("get_at", "(a b) [c], b p -> p a b", [(6, 4), (3, 5)], {"a": 2}),
    ("get_at", "[b], p -> p q", [(3,), (5,)], {"q": 2}),
    ("get_at", "a [b c], [2] -> a", [(2, 3, 4), (2,)], {}),
    ("get_at", "[h], -> ", [(3,), ()], {}),
    ("set_at", "a [b c], a p [2], p -> a [b c]", [(2, 3, 4), (2, 5, 2), (5,)], {}),
    ("add_at", "a [b c], p, q, p -> a [b c]", [(2, 3, 4), (5,), (2,), (5,)], {}),
    ("add_at", "[h], p q, q p -> [h]", [(4,), (2, 3), (3, 2)], {}),
    ("subtract_at", "[h] a, p a, p -> [h] a", [(4, 2), (3, 2), (3,)], {}),
    ("set_at", "[h], p [1], p e -> [h]", [(4,), (3, 1), (3, 2)], {}),
    ("add_at", "b [h w] c, b q [2], b q -> b [h w] c", [(2, 3, 2, 2), (2, 3, 2), (2, 3)], {}),
    ("add_at", "(a b) [h], b p, p (a b)", [(6, 4), (3, 5), (5, 6)], {"a": 2}),
    ("set_at", "a [h] 1, p, p a -> a [h] 1", [(2, 3, 1), (4,), (4, 2)], {}),
    ("add_at", "[h w], [2], ", [(3, 2), (2,), ()], {}),
    ("set_at", "a [h], a q, a q", [(3, 4), (3, 2), (3, 2)], {}),
]

INPLACE = {"put": "numpy.put", "add.at": "numpy.add.at", "subtract.at": "numpy.subtract.at"}


def _fn_names(apps):
    """tracer id -> dotted name, for the import / getattr applications of a graph"""
    name = {}
    for a in apps:
        if a["kind"] == "import":
            name[a["out"]["id"]] = a["import"]
        elif a["kind"] == "getattr" and a["obj"].get("t") == "ref" and a["obj"]["id"] in name:
            name[a["out"]["id"]] = name[a["obj"]["id"]] + "." + a["key"]
    return name


def cut_update_graph(gj):
    """(head graph, dotted name of the in-place primitive, tail graph) or None"""
    apps = gj["apps"]
    pos = [k for k, a in enumerate(apps) if a["kind"] == "call_inplace"]
    if len(pos) != 1:
        return None
    k = pos[0]
    call = apps[k]
    names = _fn_names(apps)
    fid = call["function"].get("id")
    prim = names.get(fid, "?")
    if len(call["args"]) != 3 or call.get("kwargs"):
        return None
    # the getattr chain `np.add` -> `.at` is not a primitive of the translator: leave out getattrs on non-modules
    def keep(a):
        return not (a["kind"] == "getattr" and names.get(a["obj"].get("id")) not in ("numpy",))
    head = dict(gj)
    head["apps"] = [a for a in apps[:k] if keep(a)]
    head["top"] = dict(gj["top"], output={"t": "tuple", "v": list(call["args"])})
    tail = dict(gj)
    rid = call["out"]["id"]
    tail["apps"] = [a for a in apps[:k] if a["kind"] in ("import", "getattr") and keep(a)] + apps[k + 1:]
    tail["top"] = dict(gj["top"], inputs=[rid])
    return head, prim, tail


def arange_dtypes(gj):
    names = _fn_names(gj["apps"])
    out = []
    for a in gj["apps"]:
        if a["kind"] == "call" and names.get(a["function"].get("id")) == "numpy.arange":
            d = [v for k, v in a.get("kwargs", []) if k == "dtype"]
            out.append(d[0].get("v") if d else None)
    return out


def _arrays(op, shapes, rng, coord_dtype):
    """target, coordinates (in range is irrelevant for tracing), updates"""
    n = len(shapes)
    last = n if op == "get_at" else n - 1
    arrs = [np.zeros(shapes[0], dtype=np.int64)]
    for s in shapes[1:last]:
        arrs.append(np.zeros(s, dtype=coord_dtype))
    if op != "get_at":
        arrs.append(np.ones(shapes[-1], dtype=np.int64))
    return arrs


def trace(op, desc, shapes, kwargs, coord_dtype="int64"):
    import einx
    graphcap.clear_caches()
    with graphcap.capture() as cap:
        getattr(einx, op)(desc, *_arrays(op, shapes, None, coord_dtype), backend="numpy", graph=True, **kwargs)
    if not cap.records or not cap.records[-1]["solved"] or cap.records[-1]["pre"] is None:
        return None
    rec = cap.records[-1]
    ei, eo = rec["solved"][-1]
    gj, _ = graphcap.graph_to_json(rec["pre"])
    return ei, eo, gj


def from_update_case(c14, case):
    """(op, description, shapes, kwargs) of a generated C14 case"""
    shapes = [tuple(case["tdata"].shape)] + [tuple(c.shape) for c in case["cdata"]] + [tuple(case["udata"].shape)]
    kwargs = {k: v for k, v in case["sizes"].items() if not k.endswith("'")}
    return shapes, kwargs


def at_tie(ctx, n, calls=(), arange_dtype="int32", prefix="at", only=None):
    """`calls`: further (op, description, shapes, kwargs) produced by the caller's generator; `only`: restrict the hand-written
    calls to one family ("get_at" | "update"); `arange_dtype=None`: no dtype comparison."""
    drv = ctx.driver()
    rng = random.Random(f"at_tie:{ctx.seed}")
    extra = [c for c in EXTRA if only is None or (c[0] == "get_at") == (only == "get_at")]
    todo = extra + list(calls)
    done = 0
    for op, desc, shapes, kwargs in todo:
        if done >= n + len(extra):
            break
        fam = "get_at" if op == "get_at" else "update"
        where = f"einx.{op}({desc!r}) shapes={shapes} kwargs={kwargs}"
        try:
            tr = trace(op, desc, shapes, kwargs)
        except Exception as ex:
            ctx.count(f"{prefix}:{fam}:raises-" + type(ex).__name__)
            continue
        if tr is None:
            ctx.count(f"{prefix}:no-capture")
            continue
        ei, eo, gj = tr
        req = {"kind": "lower_at", "family": fam, "op": op, "exprs_in": ei, "exprs_out": eo}
        if fam == "get_at":
            req["graph"] = gj
        else:
            cut = cut_update_graph(gj)
            if cut is None:
                ctx.tie_broken(f"correspondence:{prefix}-model", f"{where}: the traced graph does not contain exactly one in-place call with three operands")
                continue
            req["graph"], req["prim"], req["tail"] = cut
        r = drv.ask(req)
        if "err" in r["model"]:
            err = r["model"]["err"]
            if err.startswith("unsupported"):
                ctx.count(f"{prefix}:{fam}:model-{err[:44]}")
            else:
                ctx.tie_broken(f"correspondence:{prefix}-model", f"{where}: the model fails ({err}) on a call that einx lowers")
                ctx.count(f"{prefix}:{fam}:MODEL-ERROR")
            continue
        if "real" not in r or "ok" not in r["real"] and "head" not in r["real"]:
            ctx.count(f"{prefix}:{fam}:real-untranslatable")
            ctx.notes.append(f"{prefix}: {where}: traced graph not translated: {json.dumps(r.get('real'))[:160]}")
            continue
        if not r["equal"]:
            ctx.tie_broken(f"correspondence:{prefix}-model",
                           f"{where}: model {json.dumps(r['model'])[:700]} vs traced graph {json.dumps(r['real'])[:700]}")
            ctx.count(f"{prefix}:{fam}:DIFF")
            continue
        ctx.count(f"{prefix}:{fam}:equal")
        ctx.extra["graphs_validated"] = ctx.extra.get("graphs_validated", 0) + 1
        done += 1
        # hypotheses of the theorems and recomputed instances
        if fam == "get_at":
            ctx.count(f"{prefix}:get_at:" + ("in-domain-of-theorem" if r.get("desc_domain") else "outside-domain-of-theorem"))
            if not r.get("instance"):
                ctx.tie_broken(f"model:{prefix}_get_at-instance", f"{where}: the validator rejects the model's program against denoteGetAt")
        else:
            ind = r.get("desc_domain")
            ctx.count(f"{prefix}:update:" + ("in-domain-of-theorem" if ind else "outside-domain-of-theorem"))
            if ind and not r.get("desc_covered"):
                ctx.tie_broken(f"model:{prefix}_desc_covered", f"{where}: the description is in the domain but its solved operation is not covered")
            for key in ("idx_instance", "upd_instance"):
                if r.get(key):
                    ctx.count(f"{prefix}:update:{key}")
                else:
                    ctx.count(f"{prefix}:update:{key}-not-recomputed")
                    if ind:
                        ctx.tie_broken(f"model:{prefix}_update-{key}", f"{where}: the validator rejects the model's {key[:3]} operand against the denotation")
        # coordinate dtype: the index ranges are created with the extracted dtype, whatever the coordinates' dtype is
        dts = set(arange_dtypes(gj))
        try:
            tr8 = trace(op, desc, shapes, kwargs, coord_dtype="int8")
            if tr8 is not None:
                dts |= set(arange_dtypes(tr8[2]))
        except Exception as ex:
            ctx.count(f"{prefix}:int8-trace-raises-" + type(ex).__name__)
        for d in sorted(dts, key=str):
            ctx.count(f"{prefix}:arange-dtype:{d}")
            if arange_dtype is not None and d != arange_dtype:
                ctx.tie_broken(f"correspondence:{prefix}-arange-dtype",
                               f"{where}: np.arange is traced with dtype={d!r}, the extracted index dtype is {arange_dtype!r}")
    ctx.extra[f"{prefix}_descriptions"] = done
    return done
