"""C08 — results depend on axis names/positions only as the notation says (equivariance).

Proof: Props/C08.lean on the functional loop-notation denotation (Denote/Fun.lean): `pos_rename`,
`denote_rename`, `pos_flat_is_ravel`, `denote_regroup*`, `denote_permute_input/output` (with numpy's
transpose plan), `id_inverse`, `id_compose`.
Tie (model-internal): kind `denote_fun` runs the functional form next to the loop form of Denote/Expr.lean
on the solved expressions of every concatenation-free id/elementwise call seen here and compares the
symbolic results cell by cell (`correspondence:denote-fun-vs-loop`).
Tie (model vs einx): the relations below are also evaluated on the Lean denotation (driver) with the solved
expressions captured from einx; model and einx must agree on every related call
(`correspondence:model-vs-einx`) and the relation must hold in the model (`correspondence:model-relation`).
Search (oracle-free, metamorphic, on the real code; all op families, the numpy backends, integer iota and
random data, floats only through allclose):
  R1 consistent renaming (names that sort differently / swap of two names / fresh long names) => same result
  R2 permute the un-bracketed root dimensions of one input expression + np.transpose of that argument => same
  R3 permute the un-bracketed root dimensions of one output expression => np.transpose of the result
  R4 wrap adjacent root dimensions of an input (output) in parentheses + reshape the argument (result) => same
  R5 id(e1->e2) then id(e2->e1) is the identity (same leaf axes, no repeats/broadcast)
  R6 id(e1->e2); id(e2->e3) equals id(e1->e3)
A violated relation is shrunk (fewer axes, smaller sizes) and reported with the pair/triple of calls.
"""
import json
import random
import re
import warnings

import numpy as np

from lib import core, gen, oracle, graphcap

EXTRACTORS = []
# further property file of C08 (work package c08): Props/C08b.lean is built and audited with C08
EXTRA_PROPS = ["C08b", "C08c"]
BACKENDS = [None, "numpy", "numpy.numpylike", "numpy.einsum"]
RELS = ["R1", "R2", "R3", "R4", "R5", "R6"]
LEAN_EW = ("add", "subtract", "multiply", "maximum", "minimum")
LEAN_RED = ("sum", "max", "min")
NAME_RE = re.compile(r"[A-Za-z_][A-Za-z0-9_]*")


_RESCANS = [0, 25]


class Skip(Exception):
    """The relation is not applicable to this call (not a failure)."""


# ---------------------------------------------------------------- description surgery

def split_top(s, sep):
    """Split at separator `sep` (a string) at bracket depth 0."""
    out, depth, cur, i = [], 0, [], 0
    while i < len(s):
        ch = s[i]
        if ch in "([":
            depth += 1
        elif ch in ")]":
            depth -= 1
        if depth == 0 and s.startswith(sep, i):
            out.append("".join(cur))
            cur = []
            i += len(sep)
            continue
        cur.append(ch)
        i += 1
    out.append("".join(cur))
    return out


def parse_desc(desc):
    if "->" in desc:
        l, r = desc.split("->")
        outs = [e.strip() for e in split_top(r, ",")]
    else:
        l, outs = desc, None
    ins = [e.strip() for e in split_top(l, ",")]
    return ins, outs


def join_desc(ins, outs):
    return ", ".join(ins) + ("" if outs is None else " -> " + ", ".join(outs))


def root_dims(expr):
    return [d for d in split_top(expr.strip(), " ") if d != ""]


def names_of(s):
    return NAME_RE.findall(s)


def rename_str(s, table):
    return NAME_RE.sub(lambda m: table.get(m.group(0), m.group(0)), s)


def delete_name(expr, name):
    """Remove every occurrence of axis `name` from an expression string; drop emptied groups."""
    toks = re.findall(r"[A-Za-z_][A-Za-z0-9_]*|\d+|\.\.\.|[()\[\]+]", expr)
    toks = [t for t in toks if t != name]
    changed = True
    while changed:
        changed = False
        for i in range(len(toks) - 1):
            if (toks[i], toks[i + 1]) in (("(", ")"), ("[", "]")):
                del toks[i:i + 2]
                changed = True
                break
    out = ""
    for t in toks:
        if t in ")]":
            out = out.rstrip(" ") + t + " "
        elif t in "([":
            out += t
        else:
            out += t + " "
    return out.strip()


def leaf_sizes(solved):
    """name -> size over the captured solved expressions of a call."""
    sizes = {}

    def go(e):
        if e["k"] == "axis":
            sizes[e["name"]] = int(e["value"])
        elif e["k"] in ("list", "concat"):
            for c in e["c"]:
                go(c)
        else:
            go(e["c"])
    for e in solved[0] + solved[1]:
        go(e)
    return sizes


# ---------------------------------------------------------------- running

def run_call(call, args, backend, capture=True):
    """-> (list of result arrays, solved | None)."""
    import einx
    b = backend if backend is not None else call.get("backend")
    if capture:
        res, rec = oracle.run_captured(call, args, backend=b)
        if (rec is None or not rec["solved"]) and _RESCANS[0] < _RESCANS[1]:
            # a cache created after graphcap's first scan served the call: rescan and trace again
            _RESCANS[0] += 1
            graphcap.clear_caches(rescan=True)
            res, rec = oracle.run_captured(call, args, backend=b)
        solved = rec["solved"][-1] if rec is not None and rec["solved"] else None
    else:
        res, solved = oracle.run_einx(call, args, backend=b), None
    res = list(res) if isinstance(res, (tuple, list)) else [res]
    return [np.asarray(r) for r in res], solved


def same_all(a, b):
    return len(a) == len(b) and all(oracle.same(x, y) for x, y in zip(a, b))


def tens(a):
    a = np.asarray(a)
    return {"shape": [int(s) for s in a.shape], "data": [int(v) for v in a.reshape(-1)]}


def is_concat_free(solved):
    return "concat" not in json.dumps(solved)


def lean_denote(ctx, call, solved, args):
    """Outputs of the Lean denotation (list of arrays) or None when the family is not modelled."""
    if not ctx.driver_ok or solved is None:
        return None
    fam = call["family"]
    # reductions and dot: the executable loop forms Denote.denoteReduce / Denote.denoteDot (driver kind `denote`), which the
    # theorems of Props/C08b.lean are about; integer sum/max/min only (exact in the model; prod could overflow int64 in numpy)
    red = fam == "reduce" and call["op"] in LEAN_RED and len(args) == 1 and not call.get("kwargs", {}).get("keepdims")
    if not (fam == "id" or (fam == "elementwise" and call["op"] in LEAN_EW) or red or fam == "dot"):
        return None
    if fam == "elementwise" and len(args) != 2:
        return None      # the driver's integer interpretation of add/multiply/... is binary; n-ary forms are covered by C01's oracle
    if any(np.asarray(a).dtype.kind not in "iu" for a in args):
        return None
    ei, eo = solved
    # `denote_fun` runs the functional form next to the executable loop form and compares them cell by cell: id (with
    # concatenations: Denote.denoteIdFunG), elementwise, reduce, dot (concatenation-free)
    kind = "denote_fun" if (fam == "id" or is_concat_free(solved)) else "denote"
    if fam in ("reduce", "dot"):
        if not is_concat_free(solved):
            return None
        ctx.count("denote-loop:" + fam)
    if fam == "id" and not is_concat_free(solved):
        ctx.count("denote-fun:id-with-concatenation")
    r = ctx.driver().ask({"kind": kind, "family": fam, "op": call["op"], "exprs_in": ei, "exprs_out": eo, "inputs": [tens(a) for a in args]})
    if kind == "denote_fun":
        ctx.count("denote_fun:" + ("agree" if r.get("agree") else "DISAGREE"))
        ctx.extra["denote_fun_cases"] = ctx.extra.get("denote_fun_cases", 0) + 1
        if not r.get("agree", False):
            ctx.tie_broken("correspondence:denote-fun-vs-loop", f"einx.{call['op']}({call['desc']!r}) shapes={call['shapes']}: {json.dumps(r)[:400]}")
    if "ok" not in r:
        return None
    return [np.asarray(t["data"], dtype=np.int64).reshape(t["shape"]) for t in r["ok"]]


# ---------------------------------------------------------------- transformations (R1-R4) of a generated call

def movable(d):
    return "[" not in d and "]" not in d


def perm_keeping_brackets(trng, dims):
    """A non-identity permutation (numpy convention: new[j] = old[perm[j]]) that keeps the bracketed root
    dimensions in their relative order; None if there is none."""
    n = len(dims)
    if n < 2:
        return None
    for _ in range(20):
        perm = list(range(n))
        trng.shuffle(perm)
        if perm == list(range(n)):
            continue
        fixed = [p for p in perm if not movable(dims[p])]
        if fixed == sorted(fixed):
            return perm
    return None


def t_rename(call, args, solved, trng):
    names = sorted(set(names_of(call["desc"])))
    if not names:
        raise Skip("no names")
    mode = trng.choice(["reverse-sort", "swap", "fresh"])
    if mode == "swap" and len(names) >= 2:
        a, b = trng.sample(names, 2)
        table = {a: b, b: a}
    elif mode == "reverse-sort":
        pool = [f"{c}{c}" for c in "zyxwvutsrqponm"][:len(names)]
        table = dict(zip(names, pool))          # a -> zz, b -> yy, ...: sorted order reversed
    else:
        pool = ["batch_7", "Height", "w", "c2", "_k", "x_long_axis_name", "Q"]
        trng.shuffle(pool)
        table = dict(zip(names, pool))
        mode = "fresh"
    c2 = dict(call)
    c2["desc"] = rename_str(call["desc"], table)
    c2["kwargs"] = {table.get(k, k) if k in names else k: v for k, v in call["kwargs"].items()}
    return c2, list(args), (lambda res: res), {"mode": mode, "table": table}


def t_permute_input(call, args, solved, trng):
    if "..." in call["desc"]:
        raise Skip("ellipsis")
    ins, outs = parse_desc(call["desc"])
    if outs is None and call["family"] != "preserve_shape":
        raise Skip("implicit output follows the input order")
    cands = [i for i, e in enumerate(ins) if len(root_dims(e)) == np.asarray(args[i]).ndim and len(root_dims(e)) >= 2] if len(ins) == len(args) else []
    trng.shuffle(cands)
    for i in cands:
        dims = root_dims(ins[i])
        perm = perm_keeping_brackets(trng, dims)
        if perm is None:
            continue
        ins2 = list(ins)
        ins2[i] = " ".join(dims[p] for p in perm)
        c2 = dict(call)
        c2["desc"] = join_desc(ins2, outs)
        c2["shapes"] = [tuple(np.transpose(np.zeros(s), perm).shape) if j == i else s for j, s in enumerate(call["shapes"])]
        if call["family"] == "get_at" and i >= 1 and call.get("coord_axis_pos") is not None:
            c2["coord_axis_pos"] = perm.index(call["coord_axis_pos"])
        a2 = [np.ascontiguousarray(np.transpose(a, perm)) if j == i and trng.random() < 0.5 else (np.transpose(a, perm) if j == i else a) for j, a in enumerate(args)]
        post = (lambda res: [np.transpose(r, perm) for r in res]) if outs is None else (lambda res: res)
        return c2, a2, post, {"input": i, "perm": perm}
    raise Skip("no permutable input")


def t_permute_output(call, args, solved, trng):
    if "..." in call["desc"]:
        raise Skip("ellipsis")
    ins, outs = parse_desc(call["desc"])
    if outs is None:
        raise Skip("implicit output")
    cands = [k for k, e in enumerate(outs) if len(root_dims(e)) >= 2]
    trng.shuffle(cands)
    for k in cands:
        dims = root_dims(outs[k])
        perm = perm_keeping_brackets(trng, dims)
        if perm is None:
            continue
        if call["family"] == "preserve_shape":
            raise Skip("preserve_shape outputs must keep the bracketed order")
        outs2 = list(outs)
        outs2[k] = " ".join(dims[p] for p in perm)
        c2 = dict(call)
        c2["desc"] = join_desc(ins, outs2)

        def post(res, k=k, perm=perm, n=len(dims)):
            if res[k].ndim != n:
                raise Skip("root dimensions do not correspond to result dimensions")
            return [np.transpose(r, perm) if j == k else r for j, r in enumerate(res)]
        return c2, list(args), post, {"output": k, "perm": perm}
    raise Skip("no permutable output")


def t_regroup(call, args, solved, trng):
    if "..." in call["desc"] or ("+" in call["desc"] and not call.get("regroup_concat")):
        raise Skip("ellipsis/concatenation")
    if solved is None:
        raise Skip("no solved expressions")
    sizes = leaf_sizes(solved)
    ins, outs = parse_desc(call["desc"])
    simple = call["family"] in ("id", "elementwise", "reduce", "dot")
    sides = []
    if len(ins) == len(args):
        sides += [("in", i) for i, e in enumerate(ins) if len(root_dims(e)) == np.asarray(args[i]).ndim]
    if outs is not None:
        sides += [("out", k) for k in range(len(outs))]
    trng.shuffle(sides)
    for side, i in sides:
        dims = root_dims(ins[i] if side == "in" else outs[i])
        starts = [j for j in range(len(dims) - 1) if (simple and side == "in" and call["family"] != "dot") or (movable(dims[j]) and movable(dims[j + 1]))]
        if side == "out":
            starts = [j for j in starts if movable(dims[j]) and movable(dims[j + 1])]
        if not starts:
            continue
        j = trng.choice(starts)
        n = 2 if j + 2 >= len(dims) or trng.random() < 0.6 else 3
        if not all(movable(d) for d in dims[j:j + n]) and not (simple and side == "in"):
            n = 2
        grouped = dims[:j] + ["(" + " ".join(dims[j:j + n]) + ")"] + dims[j + n:]
        c2 = dict(call)
        kw = dict(call["kwargs"])
        if side == "in":
            for nm in names_of(" ".join(dims[j:j + n])):
                if nm in sizes and nm not in kw:
                    kw[nm] = sizes[nm]
            ins2 = list(ins)
            ins2[i] = " ".join(grouped)
            c2["desc"] = join_desc(ins2, outs)
            c2["kwargs"] = kw
            a = np.asarray(args[i])
            newshape = a.shape[:j] + (int(np.prod(a.shape[j:j + n])),) + a.shape[j + n:]
            c2["shapes"] = [newshape if q == i else s for q, s in enumerate(call["shapes"])]
            if call["family"] == "get_at" and i >= 1 and call.get("coord_axis_pos") is not None:
                p = call["coord_axis_pos"]
                c2["coord_axis_pos"] = p if p < j else p - (n - 1)
            a2 = [np.reshape(x, newshape) if q == i else x for q, x in enumerate(args)]
            post = (lambda res: res)
            if outs is None:
                if call["family"] == "preserve_shape":
                    post = lambda res, j=j, n=n: [np.reshape(r, r.shape[:j] + (int(np.prod(r.shape[j:j + n])),) + r.shape[j + n:]) for r in res]
                else:
                    raise Skip("implicit output follows the input")
            return c2, a2, post, {"side": "in", "index": i, "group": [j, n]}
        outs2 = list(outs)
        outs2[i] = " ".join(grouped)
        c2["desc"] = join_desc(ins, outs2)

        def post(res, i=i, j=j, n=n, nd=len(dims)):
            if res[i].ndim != nd:
                raise Skip("root dimensions do not correspond to result dimensions")
            r = res[i]
            return [np.reshape(r, r.shape[:j] + (int(np.prod(r.shape[j:j + n])),) + r.shape[j + n:]) if q == i else x for q, x in enumerate(res)]
        return c2, list(args), post, {"side": "out", "index": i, "group": [j, n]}
    raise Skip("nothing to group")


TRANSFORMS = {"R1": t_rename, "R2": t_permute_input, "R3": t_permute_output, "R4": t_regroup}


def bracket_order_tie(ctx, call, args, res1, solved1, backend, tseed):
    """Tie for Props/C08b `denote_reduce_permute_input` / `denote_reduce_bracket_order`: permute *all* root dimensions of
    the input of a reduction -- bracketed ones included -- and transpose the tensor; einx and the Lean denotation must
    both return the same result.  This goes beyond the property's text (which only moves un-bracketed axes), so a
    difference is recorded as a broken tie, never as a violation by itself."""
    if call["family"] != "reduce" or "..." in call["desc"] or "+" in call["desc"]:
        return
    ins, outs = parse_desc(call["desc"])
    if outs is None or len(ins) != 1 or len(args) != 1:
        return
    dims = root_dims(ins[0])
    if len(dims) != np.asarray(args[0]).ndim or sum(1 for d in dims if not movable(d)) < 2:
        return
    trng = random.Random(tseed ^ 0x5BD1E995)
    perm = list(range(len(dims)))
    trng.shuffle(perm)
    if [p for p in perm if not movable(dims[p])] == sorted(p for p in perm if not movable(dims[p])):
        return      # bracketed dimensions kept their relative order: that is R2
    c2 = dict(call)
    c2["desc"] = join_desc([" ".join(dims[p] for p in perm)], outs)
    c2["shapes"] = [tuple(np.transpose(np.zeros(call["shapes"][0]), perm).shape)]
    a2 = [np.transpose(np.asarray(args[0]), perm)]
    try:
        res2, solved2 = run_call(c2, a2, backend)
    except Exception as e:
        ctx.count(f"reduce-bracket-order:raised:{type(e).__name__}")
        return
    ctx.count("reduce-bracket-order")
    ctx.extra["reduce_bracket_order_cases"] = ctx.extra.get("reduce_bracket_order_cases", 0) + 1
    if not same_all(res2, res1):
        ctx.tie_broken("correspondence:reduce-bracket-order",
                       f"einx.{call['op']}({call['desc']!r}) vs ({c2['desc']!r}) on the transposed tensor (perm {perm}) differ; shapes={call['shapes']}")
    if ctx.driver_ok:
        m1 = lean_denote(ctx, call, solved1, args)
        m2 = lean_denote(ctx, c2, solved2, a2)
        if m1 is not None and m2 is not None:
            ctx.count("reduce-bracket-order:model")
            if not same_all(m2, m1):
                ctx.tie_broken("correspondence:model-relation", f"bracket order: the Lean denotation differs on {call['op']} {call['desc']!r} vs {c2['desc']!r} perm {perm}")
            if not (same_all(m1, res1) and same_all(m2, res2)):
                ctx.tie_broken("correspondence:model-vs-einx", f"bracket order: einx and the Lean denotation differ on {call['op']} {call['desc']!r} / {c2['desc']!r} shapes={call['shapes']}")


def dot_operand_order_tie(ctx, call, args, res1, solved1, backend, tseed):
    """Tie for Props/C08c `denote_dot_permute_input`: permute *all* root dimensions of one operand of a dot -- the
    separately bracketed (contracted) ones included, so that the contracted axes are enumerated in another order -- and
    transpose that operand; einx and the Lean denotation (Denote.denoteDot) must both return the same result.  Like the
    reduce-bracket-order tie this goes beyond the property's text (R2 keeps bracketed axes in order): a difference is a
    broken tie, not a violation by itself."""
    if call["family"] != "dot" or "..." in call["desc"] or "+" in call["desc"]:
        return
    ins, outs = parse_desc(call["desc"])
    if outs is None or len(ins) != len(args):
        return
    cands = [i for i, e in enumerate(ins) if len(root_dims(e)) == np.asarray(args[i]).ndim
             and sum(1 for d in root_dims(e) if not movable(d)) >= 2]
    if not cands:
        return
    trng = random.Random(tseed ^ 0x2545F491)
    i = trng.choice(cands)
    dims = root_dims(ins[i])
    perm = list(range(len(dims)))
    trng.shuffle(perm)
    if [p for p in perm if not movable(dims[p])] == sorted(p for p in perm if not movable(dims[p])):
        perm = perm[::-1]      # reversed: the bracketed dimensions change their relative order
    ins2 = list(ins)
    ins2[i] = " ".join(dims[p] for p in perm)
    c2 = dict(call)
    c2["desc"] = join_desc(ins2, outs)
    c2["shapes"] = [tuple(np.transpose(np.zeros(s), perm).shape) if j == i else s for j, s in enumerate(call["shapes"])]
    a2 = [np.transpose(np.asarray(a), perm) if j == i else a for j, a in enumerate(args)]
    try:
        res2, solved2 = run_call(c2, a2, backend)
    except Exception as e:
        ctx.count(f"dot-operand-order:raised:{type(e).__name__}")
        return
    ctx.count("dot-operand-order")
    ctx.extra["dot_operand_order_cases"] = ctx.extra.get("dot_operand_order_cases", 0) + 1
    if not same_all(res2, res1):
        ctx.tie_broken("correspondence:dot-operand-order",
                       f"einx.dot({call['desc']!r}) vs ({c2['desc']!r}) with operand {i} transposed (perm {perm}) differ; shapes={call['shapes']} backend={backend}")
    if ctx.driver_ok:
        m1 = lean_denote(ctx, call, solved1, args)
        m2 = lean_denote(ctx, c2, solved2, a2)
        if m1 is not None and m2 is not None:
            ctx.count("dot-operand-order:model")
            if not same_all(m2, m1):
                ctx.tie_broken("correspondence:model-relation", f"dot operand order: the Lean denotation differs on dot {call['desc']!r} vs {c2['desc']!r} operand {i} perm {perm}")
            if not (same_all(m1, res1) and same_all(m2, res2)):
                ctx.tie_broken("correspondence:model-vs-einx", f"dot operand order: einx and the Lean denotation differ on dot {call['desc']!r} / {c2['desc']!r} shapes={call['shapes']} backend={backend}")


def check_pair(ctx, rel, call, args, backend, tseed, model=True):
    """Evaluate one of R1-R4 on a base call.  Returns None (holds / not applicable -> Skip raised) or a failure dict."""
    import einx
    trng = random.Random(tseed)
    try:
        res1, solved1 = run_call(call, args, backend)
    except einx.errors.OperationNotSupportedError:
        raise Skip("operation not supported by this backend")
    except Exception as e:
        raise Skip("base call raised " + type(e).__name__)
    if rel == "R2" and model:
        bracket_order_tie(ctx, call, args, res1, solved1, backend, tseed)
        dot_operand_order_tie(ctx, call, args, res1, solved1, backend, tseed)
    c2, a2, post, info = TRANSFORMS[rel](call, args, solved1, trng)
    try:
        res2, solved2 = run_call(c2, a2, backend)
    except einx.errors.OperationNotSupportedError:
        raise Skip("operation not supported by this backend")
    except Exception as e:
        ctx.count(f"{rel}:transformed-raised:{type(e).__name__}")
        raise Skip("transformed call raised " + type(e).__name__)
    want = post(res1)
    fail = None
    if not same_all(res2, want):
        fail = {"kind": "relation violated by einx", "relation": rel, "transform": info,
                "call1": {k: call[k] for k in ("op", "desc", "kwargs")}, "shapes1": [list(np.asarray(a).shape) for a in args],
                "call2": {k: c2[k] for k in ("op", "desc", "kwargs")}, "shapes2": [list(np.asarray(a).shape) for a in a2],
                "backend": backend if backend is not None else call.get("backend"),
                "inputs1": [np.asarray(a).tolist() for a in args], "inputs2": [np.asarray(a).tolist() for a in a2],
                "result1_mapped": [np.asarray(r).tolist() for r in want], "result2": [np.asarray(r).tolist() for r in res2]}
    if model and ctx.driver_ok:
        m1 = lean_denote(ctx, call, solved1, args)
        m2 = lean_denote(ctx, c2, solved2, a2)
        if m1 is not None and m2 is not None:
            ctx.count("model-cross-check")
            ctx.extra["model_cross_checks"] = ctx.extra.get("model_cross_checks", 0) + 1
            model_holds = same_all(m2, post(m1))
            agree1, agree2 = same_all(m1, res1), same_all(m2, res2)
            if not model_holds:
                ctx.tie_broken("correspondence:model-relation", f"{rel} fails on the Lean denotation: {call['op']} {call['desc']!r} vs {c2['desc']!r} {info}")
            if not (agree1 and agree2) and fail is None:
                # einx satisfies the relation but differs from the denotation (C01's business; here: a broken tie)
                ctx.tie_broken("correspondence:model-vs-einx", f"{rel}: einx and the Lean denotation differ on {call['op']} {(call if not agree1 else c2)['desc']!r} shapes={[list(np.asarray(a).shape) for a in (args if not agree1 else a2)]}")
    return fail


# ---------------------------------------------------------------- R5 / R6: chains of rearrangements

def gen_axes(rng):
    n = rng.randint(1, 5)
    names, sizes = gen.pick_axes(rng, n)
    return names, sizes


def rearr(rng, names):
    items = list(names)
    rng.shuffle(items)
    return " ".join(gen.group(rng, items, 0.4))


def group_kwargs(rng, expr, sizes):
    """Sizes einx needs to solve a grouped input expression (all members, or all but one per top-level group)."""
    kw = {}
    for d in root_dims(expr):
        if d.startswith("("):
            members = list(dict.fromkeys(names_of(d)))
            drop = rng.choice(members) if rng.random() < 0.6 else None
            for m in members:
                if m != drop:
                    kw[m] = sizes[m]
    return kw


def id_call(e_in, e_out, sizes, kw):
    return {"op": "id", "family": "id", "desc": f"{e_in} -> {e_out}", "shapes": [gen.shape_of_expr(e_in, sizes)], "kwargs": kw, "note": []}


def check_chain(ctx, rel, exprs, sizes, kws, x, backend, model=True):
    """exprs = [e1, e2] (R5) or [e1, e2, e3] (R6); kws[i] = size kwargs for a call whose input is exprs[i]."""
    e = exprs
    c12 = id_call(e[0], e[1], sizes, kws[0])
    y, s12 = run_call(c12, [x], backend)
    if rel == "R5":
        c21 = id_call(e[1], e[0], sizes, kws[1])
        z, s21 = run_call(c21, y, backend)
        ok = same_all(z, [x])
        calls, last, want, got = [c12, c21], (c21, s21, y), [x], z
    else:
        c23 = id_call(e[1], e[2], sizes, kws[1])
        c13 = id_call(e[0], e[2], sizes, kws[0])
        z, s23 = run_call(c23, y, backend)
        w, s13 = run_call(c13, [x], backend)
        ok = same_all(z, w)
        calls, last, want, got = [c12, c23, c13], (c23, s23, y), w, z
    fail = None
    if not ok:
        fail = {"kind": "relation violated by einx", "relation": rel, "calls": [{k: c[k] for k in ("op", "desc", "kwargs")} for c in calls],
                "sizes": sizes, "backend": backend, "input": np.asarray(x).tolist(), "intermediate": np.asarray(y[0]).tolist(),
                "expected": [np.asarray(r).tolist() for r in want], "observed": [np.asarray(r).tolist() for r in got]}
    if model and ctx.driver_ok and np.asarray(x).dtype.kind in "iu":
        m12 = lean_denote(ctx, c12, s12, [x])
        if m12 is not None:
            m_last = lean_denote(ctx, last[0], last[1], m12)
            if rel == "R6":
                m13 = lean_denote(ctx, calls[2], s13, [x])
            else:
                m13 = [np.asarray(x)]
            if m_last is not None and m13 is not None:
                ctx.count("model-cross-check")
                ctx.extra["model_cross_checks"] = ctx.extra.get("model_cross_checks", 0) + 1
                if not same_all(m_last, m13):
                    ctx.tie_broken("correspondence:model-relation", f"{rel} fails on the Lean denotation: {[c['desc'] for c in calls]} sizes={sizes}")
                if fail is None and not (same_all(m12, y) and same_all(m_last, got)):
                    ctx.tie_broken("correspondence:model-vs-einx", f"{rel}: einx and the Lean denotation differ on {[c['desc'] for c in calls]} sizes={sizes}")
    return fail


def make_x(rng, shape, mode):
    n = int(np.prod(shape)) if len(shape) else 1
    if mode == "iota":
        return np.arange(1, n + 1, dtype=np.int64).reshape(shape)
    if mode == "float":
        return np.asarray([rng.uniform(-3, 3) for _ in range(n)], dtype=np.float64).reshape(shape)
    return np.asarray([rng.randint(-9, 9) for _ in range(n)], dtype=np.int64).reshape(shape)


def chain_instance(rng, rel):
    names, sizes = gen_axes(rng)
    exprs = [rearr(rng, names) for _ in range(2 if rel == "R5" else 3)]
    kws = [group_kwargs(rng, e, sizes) for e in exprs]
    return names, sizes, exprs, kws


def shrink_chain(ctx, rel, names, sizes, exprs, kws, mode, backend):
    """Greedy: delete axes, lower sizes, remove parentheses while the relation stays violated."""
    rng = random.Random(0)

    def fails(names, sizes, exprs):
        kws = [{m: sizes[m] for d in root_dims(e) if d.startswith("(") for m in names_of(d)} for e in exprs]
        try:
            x = make_x(rng, gen.shape_of_expr(exprs[0], sizes), "iota")
            return check_chain(ctx, rel, exprs, sizes, kws, x, backend, model=False)
        except Exception:
            return None
    best = fails(names, sizes, exprs)
    if best is None:
        return None, (names, sizes, exprs)
    progress = True
    while progress:
        progress = False
        for nm in list(names):
            if len(names) > 1:
                ex2 = [delete_name(e, nm) for e in exprs]
                n2 = [x for x in names if x != nm]
                f = fails(n2, sizes, ex2)
                if f is not None:
                    names, exprs, best, progress = n2, ex2, f, True
                    continue
            for v in range(1, sizes[nm]):
                s2 = dict(sizes)
                s2[nm] = v
                f = fails(names, s2, exprs)
                if f is not None:
                    sizes, best, progress = s2, f, True
                    break
        for i in range(len(exprs)):
            flat = " ".join(re.findall(r"[A-Za-z_][A-Za-z0-9_]*", exprs[i]))
            if flat != exprs[i]:
                ex2 = list(exprs)
                ex2[i] = flat
                f = fails(names, sizes, ex2)
                if f is not None:
                    exprs, best, progress = ex2, f, True
    return best, (names, sizes, exprs)


# ---------------------------------------------------------------- shrinking of R1-R4 base calls

def shrink_pair(ctx, rel, call, backend, tseed):
    """Greedy shrink of the base call of a violated R1-R4 relation (concat-/ellipsis-free calls without data-dependent
    arguments): delete axes, lower sizes; the transformation is re-drawn from a few seeds after every step."""
    if "..." in call["desc"] or "+" in call["desc"] or call["family"] == "get_at":
        return None
    rng = random.Random(1)
    try:
        _, solved = run_call(call, gen.make_args(call, rng, "iota"), backend)
    except Exception:
        return None
    if solved is None:
        return None
    allsizes = leaf_sizes(solved)
    names = [n for n in dict.fromkeys(names_of(call["desc"])) if n in allsizes]
    sizes = {n: allsizes[n] for n in names}

    def build(desc, sizes):
        ins, outs = parse_desc(desc)
        if any(e.strip() == "" for e in ins):
            return None
        c = dict(call)
        c["desc"] = desc
        c["shapes"] = [gen.shape_of_expr(e, sizes) for e in ins]
        c["kwargs"] = {k: (sizes[k] if k in sizes else v) for k, v in call["kwargs"].items() if k in sizes or k not in allsizes}
        return c

    def fails(c):
        if c is None:
            return None
        for s in [tseed] + list(range(6)):
            try:
                f = check_pair(ctx, rel, c, gen.make_args(c, random.Random(2), "iota"), backend, s, model=False)
            except Skip:
                continue
            except Exception:
                continue
            if f is not None:
                return f
        return None
    cur = build(call["desc"], sizes)
    best = fails(cur)
    if best is None:
        return None
    progress = True
    while progress:
        progress = False
        for nm in list(names):
            if len(names) > 1:
                ins, outs = parse_desc(cur["desc"])
                d2 = join_desc([delete_name(e, nm) for e in ins], None if outs is None else [delete_name(e, nm) for e in outs])
                s2 = {k: v for k, v in sizes.items() if k != nm}
                c = build(d2, s2)
                f = fails(c)
                if f is not None:
                    cur, best, sizes, progress = c, f, s2, True
                    names = [x for x in names if x != nm]
                    continue
            for v in range(1, sizes[nm]):
                s2 = dict(sizes)
                s2[nm] = v
                c = build(cur["desc"], s2)
                f = fails(c)
                if f is not None:
                    cur, best, sizes, progress = c, f, s2, True
                    break
    return best


def sig_pair(f):
    return (f"{f['relation']}: einx.{f['call1']['op']}({f['call1']['desc']!r}) shapes={f['shapes1']} kwargs={sorted((k, str(v)) for k, v in f['call1']['kwargs'].items())}"
            f" vs einx.{f['call2']['op']}({f['call2']['desc']!r}) shapes={f['shapes2']} backend={f['backend']}")


def sig_chain(f):
    return f"{f['relation']}: " + " ; ".join(f"einx.id({c['desc']!r})" for c in f["calls"]) + f" sizes={sorted(f['sizes'].items())} backend={f['backend']}"


def gen_dot_batched(rng):
    """dot with two or three batch axes (in both operands and the output), operands in different axis orders: the
    case in which the order of the batch axes chosen for the intermediate matters."""
    names, sizes = gen.pick_axes(rng, rng.randint(3, 6))
    nb = rng.randint(2, min(3, len(names) - 1))
    batch, rest = names[:nb], names[nb:]
    contracted = [rest[0]]
    keep1 = [x for x in rest[1:] if rng.random() < 0.5]
    keep2 = [x for x in rest[1:] if x not in keep1]
    s1, s2, out = batch + contracted + keep1, batch + contracted + keep2, batch + keep1 + keep2
    for l in (s1, s2, out):
        rng.shuffle(l)
    br = rng.random() < 0.5
    f = (lambda l: " ".join(f"[{x}]" if x in contracted else x for x in l)) if br else (lambda l: " ".join(l))
    return {"op": "dot", "family": "dot", "desc": f"{f(s1)}, {f(s2)} -> {' '.join(out)}", "shapes": [tuple(sizes[x] for x in s1), tuple(sizes[x] for x in s2)],
            "kwargs": {}, "note": ["batched"], "backend": rng.choice([None, "numpy.numpylike", "numpy.numpylike", "numpy.numpylike", "numpy.einsum"])}


def gen_id_cse(rng):
    """id whose input has a group `(… r1 r2 …)` of which only the other members' sizes are given, while `r1 r2`
    re-appears as an adjacent run inside a group of the output: solvable only because einx's common-subexpression
    step replaces the run by one axis `cse.<n>` -- the case in which that internal name could leak."""
    names, sizes = gen.pick_axes(rng, rng.randint(3, 5))
    run, others = names[:2], names[2:]
    k = rng.randint(1, len(others))
    inside, outside = others[:k], others[k:]
    members = [[x] for x in inside] + [run]
    rng.shuffle(members)
    in_dims = ["(" + " ".join(x for m in members for x in m) + ")"] + outside
    rng.shuffle(in_dims)
    blocks = [[x] for x in others]
    rng.shuffle(blocks)
    out_dims = [" ".join(b) for b in blocks]
    j = rng.randrange(len(out_dims) + 1)
    if rng.random() < 0.5 and out_dims:
        q = rng.randrange(len(out_dims))
        out_dims[q] = "(" + (out_dims[q] + " " + " ".join(run) if rng.random() < 0.5 else " ".join(run) + " " + out_dims[q]) + ")"
    else:
        out_dims.insert(j, "(" + " ".join(run) + ")")
    e_in, e_out = " ".join(in_dims), " ".join(out_dims)
    return {"op": "id", "family": "id", "desc": f"{e_in} -> {e_out}", "shapes": [gen.shape_of_expr(e_in, sizes)],
            "kwargs": {x: sizes[x] for x in inside}, "note": ["cse"]}


def directed_dot_calls():
    """Deterministic dot calls with two contracted axes of equal length that appear in different orders in the operands
    (the case in which contracted axes could be paired by position), with and without brackets, with a batch axis, on the
    backends that lower dot differently.  They run under R2/R3 and the model cross-check (Denote.denoteDot) on every run."""
    out = []
    for backend in ("numpy.numpylike", "numpy.einsum", None):
        for desc, shapes in [
            ("a b c, b c d -> a d", [(2, 3, 3), (3, 3, 2)]),
            ("a b c, c b d -> d a", [(2, 3, 3), (3, 3, 2)]),
            ("a [b c], [c b] d -> a d", [(2, 2, 2), (2, 2, 3)]),
            ("e c a b, b e d c -> e a d", [(2, 2, 3, 2), (2, 2, 1, 2)]),
            ("[b] a [c], [c] [b] -> a", [(3, 2, 3), (3, 3)]),
            # separately bracketed contracted axes of equal length in both operands, in different orders (C08c
            # denote_dot_permute_input: R2 moves the un-bracketed axes, the dot-operand-order tie moves all of them)
            ("a [b] [c], [c] d [b] -> a d", [(2, 2, 2), (2, 3, 2)]),
            ("[b] a [c], [c] [b] d -> d a", [(2, 3, 2), (2, 2, 2)]),
            ("a [b], [b] [c], [c] d -> a d", [(2, 2), (2, 2), (2, 3)]),
        ]:
            out.append({"op": "dot", "family": "dot", "desc": desc, "shapes": shapes, "kwargs": {}, "note": ["directed-dot"], "backend": backend})
    return out


def directed_reduce_calls():
    """Deterministic reductions with two or three separately bracketed axes between un-bracketed ones, all lengths equal
    (a wrong axis is then invisible to every shape check).  They run under R2/R3, the bracket-order tie and the model
    cross-check (Denote.denoteReduce) on every run."""
    out = []
    for op in ("sum", "max"):
        for desc, shape in [
            ("[a] b [c] d -> b d", (2, 2, 2, 2)),
            ("[a] b [c] d -> d b", (3, 3, 3, 3)),
            ("b [a] d [c] -> b d", (2, 2, 2, 2)),
            ("[a] [b] c d -> d c", (2, 2, 2, 2)),
            ("a [b] c [d] e [f] -> e a c", (2, 2, 2, 2, 2, 2)),
            ("(a [b]) c [d] -> c a", (4, 2, 2)),
        ]:
            kw = {"a": 2} if desc.startswith("(") else {}
            out.append({"op": op, "family": "reduce", "desc": desc, "shapes": [shape], "kwargs": kw, "note": ["directed-reduce"], "backend": None})
    return out


def directed_concat_calls():
    """Deterministic calls for the laws of Props/C08c that had no real-call counterpart: `id` with a concatenation in the
    input and/or the output whose siblings are permuted (R2/R3; one concatenation per expression, so the enumeration of
    the virtual tensors keeps its order) or wrapped in parentheses together with the concatenation (R4, `regroup_concat`),
    and elementwise operations with three operands one of which is permuted (R2).  The id calls also run on the Lean
    denotation (`Denote.denoteId` and its functional form `denoteIdFunG`)."""
    out = []
    for desc, shapes, kw in [
        ("a (b + c) d -> d (b + c) a", [(2, 3, 2)], {"b": 1}),
        ("a (b + c) d -> a b d, d c a", [(2, 3, 2)], {"b": 1}),
        ("a c, b c -> c (a + b)", [(2, 2), (1, 2)], {}),
        ("d a (b + c) -> (b + c) a d", [(2, 4, 4)], {"b": 2}),      # a sibling as long as the concatenation, equal blocks
    ]:
        out.append({"op": "id", "family": "id", "desc": desc, "shapes": shapes, "kwargs": kw, "note": ["directed-concat"],
                    "backend": None, "regroup_concat": True})
    for backend in ("numpy.numpylike", "numpy.einsum", None):
        for op, desc, shapes in [
            ("add", "a b c, c b, a -> c a b", [(2, 2, 3), (3, 2), (2,)]),
            ("multiply", "a (b c) d, d b, c a -> (d a) c b", [(2, 2, 3), (3, 2), (1, 2)]),
        ]:
            out.append({"op": op, "family": "elementwise", "desc": desc, "shapes": shapes, "kwargs": {"c": 1} if "(b c)" in desc else {},
                        "note": ["directed-nary"], "backend": backend})
    return out


_DIRECTED = None


def base_call(rng):
    global _DIRECTED
    r = rng.random()
    if r < 0.12:
        # structural sweep shared with C01: every subset of bracketed positions for argmax/argmin/sum/flip, diagonals
        if _DIRECTED is None:
            from props import c01
            _DIRECTED = list(c01.directed_calls())
        return dict(rng.choice(_DIRECTED))
    if r < 0.2:
        return gen_dot_batched(rng)
    if r < 0.32:
        return gen_id_cse(rng)
    return gen.gen_call(rng)


# ---------------------------------------------------------------- main

def run(ctx):
    rng = ctx.rng
    per = 30 if ctx.quick else 1000
    _RESCANS[1] = 25 if ctx.quick else 300
    if ctx.broken:
        per *= 3
    ctx.extra["rule"] = ("six metamorphic relations (R1 rename, R2 permute input + transpose, R3 permute output, R4 parenthesise + reshape, R5 round trip, "
                         "R6 composition); base calls from the grammar-directed generator (all op families, lengths biased to 1 and to equal lengths on different axes), "
                         "numpy backends None/numpy/numpylike/einsum, integer iota / random integer / float data; every related call runs on the real einx; id and "
                         "add/subtract/multiply/maximum/minimum calls are also evaluated on the Lean denotation (driver) from einx's solved expressions; "
                         "non-trivial = the transformation changed the description (non-identity permutation / at least one renamed axis / a new group) and the base "
                         "call has at least two axes; distinct by (relation, descriptions, shapes, backend)")
    ctx.assumptions.append("solved stage-3 expression trees for the model cross-check are taken from einx itself (front-trusted; tied by C02/C07/C12)")
    ctx.assumptions.append("C01 (validator + oracle) ties einx's results to the denotation the theorems are about")
    warnings.simplefilter("ignore")
    applicable = {r: 0 for r in RELS}
    # deterministic structural sweep (shared with C01): every subset of bracketed positions for argmax/argmin/sum/flip and
    # non-adjacent diagonals, under R2 (permute an input and transpose the tensor) and R3 (permute the output)
    from props import c01 as _c01
    for call in _c01.directed_calls():
        for rel in ("R2", "R3"):
            args = gen.make_args(call, rng, "rand")
            tseed = rng.randrange(1 << 30)
            try:
                fail = check_pair(ctx, rel, dict(call), args, None, tseed)
            except Skip:
                ctx.count(f"directed:{rel}:skipped")
                continue
            ctx.case(f"directed {rel} {call['op']} {call['desc']}", True)
            ctx.count(f"directed:{rel}:{'ok' if fail is None else 'VIOLATED'}")
            if fail is not None:
                small = shrink_pair(ctx, rel, dict(call), None, tseed)
                fail = small or fail
                ctx.violation(sig_pair(fail), fail)
        if len(ctx.violations) >= 4:
            break
    for call in directed_dot_calls() + directed_reduce_calls() + directed_concat_calls():
        for rel in (("R2", "R3", "R4") if call.get("regroup_concat") else ("R2", "R3")):
            args = gen.make_args(call, rng, "rand")
            tseed = rng.randrange(1 << 30)
            try:
                fail = check_pair(ctx, rel, dict(call), args, call["backend"], tseed)
            except Skip:
                ctx.count(f"directed-dot:{rel}:skipped")
                continue
            ctx.case(f"directed {rel} {call['op']} {call['desc']} {call['backend']}", True)
            ctx.count(f"directed-dot:{rel}:{'ok' if fail is None else 'VIOLATED'}")
            if fail is not None:
                small = shrink_pair(ctx, rel, dict(call), call["backend"], tseed)
                fail = small or fail
                ctx.violation(sig_pair(fail), fail)
        if len(ctx.violations) >= 4:
            break
    for rel in RELS:
        done = 0
        attempts = 0
        while done < per and attempts < per * 12:
            attempts += 1
            backend = rng.choice(BACKENDS)
            mode = rng.choice(["iota", "iota", "rand", "float"])
            tseed = rng.randrange(1 << 30)
            if rel in ("R5", "R6"):
                names, sizes, exprs, kws = chain_instance(rng, rel)
                x = make_x(rng, gen.shape_of_expr(exprs[0], sizes), mode)
                try:
                    fail = check_chain(ctx, rel, exprs, sizes, kws, x, backend)
                except Exception as e:
                    ctx.count(f"{rel}:raised:{type(e).__name__}")
                    ctx.count(f"{rel}:skipped")
                    continue
                sig = f"{rel} {exprs} {sorted(sizes.items())} {backend}"
                nontrivial = len(names) >= 2 and len(set(exprs)) == len(exprs)
                ctx.count("equal-lengths" if len(set(sizes.values())) < len(sizes) else "distinct-lengths")
                if 1 in sizes.values():
                    ctx.count("has-length-1-axis")
                if fail is not None:
                    small, _ = shrink_chain(ctx, rel, names, sizes, exprs, kws, mode, backend)
                    fail = small or fail
                    ctx.violation(sig_chain(fail), fail)
                sample = {"relation": rel, "exprs": exprs, "sizes": sizes, "backend": backend, "data": mode, "status": "ok" if fail is None else "VIOLATED"}
            else:
                call = base_call(rng)
                if "backend" in call:
                    backend = call["backend"]
                args = gen.make_args(call, rng, "iota" if mode == "iota" else "rand")
                if mode == "float" and call["family"] in ("id", "elementwise", "reduce", "dot") and call["op"] not in ("logical_and", "logical_or", "all", "any", "count_nonzero", "floor_divide"):
                    args = [np.asarray(a, dtype=np.float64) + 0.25 for a in args]
                try:
                    fail = check_pair(ctx, rel, call, args, backend, tseed)
                except Skip as s:
                    ctx.count(f"{rel}:skipped")
                    ctx.count(f"{rel}:skip:{str(s)[:40]}")
                    continue
                sig = f"{rel} {call['op']} {call['desc']} {call['shapes']} {backend} {tseed}"
                nontrivial = sum(len(s) for s in call["shapes"]) >= 2
                ctx.count("family:" + call["family"])
                szs = [d for s in call["shapes"] for d in s]
                if 1 in szs:
                    ctx.count("has-length-1-axis")
                if len(set(szs)) < len(szs):
                    ctx.count("equal-lengths")
                if fail is not None:
                    small = shrink_pair(ctx, rel, call, backend, tseed)
                    fail = small or fail
                    ctx.violation(sig_pair(fail), fail)
                sample = {"relation": rel, "op": call["op"], "desc": call["desc"], "shapes": [list(s) for s in call["shapes"]], "backend": backend, "data": mode,
                          "status": "ok" if fail is None else "VIOLATED"}
            done += 1
            applicable[rel] += 1
            ctx.case(sig, nontrivial)
            ctx.count(f"{rel}:{'ok' if fail is None else 'VIOLATED'}")
            if done <= 2:
                ctx.sample(sample, cap=12)
            if len(ctx.violations) >= 4:
                break
        if applicable[rel] < per // 2 and len(ctx.violations) < 4:
            raise core.MachineryError(f"relation {rel}: only {applicable[rel]} applicable instances out of {attempts} attempts")
        if len(ctx.violations) >= 4:
            break
    ctx.extra["instances_per_relation"] = applicable
    ctx.extra["cache_rescans"] = _RESCANS[0]
    ctx.extra["traces_validated_against_impl"] = ctx.extra.get("model_cross_checks", 0)


def replay(ctx, path):
    import einx
    with open(path) as f:
        r = json.load(f)["replay"]
    if r.get("kind") != "relation violated by einx":
        print(json.dumps(r, indent=1)[:3000])
        return 0
    if "calls" in r:
        x = np.asarray(r["input"])
        outs = []
        cur = x
        calls = r["calls"]
        kw = lambda c: dict(c["kwargs"], **({"backend": r["backend"]} if r.get("backend") else {}))
        y = einx.id(calls[0]["desc"], x, **kw(calls[0]))
        z = einx.id(calls[1]["desc"], y, **kw(calls[1]))
        print("chain result  :", np.asarray(z).tolist())
        if len(calls) == 3:
            print("direct result :", np.asarray(einx.id(calls[2]["desc"], x, **kw(calls[2]))).tolist())
        else:
            print("input         :", x.tolist())
        return 0
    for tag in ("1", "2"):
        c = r["call" + tag]
        kw = dict(c["kwargs"])
        if r.get("backend"):
            kw["backend"] = r["backend"]
        out = getattr(einx, c["op"])(c["desc"], *[np.asarray(a) for a in r["inputs" + tag]], **kw)
        out = list(out) if isinstance(out, (tuple, list)) else [out]
        print(f"call{tag}: einx.{c['op']}({c['desc']!r}) ->", [np.asarray(o).tolist() for o in out])
    print("expected for call2 (mapped result of call1):", r["result1_mapped"])
    return 0
